import Moyo.Model.SharedLazy
/-
C18 — helper lemmas for `lazy_schedule_free`: with a pure initialiser every value that is ever
computed, stored or read equals the initialiser's value, under every schedule; and a thread that
has been scheduled four times has finished.
-/
namespace Moyo.Shared
variable {V : Type}

/-- Safety invariant for an initialiser whose value is always `c`. -/
def LInv (c : V) (s : LState V) : Prop :=
  (∀ v, s.cell = some v → v = c) ∧
  ∀ t ∈ s.threads, (∀ v, t = .computed v → v = c) ∧ (∀ v, t = .done v → v = c)

theorem linv_initial (c : V) (k : Nat) : LInv c (initial k : LState V) := by
  refine ⟨fun v h => (nomatch h), fun t ht => ?_⟩
  have : t = .idle := (List.mem_replicate.mp ht).2
  subst this
  exact ⟨fun v h => (nomatch h), fun v h => (nomatch h)⟩

theorem linv_set {c : V} {s : LState V} {cell' : Option V} {i : Nat} {t' : TState V}
    (h : LInv c s) (hc : ∀ v, cell' = some v → v = c)
    (ht : (∀ v, t' = .computed v → v = c) ∧ (∀ v, t' = .done v → v = c)) :
    LInv c ⟨cell', s.threads.set i t'⟩ := by
  refine ⟨hc, fun t hm => ?_⟩
  rcases List.mem_or_eq_of_mem_set hm with h1 | h1
  · exact h.2 t h1
  · subst h1; exact ht

theorem linv_step {c : V} {init : Nat → V} (hpure : ∀ i, init i = c) (i : Nat) {s : LState V}
    (h : LInv c s) : LInv c (stepThread init i s) := by
  unfold stepThread
  split
  · exact h
  · -- idle
    split
    · rename_i v hv
      exact linv_set h h.1 ⟨fun w hw => (nomatch hw), fun w hw => (by cases hw; exact h.1 _ hv)⟩
    · exact linv_set h h.1 ⟨fun w hw => (nomatch hw), fun w hw => (nomatch hw)⟩
  · -- sawEmpty
    exact linv_set h h.1 ⟨fun w hw => (by cases hw; exact hpure i), fun w hw => (nomatch hw)⟩
  · -- computed v
    rename_i v hv
    have hvc : v = c := (h.2 _ (List.mem_of_getElem? hv)).1 v rfl
    refine linv_set h ?_ ⟨fun w hw => (nomatch hw), fun w hw => (nomatch hw)⟩
    intro w hw
    split at hw
    · cases hw; exact hvc
    · rename_i u hu; cases hw; exact h.1 _ hu
  · -- stored
    split
    · rename_i v hv
      exact linv_set h h.1 ⟨fun w hw => (nomatch hw), fun w hw => (by cases hw; exact h.1 _ hv)⟩
    · exact h
  · exact h

theorem linv_run {c : V} {init : Nat → V} (hpure : ∀ i, init i = c) (sched : List Nat) :
    ∀ {s : LState V}, LInv c s → LInv c (runSched init sched s) := by
  induction sched with
  | nil => intro s h; exact h
  | cons i rest ih => intro s h; exact ih (linv_step hpure i h)

end Moyo.Shared

namespace Moyo.Shared
variable {V : Type}

/-! ### Progress: a thread that is scheduled four times has finished -/

def rank : TState V → Nat
  | .idle => 0
  | .sawEmpty => 1
  | .computed _ => 2
  | .stored => 3
  | .done _ => 4

def rankAt (s : LState V) (i : Nat) : Nat :=
  match s.threads[i]? with
  | some t => rank t
  | none => 0

/-- a thread past its store step implies a full cell -/
def CellSet (s : LState V) : Prop := ∀ t ∈ s.threads, t = .stored → s.cell.isSome = true

theorem cellSet_initial (k : Nat) : CellSet (initial k : LState V) := by
  intro t ht h
  have : t = .idle := (List.mem_replicate.mp ht).2
  subst this; cases h

theorem stepThread_length (init : Nat → V) (i : Nat) (s : LState V) :
    (stepThread init i s).threads.length = s.threads.length := by
  unfold stepThread
  split <;> try rfl
  · split <;> simp
  · simp
  · simp
  · split <;> simp

theorem stepThread_other (init : Nat → V) {i j : Nat} (h : i ≠ j) (s : LState V) :
    (stepThread init i s).threads[j]? = s.threads[j]? := by
  unfold stepThread
  split <;> try rfl
  · split <;> simp [h]
  · simp [h]
  · simp [h]
  · split <;> simp [h]

theorem cellSet_step (init : Nat → V) (i : Nat) {s : LState V} (h : CellSet s) :
    CellSet (stepThread init i s) := by
  unfold stepThread
  split
  · exact h
  · split
    · intro t ht hs
      rcases List.mem_or_eq_of_mem_set ht with h1 | h1
      · exact h t h1 hs
      · subst h1; cases hs
    · intro t ht hs
      rcases List.mem_or_eq_of_mem_set ht with h1 | h1
      · exact h t h1 hs
      · subst h1; cases hs
  · intro t ht hs
    rcases List.mem_or_eq_of_mem_set ht with h1 | h1
    · exact h t h1 hs
    · subst h1; cases hs
  · intro t ht hs
    show (match s.cell with | none => some _ | some w => some w).isSome = true
    cases s.cell <;> rfl
  · split
    · intro t ht hs
      rcases List.mem_or_eq_of_mem_set ht with h1 | h1
      · exact h t h1 hs
      · subst h1; cases hs
    · exact h
  · exact h

theorem rank_step (init : Nat → V) {i : Nat} {s : LState V} (hJ : CellSet s) (hi : i < s.threads.length) :
    min 4 (rankAt s i + 1) ≤ rankAt (stepThread init i s) i := by
  have hget : s.threads[i]? = some s.threads[i] := List.getElem?_eq_getElem hi
  have hmem : s.threads[i] ∈ s.threads := List.getElem_mem hi
  unfold rankAt stepThread
  rw [hget]
  cases hti : s.threads[i] with
  | idle =>
    cases hc : s.cell <;> simp [hi, rank]
  | sawEmpty => simp [hi, rank]
  | computed v => simp [hi, rank]
  | stored =>
    have := hJ _ hmem hti
    cases hc : s.cell with
    | none => rw [hc] at this; cases this
    | some w => simp [hi, rank]
  | done v => simp [hget, hti, rank]

theorem cellSet_run (init : Nat → V) (sched : List Nat) :
    ∀ {s : LState V}, CellSet s → CellSet (runSched init sched s) := by
  induction sched with
  | nil => intro s h; exact h
  | cons i rest ih => intro s h; exact ih (cellSet_step init i h)

theorem runSched_length (init : Nat → V) (sched : List Nat) :
    ∀ (s : LState V), (runSched init sched s).threads.length = s.threads.length := by
  induction sched with
  | nil => intro s; rfl
  | cons i rest ih => intro s; exact (ih _).trans (stepThread_length init i s)

theorem rank_run (init : Nat → V) (i : Nat) (sched : List Nat) :
    ∀ {s : LState V}, CellSet s → i < s.threads.length →
      min 4 (rankAt s i + sched.count i) ≤ rankAt (runSched init sched s) i := by
  induction sched with
  | nil => intro s _ _; simp [runSched]; omega
  | cons j rest ih =>
    intro s hJ hi
    have hlen := stepThread_length init j s
    have ih' := ih (cellSet_step init j hJ) (by rw [hlen]; exact hi)
    show min 4 (rankAt s i + (j :: rest).count i) ≤ rankAt (runSched init rest (stepThread init j s)) i
    by_cases hji : j = i
    · subst hji
      have := rank_step init hJ hi
      rw [List.count_cons_self]
      omega
    · have : rankAt (stepThread init j s) i = rankAt s i := by
        unfold rankAt; rw [stepThread_other init hji]
      rw [List.count_cons_of_ne (fun h => hji h)]
      omega

theorem done_of_rank {s : LState V} {i : Nat} (h : 4 ≤ rankAt s i) : ∃ v, s.threads[i]? = some (.done v) := by
  unfold rankAt at h
  cases ht : s.threads[i]? with
  | none => rw [ht] at h; simp at h
  | some t =>
    rw [ht] at h
    cases t <;> simp [rank] at h
    exact ⟨_, rfl⟩

end Moyo.Shared
