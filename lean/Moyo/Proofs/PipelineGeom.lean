import Moyo.Model.PipelineOps
import Moyo.Proofs.SearchAccept
import Moyo.Proofs.OracleAlgebra
/-
Geometry for the end-to-end theorem of C01 (Props/C01Pipeline.lean): balls `|A v| ≤ r` with the triangle
inequality on radii (Cauchy–Schwarz), means, linear maps on `Q3`, and soundness of the decidable strain test
`PipelineOps.strainOk` (Sylvester's criterion for a 3×3 quadratic form, by an explicit sum-of-squares identity).
-/
namespace Moyo.Pipeline
open Moyo Moyo.Search Moyo.PipelineOps

/-! ### linear algebra on the plain structures -/

theorem add_ext {u v w : Q3} (hx : w.x = u.x + v.x) (hy : w.y = u.y + v.y) (hz : w.z = u.z + v.z) :
    w = u.add v := Q3.ext' hx hy hz

theorem apply_add (A : QM3) (u v : Q3) : A.apply (u.add v) = (A.apply u).add (A.apply v) := by
  apply Q3.ext' <;> simp [QM3.apply, Q3.add] <;> ring

theorem apply_smul (A : QM3) (k : Rat) (v : Q3) : A.apply (Q3.smul k v) = Q3.smul k (A.apply v) := by
  apply Q3.ext' <;> simp [QM3.apply, Q3.smul] <;> ring

theorem apply_mul (A B : QM3) (v : Q3) : (A.mul B).apply v = A.apply (B.apply v) := by
  apply Q3.ext' <;> simp [QM3.apply, QM3.mul] <;> ring

theorem one_apply (v : Q3) : QM3.one.apply v = v := by
  apply Q3.ext' <;> simp [QM3.apply, QM3.one]

theorem applyQ_mul (P Q : M3) (v : Q3) : (P.mul Q).applyQ v = P.applyQ (Q.applyQ v) := by
  apply Q3.ext' <;> simp [M3.applyQ, M3.mul] <;> ring

theorem applyQ_sub (P : M3) (u v : Q3) : P.applyQ (u.sub v) = (P.applyQ u).sub (P.applyQ v) := by
  apply Q3.ext' <;> simp [M3.applyQ, Q3.sub] <;> ring

theorem applyQ_smul (P : M3) (k : Rat) (v : Q3) : P.applyQ (Q3.smul k v) = Q3.smul k (P.applyQ v) := by
  apply Q3.ext' <;> simp [M3.applyQ, Q3.smul] <;> ring

theorem applyQ_zq (P : M3) (z : Z3) : P.applyQ (zq z) = zq (P.apply z) := by
  apply Q3.ext' <;> simp [M3.applyQ, M3.apply, zq]

theorem applyQ_smul_one (k : Int) (v : Q3) : (M3.smul k M3.one).applyQ v = Q3.smul (k : Rat) v := by
  apply Q3.ext' <;> simp [M3.applyQ, M3.smul, M3.one, Q3.smul]

theorem smul_one' (v : Q3) : Q3.smul 1 v = v := by
  apply Q3.ext' <;> simp [Q3.smul]

theorem zq_add (a b : Z3) : zq (a.add b) = (zq a).add (zq b) := by
  apply Q3.ext' <;> simp [zq, Z3.add, Q3.add]

theorem zq_sub (a b : Z3) : zq (a.sub b) = (zq a).sub (zq b) := by
  apply Q3.ext' <;> simp [zq, Z3.sub, Q3.sub]

/-- `T · adj T = 1` acts as the identity when `det T = 1`. -/
theorem applyQ_adj_cancel {T : M3} (h : T.det = 1) (v : Q3) : T.applyQ (T.adj.applyQ v) = v := by
  rw [← applyQ_mul, M3.mul_adj, h, applyQ_smul_one]
  simpa using smul_one' v

theorem adj_applyQ_cancel {T : M3} (h : T.det = 1) (v : Q3) : T.adj.applyQ (T.applyQ v) = v := by
  rw [← applyQ_mul, M3.adj_mul, h, applyQ_smul_one]
  simpa using smul_one' v

/-! ### balls -/

/-- `|A v| ≤ r` (with `0 ≤ r`), on squares. -/
def Ball (A : QM3) (v : Q3) (r : Rat) : Prop := 0 ≤ r ∧ (A.apply v).normSq ≤ r * r

theorem normSq_nonneg (v : Q3) : 0 ≤ v.normSq := by
  simp only [Q3.normSq, Q3.dot]
  nlinarith [mul_self_nonneg v.x, mul_self_nonneg v.y, mul_self_nonneg v.z]

/-- Cauchy–Schwarz in the form used for the triangle inequality. -/
theorem dot_le (a b : Q3) (r1 r2 : Rat) (h1 : a.normSq ≤ r1 * r1) (h2 : b.normSq ≤ r2 * r2)
    (hr1 : 0 ≤ r1) (hr2 : 0 ≤ r2) : a.dot b ≤ r1 * r2 := by
  obtain ⟨a1, a2, a3⟩ := a
  obtain ⟨b1, b2, b3⟩ := b
  simp only [Q3.normSq, Q3.dot] at *
  have hcs := Moyo.Periodic.cs3 a1 a2 a3 b1 b2 b3
  have hna : 0 ≤ a1 * a1 + a2 * a2 + a3 * a3 := by
    nlinarith [mul_self_nonneg a1, mul_self_nonneg a2, mul_self_nonneg a3]
  have hnb : 0 ≤ b1 * b1 + b2 * b2 + b3 * b3 := by
    nlinarith [mul_self_nonneg b1, mul_self_nonneg b2, mul_self_nonneg b3]
  have hmm : (a1 * a1 + a2 * a2 + a3 * a3) * (b1 * b1 + b2 * b2 + b3 * b3) ≤ (r1 * r1) * (r2 * r2) :=
    mul_le_mul h1 h2 hnb (by nlinarith)
  by_contra hcon
  have hcon' : r1 * r2 < a1 * b1 + a2 * b2 + a3 * b3 := not_le.mp hcon
  have h0 : 0 ≤ r1 * r2 := mul_nonneg hr1 hr2
  nlinarith

theorem normSq_add (a b : Q3) : (a.add b).normSq = a.normSq + 2 * a.dot b + b.normSq := by
  simp only [Q3.normSq, Q3.dot, Q3.add]; ring

theorem ball_add {A : QM3} {u v : Q3} {r1 r2 : Rat} (h1 : Ball A u r1) (h2 : Ball A v r2) :
    Ball A (u.add v) (r1 + r2) := by
  refine ⟨by linarith [h1.1, h2.1], ?_⟩
  rw [apply_add, normSq_add]
  have := dot_le _ _ _ _ h1.2 h2.2 h1.1 h2.1
  nlinarith [h1.2, h2.2]

theorem ball_neg {A : QM3} {v : Q3} {r : Rat} (h : Ball A v r) : Ball A v.neg r := by
  refine ⟨h.1, ?_⟩
  have : (A.apply v.neg).normSq = (A.apply v).normSq := by
    simp only [QM3.apply, Q3.normSq, Q3.dot, Q3.neg]; ring
  rw [this]; exact h.2

theorem sub_eq_add_neg' (u v : Q3) : u.sub v = u.add v.neg := by
  apply Q3.ext' <;> simp [Q3.sub, Q3.add, Q3.neg] <;> ring

theorem ball_sub {A : QM3} {u v : Q3} {r1 r2 : Rat} (h1 : Ball A u r1) (h2 : Ball A v r2) :
    Ball A (u.sub v) (r1 + r2) := by
  rw [sub_eq_add_neg']; exact ball_add h1 (ball_neg h2)

theorem ball_mono {A : QM3} {v : Q3} {r r' : Rat} (h : Ball A v r) (hr : r ≤ r') : Ball A v r' := by
  refine ⟨le_trans h.1 hr, le_trans h.2 ?_⟩
  have := h.1
  nlinarith

theorem ball_congr {A : QM3} {u v : Q3} {r r' : Rat} (h : Ball A u r) (hv : v = u) (hr : r' = r) : Ball A v r' := by
  subst hv; subst hr; exact h

theorem ball_zero (A : QM3) {r : Rat} (hr : 0 ≤ r) : Ball A Q3.zero r := by
  refine ⟨hr, ?_⟩
  have : (A.apply Q3.zero).normSq = 0 := by simp [QM3.apply, Q3.normSq, Q3.dot, Q3.zero]
  rw [this]; exact mul_self_nonneg r

theorem ball_of_lt {A : QM3} {v : Q3} {s : Rat} (hs : 0 < s) (h : (A.apply v).normSq < s * s) : Ball A v s :=
  ⟨le_of_lt hs, le_of_lt h⟩

theorem ball_smul {A : QM3} {v : Q3} {r k : Rat} (hk : 0 ≤ k) (h : Ball A v r) : Ball A (Q3.smul k v) (k * r) := by
  refine ⟨mul_nonneg hk h.1, ?_⟩
  rw [apply_smul]
  have : (Q3.smul k (A.apply v)).normSq = k * k * (A.apply v).normSq := by
    simp only [Q3.smul, Q3.normSq, Q3.dot]; ring
  rw [this]
  have h2 := h.2
  have hkk : 0 ≤ k * k := mul_self_nonneg k
  nlinarith

/-- Sum of vectors in balls of radius `s`. -/
theorem ball_foldl {A : QM3} {s : Rat} : ∀ (l : List Q3) (acc : Q3) (r0 : Rat), Ball A acc r0 →
    (∀ v ∈ l, Ball A v s) → Ball A (l.foldl Q3.add acc) (r0 + l.length * s) := by
  intro l
  induction l with
  | nil => intro acc r0 h _; simpa using h
  | cons v l ih =>
    intro acc r0 h hl
    rw [List.foldl_cons]
    have h1 := ih (acc.add v) (r0 + s) (ball_add h (hl v (by simp))) (fun w hw => hl w (by simp [hw]))
    refine ball_congr h1 rfl ?_
    simp only [List.length_cons]; push_cast; ring

/-- The mean of vectors in a ball is in the ball. -/
theorem ball_mean {A : QM3} {s : Rat} (l : List Q3) (hl : ∀ v ∈ l, Ball A v s) (hne : l.length ≠ 0) :
    Ball A (Q3.smul (1 / (l.length : Rat)) (sumQ3 l)) s := by
  have h1 := ball_foldl l Q3.zero 0 (ball_zero A (le_refl _)) hl
  have hpos : (0 : Rat) < (l.length : Rat) := by
    have : 0 < l.length := Nat.pos_of_ne_zero hne
    exact_mod_cast this
  have hk : (0 : Rat) ≤ 1 / (l.length : Rat) := le_of_lt (one_div_pos.mpr hpos)
  have h2 := ball_smul (k := 1 / (l.length : Rat)) hk h1
  refine ball_congr h2 rfl ?_
  field_simp
  ring

/-! ### the strain test -/

/-- Sylvester's criterion, 3×3, by an explicit sum of squares. -/
theorem sylvester3 (p11 p22 p33 p12 p13 p23 x y z : Rat) (h1 : 0 < p11)
    (h2 : 0 < p11 * p22 - p12 * p12)
    (h3 : 0 ≤ p11 * (p22 * p33 - p23 * p23) - p12 * (p12 * p33 - p23 * p13) + p13 * (p12 * p23 - p22 * p13)) :
    0 ≤ p11 * (x * x) + p22 * (y * y) + p33 * (z * z) + 2 * p12 * (x * y) + 2 * p13 * (x * z) + 2 * p23 * (y * z) := by
  set q := p11 * (x * x) + p22 * (y * y) + p33 * (z * z) + 2 * p12 * (x * y) + 2 * p13 * (x * z) + 2 * p23 * (y * z)
    with hq
  set d2 := p11 * p22 - p12 * p12 with hd2
  set d3 := p11 * (p22 * p33 - p23 * p23) - p12 * (p12 * p33 - p23 * p13) + p13 * (p12 * p23 - p22 * p13) with hd3
  have key : p11 * d2 * q =
      d2 * ((p11 * x + p12 * y + p13 * z) * (p11 * x + p12 * y + p13 * z)) +
      (d2 * y + (p11 * p23 - p12 * p13) * z) * (d2 * y + (p11 * p23 - p12 * p13) * z) +
      p11 * d3 * (z * z) := by
    rw [hq, hd2, hd3]; ring
  have hpos : 0 < p11 * d2 := mul_pos h1 h2
  have hrhs : 0 ≤ p11 * d2 * q := by
    rw [key]
    have t1 : 0 ≤ d2 * ((p11 * x + p12 * y + p13 * z) * (p11 * x + p12 * y + p13 * z)) :=
      mul_nonneg (le_of_lt h2) (mul_self_nonneg _)
    have t2 : 0 ≤ (d2 * y + (p11 * p23 - p12 * p13) * z) * (d2 * y + (p11 * p23 - p12 * p13) * z) :=
      mul_self_nonneg _
    have t3 : 0 ≤ p11 * d3 * (z * z) := mul_nonneg (mul_nonneg (le_of_lt h1) h3) (mul_self_nonneg _)
    linarith
  by_contra hneg
  have : q < 0 := not_le.mp hneg
  nlinarith

/-- The quadratic form decided by `strainOk`. -/
theorem strainForm_eq (A : QM3) (R : M3) (lam : Rat) (v : Q3) :
    lam * lam * (A.apply v).normSq - (A.apply (R.applyQ v)).normSq =
      let p := strainForm A R lam
      p.1 * (v.x * v.x) + p.2.1 * (v.y * v.y) + p.2.2.1 * (v.z * v.z) + 2 * p.2.2.2.1 * (v.x * v.y) +
        2 * p.2.2.2.2.1 * (v.x * v.z) + 2 * p.2.2.2.2.2 * (v.y * v.z) := by
  simp only [strainForm, QM3.mul, QM3.ofM3, QM3.col, Q3.dot, QM3.apply, M3.applyQ, Q3.normSq]
  ring

/-- (H-η) is sound: `|A R v| ≤ lam·|A v|`. -/
theorem strainOk_sound {A : QM3} {R : M3} {lam : Rat} (h : strainOk A R lam = true) (v : Q3) :
    0 ≤ lam ∧ (A.apply (R.applyQ v)).normSq ≤ lam * lam * (A.apply v).normSq := by
  have hf := strainForm_eq A R lam v
  unfold strainOk at h
  generalize strainForm A R lam = p at h hf
  obtain ⟨p11, p22, p33, p12, p13, p23⟩ := p
  simp only [Bool.and_eq_true, Bool.or_eq_true, decide_eq_true_eq, beq_iff_eq] at h hf
  obtain ⟨hl, hcase⟩ := h
  refine ⟨hl, ?_⟩
  rcases hcase with ⟨⟨⟨⟨⟨z1, z2⟩, z3⟩, z4⟩, z5⟩, z6⟩ | ⟨⟨c1, c2⟩, c3⟩
  · subst z1 z2 z3 z4 z5 z6
    have : lam * lam * (A.apply v).normSq - (A.apply (R.applyQ v)).normSq = 0 := by rw [hf]; ring
    linarith
  · have := sylvester3 p11 p22 p33 p12 p13 p23 v.x v.y v.z c1 c2 c3
    linarith

theorem ball_strain {A : QM3} {R : M3} {lam : Rat} (h : strainOk A R lam = true) {v : Q3} {r : Rat}
    (hb : Ball A v r) : Ball A (R.applyQ v) (lam * r) := by
  obtain ⟨hl, hs⟩ := strainOk_sound h v
  refine ⟨mul_nonneg hl hb.1, le_trans hs ?_⟩
  have := hb.2
  have hll : 0 ≤ lam * lam := mul_self_nonneg lam
  nlinarith

end Moyo.Pipeline
