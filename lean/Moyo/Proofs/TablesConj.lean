import Moyo.Proofs.TablesClosed
import Mathlib.Data.List.Nodup
import Mathlib.Tactic.Linarith
/-
C16 (e), (f) / C17: soundness of the conjugacy certificates and of the non-conjugacy invariants.

* `arithOK … = true → Conjugate prim rep` (conjugation by a unimodular matrix carries one list of
  rotations onto the other),
* `Conjugate A B → invVec types A = invVec types B` for duplicate-free lists (so two groups with
  different invariant vectors are not conjugate in GL₃(ℤ)),
* `conjOK … = true → AffConj src tgt`.
-/
namespace Moyo.Tables
open Moyo Moyo.TableSpec

/-! ### lists of indices -/

theorem natsNodup_iff (l : List Nat) : natsNodup l = true ↔ l.Nodup := by
  induction l with
  | nil => simp [natsNodup]
  | cons a t ih => simp [natsNodup, ih, List.nodup_cons]

/-- Pigeonhole: a duplicate-free list of `n` numbers below `n` contains every number below `n`. -/
theorem mem_of_nodup_lt {perm : List Nat} {n : Nat} (hnd : perm.Nodup) (hlt : ∀ x ∈ perm, x < n)
    (hlen : perm.length = n) : ∀ j, j < n → j ∈ perm := by
  intro j hj
  by_contra hmem
  have hsub : perm ⊆ (List.range n).erase j := by
    intro x hx
    have hxj : x ≠ j := fun h => hmem (h ▸ hx)
    exact (List.mem_erase_of_ne hxj).2 (List.mem_range.2 (hlt x hx))
  have h1 := hnd.length_le_of_subset hsub
  have h2 : ((List.range n).erase j).length = n - 1 := by
    rw [List.length_erase_of_mem (List.mem_range.2 hj), List.length_range]
  omega

/-- If `f i = g (perm i)` along a zip with a permutation certificate, `g`'s list is covered. -/
theorem zip_perm_covers {α β : Type} {src : List α} {tgt : List β} {perm : List Nat}
    (hlen : src.length = tgt.length) (hplen : perm.length = src.length) (hnd : perm.Nodup)
    (hin : ∀ x ∈ src.zip perm, (tgt[x.2]?).isSome) :
    ∀ (j : Nat) (b : β), tgt[j]? = some b → ∃ (i : Nat) (a : α), src[i]? = some a ∧ perm[i]? = some j := by
  intro j b hb
  have hj : j < tgt.length := by
    by_contra h; rw [List.getElem?_eq_none (by omega)] at hb; cases hb
  have hlt : ∀ x ∈ perm, x < tgt.length := by
    intro x hx
    obtain ⟨i, hi⟩ := List.mem_iff_getElem?.1 hx
    have hil : i < perm.length := by
      by_contra h; rw [List.getElem?_eq_none (by omega)] at hi; cases hi
    have hs : src[i]? = some src[i] := List.getElem?_eq_getElem (by omega)
    have := hin (src[i], x) (mem_zip_of_getElem? hs hi)
    simp only at this
    by_contra hx'
    rw [List.getElem?_eq_none (by omega)] at this
    cases this
  obtain ⟨i, hi⟩ := List.mem_iff_getElem?.1 (mem_of_nodup_lt hnd hlt (by omega) j hj)
  have hil : i < perm.length := by
    by_contra h; rw [List.getElem?_eq_none (by omega)] at hi; cases hi
  exact ⟨i, src[i], List.getElem?_eq_getElem (by omega), hi⟩

/-! ### conjugacy in GL₃(ℤ) -/

/-- `Q` is a two-sided inverse of `P` (so both are unimodular integer matrices). -/
def Unimod (P Q : M3) : Prop := P.mul Q = M3.one ∧ Q.mul P = M3.one

/-- `a ↦ P⁻¹ a P` maps the list `A` into `B` and `b ↦ P b P⁻¹` maps `B` into `A`
(with `Q = P⁻¹`): as sets, `P⁻¹ A P = B`. -/
def ConjOnto (P Q : M3) (A B : List M3) : Prop :=
  (∀ a ∈ A, (Q.mul a).mul P ∈ B) ∧ (∀ b ∈ B, (P.mul b).mul Q ∈ A)

/-- The two finite sets of integer matrices are conjugate in GL₃(ℤ). -/
def Conjugate (A B : List M3) : Prop := ∃ P Q : M3, Unimod P Q ∧ ConjOnto P Q A B

theorem Unimod.symm {P Q : M3} (h : Unimod P Q) : Unimod Q P := ⟨h.2, h.1⟩

theorem conj_cancel {P Q : M3} (h : Unimod P Q) (a : M3) : (P.mul ((Q.mul a).mul P)).mul Q = a := by
  rw [M3.mul_assoc Q a P, ← M3.mul_assoc P Q, h.1, M3.one_mul, M3.mul_assoc, h.1, M3.mul_one]

theorem Conjugate.symm {A B : List M3} (h : Conjugate A B) : Conjugate B A := by
  obtain ⟨P, Q, hu, h1, h2⟩ := h
  exact ⟨Q, P, hu.symm, h2, h1⟩

theorem Conjugate.trans {A B C : List M3} (h1 : Conjugate A B) (h2 : Conjugate B C) : Conjugate A C := by
  obtain ⟨P1, Q1, hu1, f1, b1⟩ := h1
  obtain ⟨P2, Q2, hu2, f2, b2⟩ := h2
  refine ⟨P1.mul P2, Q2.mul Q1, ⟨?_, ?_⟩, ?_, ?_⟩
  · rw [M3.mul_assoc, ← M3.mul_assoc P2, hu2.1, M3.one_mul, hu1.1]
  · rw [M3.mul_assoc, ← M3.mul_assoc Q1, hu1.2, M3.one_mul, hu2.2]
  · intro a ha
    have := f2 _ (f1 a ha)
    simpa only [M3.mul_assoc] using this
  · intro c hc
    have := b1 _ (b2 c hc)
    simpa only [M3.mul_assoc] using this

/-- Soundness of the arithmetic-class certificate. -/
theorem conjugate_of_arithOK {prim rep : List M3} {P : M3} {perm : List Nat}
    (h : arithOK prim rep P perm = true) : Conjugate prim rep := by
  simp only [arithOK, Bool.and_eq_true, Bool.or_eq_true, beq_iff_eq, List.all_eq_true] at h
  obtain ⟨⟨⟨⟨hd, hlen⟩, hplen⟩, hnd⟩, hall⟩ := h
  have hu : Unimod P (OracleGroup.inv1 P) := ⟨OracleGroup.mul_inv1 hd, OracleGroup.inv1_mul hd⟩
  have hQ : M3.smul P.det P.adj = OracleGroup.inv1 P := rfl
  rw [hQ] at hall
  refine ⟨P, OracleGroup.inv1 P, hu, ?_, ?_⟩
  · intro a ha
    obtain ⟨i, hi⟩ := List.mem_iff_getElem?.1 ha
    have hil : i < prim.length := by
      by_contra h; rw [List.getElem?_eq_none (by omega)] at hi; cases hi
    have hp : perm[i]? = some perm[i] := List.getElem?_eq_getElem (by omega)
    exact List.mem_of_getElem? (hall (a, perm[i]) (mem_zip_of_getElem? hi hp))
  · intro b hb
    obtain ⟨j, hj⟩ := List.mem_iff_getElem?.1 hb
    obtain ⟨i, a, hi, hpi⟩ := zip_perm_covers hlen hplen ((natsNodup_iff _).1 hnd)
      (fun x hx => by rw [hall x hx]; rfl) j b hj
    have := hall (a, j) (mem_zip_of_getElem? hi hpi)
    simp only at this
    rw [hj] at this
    cases this
    rw [conj_cancel hu]
    exact List.mem_of_getElem? hi

/-! ### invariants -/

theorem trace_mul_comm (X Y : M3) : (X.mul Y).trace = (Y.mul X).trace := by
  simp only [M3.mul, M3.trace]; ring

theorem det_one : M3.one.det = 1 := by decide

theorem trace_conj {P Q : M3} (h : Unimod P Q) (a : M3) : ((Q.mul a).mul P).trace = a.trace := by
  rw [trace_mul_comm, ← M3.mul_assoc, h.1, M3.one_mul]

theorem det_conj {P Q : M3} (h : Unimod P Q) (a : M3) : ((Q.mul a).mul P).det = a.det := by
  have h1 : Q.det * P.det = 1 := by rw [← M3.det_mul, h.2, det_one]
  rw [M3.det_mul, M3.det_mul]
  calc Q.det * a.det * P.det = a.det * (Q.det * P.det) := by ring
    _ = a.det := by rw [h1, mul_one]

theorem rotSlot_conj (types : List (Int × Int × Nat)) {P Q : M3} (h : Unimod P Q) (a : M3) :
    rotSlot types ((Q.mul a).mul P) = rotSlot types a := by
  simp only [rotSlot, trace_conj h, det_conj h]

theorem transpose_mul (X Y : M3) : (X.mul Y).transpose = Y.transpose.mul X.transpose := by
  simp only [M3.mul, M3.transpose, M3.mk.injEq]
  refine ⟨?_, ?_, ?_, ?_, ?_, ?_, ?_, ?_, ?_⟩ <;> ring

theorem transpose_transpose (X : M3) : X.transpose.transpose = X := by cases X; rfl

theorem rotSlot_transpose (types : List (Int × Int × Nat)) (a : M3) :
    rotSlot types a.transpose = rotSlot types a := by
  have ht : a.transpose.trace = a.trace := by simp only [M3.transpose, M3.trace]
  have hd : a.transpose.det = a.det := by simp only [M3.transpose, M3.det]; ring
  simp only [rotSlot, ht, hd]

theorem conj_injective {P Q : M3} (h : Unimod P Q) {a b : M3}
    (hab : (Q.mul a).mul P = (Q.mul b).mul P) : a = b := by
  rw [← conj_cancel h a, ← conj_cancel h b, hab]

/-- Conjugation maps the elements of one rotation type into the elements of that type. -/
theorem conjInto_selType (types : List (Int × Int × Nat)) (s : Nat) {P Q : M3} (hu : Unimod P Q)
    {A B : List M3} (h : ∀ a ∈ A, (Q.mul a).mul P ∈ B) :
    ∀ a ∈ selType types s A, (Q.mul a).mul P ∈ selType types s B := by
  intro a ha
  simp only [selType, List.mem_filter, beq_iff_eq] at ha ⊢
  exact ⟨h a ha.1, by rw [rotSlot_conj types hu]; exact ha.2⟩

theorem length_le_of_conjInto {P Q : M3} (hu : Unimod P Q) {A B : List M3} (hA : A.Nodup)
    (h : ∀ a ∈ A, (Q.mul a).mul P ∈ B) : A.length ≤ B.length := by
  have hnd : (A.map fun a => (Q.mul a).mul P).Nodup :=
    hA.map_on (fun x _ y _ hxy => conj_injective hu hxy)
  have hsub : (A.map fun a => (Q.mul a).mul P) ⊆ B := by
    intro x hx
    obtain ⟨a, ha, rfl⟩ := List.mem_map.1 hx
    exact h a ha
  simpa using hnd.length_le_of_subset hsub

theorem histogram_eq_of_conjugate (types : List (Int × Int × Nat)) {A B : List M3} (hA : A.Nodup)
    (hB : B.Nodup) (h : Conjugate A B) : histogram types A = histogram types B := by
  obtain ⟨P, Q, hu, h1, h2⟩ := h
  simp only [histogram]
  refine List.map_congr_left fun s _ => ?_
  have hAs : (selType types s A).Nodup := hA.filter _
  have hBs : (selType types s B).Nodup := hB.filter _
  exact Nat.le_antisymm (length_le_of_conjInto hu hAs (conjInto_selType types s hu h1))
    (length_le_of_conjInto hu.symm hBs (conjInto_selType types s hu.symm h2))

/-! #### fixed points modulo `p` -/

/-- Congruence of integer vectors modulo `p`. -/
def VEq (p : Int) (u v : Z3) : Prop := ∃ k : Z3, u = v.add (Z3.smul p k)

theorem VEq.refl (p : Int) (u : Z3) : VEq p u u :=
  ⟨Z3.zero, by ext <;> simp [Z3.add, Z3.smul, Z3.zero]⟩

theorem VEq.symm {p : Int} {u v : Z3} (h : VEq p u v) : VEq p v u := by
  obtain ⟨k, rfl⟩ := h
  exact ⟨k.neg, by ext <;> simp only [Z3.add, Z3.smul, Z3.neg] <;> ring⟩

theorem VEq.trans {p : Int} {u v w : Z3} (h1 : VEq p u v) (h2 : VEq p v w) : VEq p u w := by
  obtain ⟨k1, rfl⟩ := h1
  obtain ⟨k2, rfl⟩ := h2
  exact ⟨k1.add k2, by ext <;> simp only [Z3.add, Z3.smul] <;> ring⟩

theorem VEq.apply {p : Int} {u v : Z3} (h : VEq p u v) (M : M3) : VEq p (M.apply u) (M.apply v) := by
  obtain ⟨k, rfl⟩ := h
  exact ⟨M.apply k, by rw [apply_add, apply_smul]⟩

theorem VEq.mod_self (p : Int) (u : Z3) : VEq p (u.mod p) u := by
  refine ⟨⟨-(u.x / p), -(u.y / p), -(u.z / p)⟩, ?_⟩
  ext <;> simp only [Z3.add, Z3.smul, Z3.mod]
  · have := Int.emod_add_mul_ediv u.x p; linarith
  · have := Int.emod_add_mul_ediv u.y p; linarith
  · have := Int.emod_add_mul_ediv u.z p; linarith

theorem fixedBy_iff (p : Int) (g : M3) (v : Z3) : fixedBy p g v = true ↔ VEq p (g.apply v) v := by
  unfold fixedBy VEq
  rw [beq_iff_eq, mod_eq_zero_iff]
  constructor
  · rintro ⟨k, hk⟩
    refine ⟨k, ?_⟩
    have hx := congrArg Z3.x hk; have hy := congrArg Z3.y hk; have hz := congrArg Z3.z hk
    simp only [Z3.sub] at hx hy hz
    ext <;> simp only [Z3.add] <;> omega
  · rintro ⟨k, hk⟩
    refine ⟨k, ?_⟩
    rw [hk]
    ext <;> simp only [Z3.add, Z3.sub] <;> omega

/-- A vector with entries in `[0, p)`. -/
def Reduced (p : Nat) (v : Z3) : Prop :=
  0 ≤ v.x ∧ v.x < p ∧ 0 ≤ v.y ∧ v.y < p ∧ 0 ≤ v.z ∧ v.z < p

theorem mem_vecsMod_iff (p : Nat) (v : Z3) : v ∈ vecsMod p ↔ Reduced p v := by
  simp only [vecsMod, List.mem_flatMap, List.mem_map, List.mem_range, Reduced]
  constructor
  · rintro ⟨x, hx, y, hy, z, hz, rfl⟩
    simp only
    omega
  · rintro ⟨h1, h2, h3, h4, h5, h6⟩
    refine ⟨v.x.toNat, by omega, v.y.toNat, by omega, v.z.toNat, by omega, ?_⟩
    ext <;> simp only <;> omega

theorem reduced_mod {p : Nat} (hp : 0 < p) (u : Z3) : Reduced p (u.mod p) := by
  have hp' : (0 : Int) < p := by exact_mod_cast hp
  have hne : (p : Int) ≠ 0 := by omega
  exact ⟨Int.emod_nonneg _ hne, Int.emod_lt_of_pos _ hp', Int.emod_nonneg _ hne, Int.emod_lt_of_pos _ hp',
    Int.emod_nonneg _ hne, Int.emod_lt_of_pos _ hp'⟩

/-- Congruent reduced vectors are equal. -/
theorem eq_of_veq_reduced {p : Nat} {u v : Z3} (h : VEq p u v) (hu : Reduced p u) (hv : Reduced p v) :
    u = v := by
  obtain ⟨k, rfl⟩ := h
  obtain ⟨a1, a2, a3, a4, a5, a6⟩ := hu
  obtain ⟨b1, b2, b3, b4, b5, b6⟩ := hv
  simp only [Z3.add, Z3.smul] at a1 a2 a3 a4 a5 a6
  have hx : k.x = 0 := by
    by_contra hk
    rcases Int.lt_or_gt_of_ne hk with hk | hk
    · have : (p : Int) * k.x ≤ -(p : Int) := by nlinarith
      omega
    · have : (p : Int) ≤ (p : Int) * k.x := by nlinarith
      omega
  have hy : k.y = 0 := by
    by_contra hk
    rcases Int.lt_or_gt_of_ne hk with hk | hk
    · have : (p : Int) * k.y ≤ -(p : Int) := by nlinarith
      omega
    · have : (p : Int) ≤ (p : Int) * k.y := by nlinarith
      omega
  have hz : k.z = 0 := by
    by_contra hk
    rcases Int.lt_or_gt_of_ne hk with hk | hk
    · have : (p : Int) * k.z ≤ -(p : Int) := by nlinarith
      omega
    · have : (p : Int) ≤ (p : Int) * k.z := by nlinarith
      omega
  ext <;> simp [Z3.add, Z3.smul, hx, hy, hz]

theorem vecsMod_nodup_2 : (vecsMod 2).Nodup := by decide
theorem vecsMod_nodup_3 : (vecsMod 3).Nodup := by decide

theorem apply_one (v : Z3) : M3.one.apply v = v := by
  ext <;> simp [M3.apply, M3.one]

/-- The fixed vectors of `B` inject into the fixed vectors of `A` when conjugation by `P` maps
`A` into `B`. -/
theorem fixCount_le {p : Nat} (hp : 0 < p) (hnd : (vecsMod p).Nodup) {P Q : M3} (hu : Unimod P Q)
    {A B : List M3} (h : ∀ a ∈ A, (Q.mul a).mul P ∈ B) : fixCount p B ≤ fixCount p A := by
  simp only [fixCount, List.countP_eq_length_filter]
  set LB := (vecsMod p).filter fun v => B.all fun g => fixedBy (p : Int) g v with hLB
  set LA := (vecsMod p).filter fun v => A.all fun g => fixedBy (p : Int) g v with hLA
  let φ : Z3 → Z3 := fun v => (P.apply v).mod p
  have hinj : ∀ x ∈ LB, ∀ y ∈ LB, φ x = φ y → x = y := by
    intro x hx y hy hxy
    have hxr : Reduced p x := (mem_vecsMod_iff p x).1 (List.mem_filter.1 hx).1
    have hyr : Reduced p y := (mem_vecsMod_iff p y).1 (List.mem_filter.1 hy).1
    have back : ∀ v : Z3, VEq p (Q.apply (φ v)) v := by
      intro v
      have h1 : VEq p (Q.apply (φ v)) (Q.apply (P.apply v)) := (VEq.mod_self p (P.apply v)).apply Q
      rwa [← apply_mul, hu.2, apply_one] at h1
    have : VEq p x y := ((back x).symm.trans (by rw [hxy]; exact VEq.refl _ _)).trans (back y)
    exact eq_of_veq_reduced this hxr hyr
  have hnodup : (LB.map φ).Nodup := (hnd.filter _).map_on hinj
  have hsub : LB.map φ ⊆ LA := by
    intro w hw
    obtain ⟨v, hv, rfl⟩ := List.mem_map.1 hw
    obtain ⟨_, hvB⟩ := List.mem_filter.1 hv
    rw [List.all_eq_true] at hvB
    refine List.mem_filter.2 ⟨(mem_vecsMod_iff p _).2 (reduced_mod hp _), ?_⟩
    rw [List.all_eq_true]
    intro a ha
    rw [fixedBy_iff]
    -- a (P v) = P (Q a P) v ≡ P v
    have hb : VEq p (((Q.mul a).mul P).apply v) v := (fixedBy_iff _ _ _).1 (hvB _ (h a ha))
    have h1 : VEq p (P.apply (((Q.mul a).mul P).apply v)) (P.apply v) := hb.apply P
    have e : P.apply (((Q.mul a).mul P).apply v) = a.apply (P.apply v) := by
      rw [← apply_mul, ← apply_mul, ← M3.mul_assoc, ← M3.mul_assoc, hu.1, M3.one_mul]
    rw [e] at h1
    have h2 : VEq p (a.apply (φ v)) (a.apply (P.apply v)) := (VEq.mod_self p (P.apply v)).apply a
    exact (h2.trans h1).trans (VEq.mod_self p (P.apply v)).symm
  simpa using hnodup.length_le_of_subset hsub

theorem fixCount_eq_of_conjOnto {p : Nat} (hp : 0 < p) (hnd : (vecsMod p).Nodup) {P Q : M3}
    (hu : Unimod P Q) {A B : List M3} (h : ConjOnto P Q A B) : fixCount p A = fixCount p B :=
  Nat.le_antisymm (fixCount_le hp hnd hu.symm h.2) (fixCount_le hp hnd hu h.1)

theorem fixRow_eq_of_conjOnto (types : List (Int × Int × Nat)) {p : Nat} (hp : 0 < p)
    (hnd : (vecsMod p).Nodup) {P Q : M3} (hu : Unimod P Q) {A B : List M3} (h : ConjOnto P Q A B) :
    fixRow types p A = fixRow types p B := by
  simp only [fixRow]
  congr 1
  · refine List.map_congr_left fun s _ => ?_
    exact fixCount_eq_of_conjOnto hp hnd hu
      ⟨conjInto_selType types s hu h.1, conjInto_selType types s hu.symm h.2⟩
  · rw [fixCount_eq_of_conjOnto hp hnd hu h]

/-- Transposed groups are conjugate by the transposed inverse. -/
theorem conjOnto_transpose {P Q : M3} (hu : Unimod P Q) {A B : List M3} (h : ConjOnto P Q A B) :
    Unimod Q.transpose P.transpose ∧
      ConjOnto Q.transpose P.transpose (A.map M3.transpose) (B.map M3.transpose) := by
  refine ⟨⟨?_, ?_⟩, ?_, ?_⟩
  · rw [← transpose_mul, hu.1]; rfl
  · rw [← transpose_mul, hu.2]; rfl
  · intro x hx
    obtain ⟨a, ha, rfl⟩ := List.mem_map.1 hx
    refine List.mem_map.2 ⟨(Q.mul a).mul P, h.1 a ha, ?_⟩
    rw [transpose_mul, transpose_mul, M3.mul_assoc]
  · intro x hx
    obtain ⟨b, hb, rfl⟩ := List.mem_map.1 hx
    refine List.mem_map.2 ⟨(P.mul b).mul Q, h.2 b hb, ?_⟩
    rw [transpose_mul, transpose_mul, M3.mul_assoc]

/-- **Invariance.**  Conjugate duplicate-free lists of matrices have the same invariant vector. -/
theorem invVec_eq_of_conjugate (types : List (Int × Int × Nat)) {A B : List M3} (hA : A.Nodup)
    (hB : B.Nodup) (h : Conjugate A B) : invVec types A = invVec types B := by
  have hh := histogram_eq_of_conjugate types hA hB h
  obtain ⟨P, Q, hu, hc⟩ := h
  obtain ⟨hut, hct⟩ := conjOnto_transpose hu hc
  simp only [invVec]
  rw [hh, fixRow_eq_of_conjOnto types (by decide) vecsMod_nodup_2 hu hc,
    fixRow_eq_of_conjOnto types (by decide) vecsMod_nodup_3 hu hc,
    fixRow_eq_of_conjOnto types (by decide) vecsMod_nodup_2 hut hct,
    fixRow_eq_of_conjOnto types (by decide) vecsMod_nodup_3 hut hct]

/-- Distinct keys imply distinct matrices. -/
theorem nodup_of_keys {l : List M3} (h : natsNodup (l.map M3.key) = true) : l.Nodup :=
  List.Nodup.of_map _ ((natsNodup_iff _).1 h)

/-! ### affine conjugacy of space groups given by primitive coset representatives -/

/-- The affine map `(P, p/den)` conjugates `o = (R, t)` into `o0 = (R₀, t₀)` modulo ℤ³:
`R₀ = P⁻¹ R P` (with `P⁻¹ = adj P`, `det P = 1`) and `R p + t − p − P t₀ ∈ ℤ³`, i.e.
`t₀ ≡ P⁻¹ (R p + t − p)`; translations are in twelfths, `p` in units of `1/den` (`12 ∣ den`),
so the condition reads `R p + (den/12) t − p − (den/12) P t₀ ∈ den · ℤ³`. -/
def AffMaps (c : AffCert) (o o0 : HOp) : Prop :=
  o0.rot = (c.P.adj.mul o.rot).mul c.P ∧ o0.tr = o.tr ∧
    ∃ k : Z3, ((o.rot.apply c.p).add (Z3.smul (c.den / 12) o.trans)).sub
        (c.p.add (Z3.smul (c.den / 12) (c.P.apply o0.trans))) = Z3.smul c.den k

/-- The two lists of coset representatives (modulo ℤ³) describe space groups that are conjugate
under a proper affine map: every operation of `src` is carried to one of `tgt` and every
operation of `tgt` is reached; the two lists have the same number of coset representatives. -/
def AffConj (src tgt : List HOp) : Prop :=
  src.length = tgt.length ∧
  ∃ c : AffCert, c.P.det = 1 ∧ 0 < c.den ∧ c.den % 12 = 0 ∧
    (∀ o ∈ src, ∃ o0 ∈ tgt, AffMaps c o o0) ∧ (∀ o0 ∈ tgt, ∃ o ∈ src, AffMaps c o o0)

theorem affConj_of_conjOK {src tgt : List HOp} {c : AffCert} {perm : List Nat}
    (h : conjOK src tgt c perm = true) : AffConj src tgt := by
  simp only [conjOK, Bool.and_eq_true, beq_iff_eq, decide_eq_true_eq, List.all_eq_true] at h
  obtain ⟨⟨⟨⟨⟨⟨hd, hpos⟩, hden⟩, hlen⟩, hplen⟩, hnd⟩, hall⟩ := h
  have key : ∀ (o : HOp) (j : Nat), (o, j) ∈ src.zip perm → ∃ o0, tgt[j]? = some o0 ∧ AffMaps c o o0 := by
    intro o j hm
    have := hall (o, j) hm
    simp only at this
    split at this
    · cases this
    · rename_i o0 ho0
      simp only [Bool.and_eq_true, beq_iff_eq] at this
      obtain ⟨⟨h1, h2⟩, h3⟩ := this
      exact ⟨o0, ho0, h1, h2, (mod_eq_zero_iff _ _).1 h3⟩
  refine ⟨hlen, c, hd, hpos, hden, ?_, ?_⟩
  · intro o ho
    obtain ⟨i, hi⟩ := List.mem_iff_getElem?.1 ho
    have hil : i < src.length := by
      by_contra h; rw [List.getElem?_eq_none (by omega)] at hi; cases hi
    have hp : perm[i]? = some perm[i] := List.getElem?_eq_getElem (by omega)
    obtain ⟨o0, ho0, hm⟩ := key o _ (mem_zip_of_getElem? hi hp)
    exact ⟨o0, List.mem_of_getElem? ho0, hm⟩
  · intro o0 ho0
    obtain ⟨j, hj⟩ := List.mem_iff_getElem?.1 ho0
    obtain ⟨i, o, hi, hpi⟩ := zip_perm_covers hlen hplen ((natsNodup_iff _).1 hnd)
      (fun x hx => by obtain ⟨o0, h0, _⟩ := key x.1 x.2 hx; rw [h0]; rfl) j o0 hj
    obtain ⟨o0', h0', hm⟩ := key o j (mem_zip_of_getElem? hi hpi)
    rw [hj] at h0'; cases h0'
    exact ⟨o, List.mem_of_getElem? hi, hm⟩

/-- The linear parts of affinely conjugate groups are conjugate in GL₃(ℤ) (by `P`, `det P = 1`). -/
theorem conjugate_rots_of_affConj {src tgt : List HOp} (h : AffConj src tgt) :
    Conjugate (src.map (·.rot)) (tgt.map (·.rot)) := by
  obtain ⟨_, c, hd, _, _, h1, h2⟩ := h
  have hdd : c.P.det = 1 ∨ c.P.det = -1 := Or.inl hd
  have hu : Unimod c.P (OracleGroup.inv1 c.P) := ⟨OracleGroup.mul_inv1 hdd, OracleGroup.inv1_mul hdd⟩
  have hQ : OracleGroup.inv1 c.P = c.P.adj := by
    rw [OracleGroup.inv1, hd, M3.one_smul]
  rw [hQ] at hu
  refine ⟨c.P, c.P.adj, hu, ?_, ?_⟩
  · intro a ha
    obtain ⟨o, ho, rfl⟩ := List.mem_map.1 ha
    obtain ⟨o0, ho0, hm⟩ := h1 o ho
    exact List.mem_map.2 ⟨o0, ho0, hm.1⟩
  · intro b hb
    obtain ⟨o0, ho0, rfl⟩ := List.mem_map.1 hb
    obtain ⟨o, ho, hm⟩ := h2 o0 ho0
    refine List.mem_map.2 ⟨o, ho, ?_⟩
    rw [hm.1, conj_cancel hu]

end Moyo.Tables
