import Moyo.Spec.C02
import Moyo.Proofs.OracleSite
import Moyo.Proofs.OracleGroup
/-
Helpers for `Props/C02.lean`: the rotation-grouped membership test `hasOpG ∘ groupByRot` only
accepts operations that are in the list; nearest-integer residuals are minimal.
-/
namespace Moyo.OracleP
open Moyo Moyo.Oracle Moyo.Spec Moyo.Periodic

theorem cap_nil_of {k : Nat} {xs : List String} (h : xs = []) : cap xs k = [] := by
  subst h; simp [cap]

theorem take_nil_of {α : Type} {k : Nat} {xs : List α} (h : xs = []) : xs.take k = [] := by
  subst h; simp

theorem mem_modify {α : Type} {xs : Array α} {j : Nat} {f : α → α} {e : α}
    (h : e ∈ xs.modify j f) : e ∈ xs ∨ ∃ hj : j < xs.size, e = f xs[j] := by
  rw [Array.mem_iff_getElem] at h
  obtain ⟨m, hm, rfl⟩ := h
  rw [Array.getElem_modify]
  split
  · rename_i hjm
    subst hjm
    exact Or.inr ⟨by simpa using hm, rfl⟩
  · exact Or.inl (Array.getElem_mem _)

/-- Every translation stored in a group of `groupByRot ops` comes from an operation of `ops` with
that group's rotation. -/
theorem groupByRot_sound (ops : Array OpQ) :
    ∀ e ∈ groupByRot ops, ∀ t ∈ e.2, ∃ o ∈ ops, o.rot = e.1 ∧ o.trans = t := by
  unfold groupByRot
  apply Array.foldl_induction
    (motive := fun _ (acc : Array (M3 × Array Q3)) => ∀ e ∈ acc, ∀ t ∈ e.2, ∃ o ∈ ops, o.rot = e.1 ∧ o.trans = t)
  · intro e he; simp at he
  · intro i acc ih e he t ht
    split at he
    · rename_i j hj
      rw [Array.findIdx?_eq_some_iff_getElem] at hj
      obtain ⟨hjs, hkey, _⟩ := hj
      rcases mem_modify he with he' | ⟨_, rfl⟩
      · exact ih e he' t ht
      · simp only [Array.mem_push] at ht
        rcases ht with ht | rfl
        · exact ih _ (Array.getElem_mem hjs) t ht
        · exact ⟨ops[i], Array.getElem_mem _, (beq_iff_eq.1 hkey).symm, rfl⟩
    · rcases Array.mem_push.1 he with he' | rfl
      · exact ih e he' t ht
      · simp only [List.mem_toArray, List.mem_singleton] at ht
        subst ht
        exact ⟨ops[i], Array.getElem_mem _, rfl, rfl⟩

/-- The grouped membership test accepts only operations that are reported (modulo `ℤ³`, within `r2`). -/
theorem hasOpG_sound {A : QM3} {gi : Q3} {ops : Array OpQ} {o : OpQ} {r2 : Rat}
    (h : hasOpG A gi (groupByRot ops) o r2 = true) : Reported A r2 ops o := by
  unfold hasOpG at h
  split at h
  · cases h
  · rename_i e he
    have hkey := Array.find?_some he
    have hmem := Array.mem_of_find?_eq_some he
    rw [Array.any_eq_true'] at h
    obtain ⟨t, ht, hclose⟩ := h
    obtain ⟨p, hp, hr, rfl⟩ := groupByRot_sound ops e hmem t ht
    exact ⟨p, Array.mem_toList_iff.2 hp, hr.trans (beq_iff_eq.1 hkey), withinPeriodic_sound hclose⟩

/-- The nearest-integer residual is the smallest residual. -/
theorem rabs_wrap_le (q : Rat) (n : Int) : rabs (ratWrap q) ≤ rabs (q - n) := by
  obtain ⟨c1, c2⟩ := ratRound_close q
  unfold ratWrap
  rcases lt_trichotomy n (ratRound q) with hlt | rfl | hgt
  · have : (n : Rat) + 1 ≤ ratRound q := by exact_mod_cast hlt
    unfold rabs; split <;> split <;> linarith
  · exact le_refl _
  · have : (ratRound q : Rat) + 1 ≤ n := by exact_mod_cast hgt
    unfold rabs; split <;> split <;> linarith

/-! ### completeness of the grouped membership test -/

/-- Keys (rotation parts) of the groups are pairwise distinct. -/
def KeysDistinct (g : Array (M3 × Array Q3)) : Prop :=
  ∀ (a b : Nat) (ha : a < g.size) (hb : b < g.size), g[a].1 = g[b].1 → a = b

theorem groupByRot_complete (ops : Array OpQ) :
    (∀ (k : Nat) (hk : k < ops.size), ∃ e ∈ groupByRot ops, e.1 = ops[k].rot ∧ ops[k].trans ∈ e.2) ∧
      KeysDistinct (groupByRot ops) := by
  unfold groupByRot
  have key := Array.foldl_induction (as := ops)
    (motive := fun i (acc : Array (M3 × Array Q3)) =>
      (∀ (k : Nat) (hk : k < ops.size), k < i → ∃ e ∈ acc, e.1 = ops[k].rot ∧ ops[k].trans ∈ e.2) ∧
        KeysDistinct acc)
    (init := #[])
    (f := fun acc o =>
      match acc.findIdx? (fun g => g.1 == o.rot) with
      | some i => acc.modify i fun g => (g.1, g.2.push o.trans)
      | none => acc.push (o.rot, #[o.trans]))
    ⟨fun k _ hk => absurd hk (Nat.not_lt_zero k), fun a b ha => absurd ha (by simp)⟩
    (by
      intro i acc ⟨ih1, ih2⟩
      split
      · rename_i j hj
        rw [Array.findIdx?_eq_some_iff_getElem] at hj
        obtain ⟨hjs, hkey, _⟩ := hj
        have hkey' : acc[j].1 = ops[i].rot := beq_iff_eq.1 hkey
        have hget : ∀ (m : Nat) (hm : m < acc.size),
            ((acc.modify j fun g => (g.1, g.2.push ops[i].trans))[m]'(by simpa using hm)).1 = acc[m].1 ∧
            ∀ t ∈ acc[m].2, t ∈ ((acc.modify j fun g => (g.1, g.2.push ops[i].trans))[m]'(by simpa using hm)).2 := by
          intro m hm
          rw [Array.getElem_modify]
          split
          · exact ⟨rfl, fun t ht => Array.mem_push.2 (Or.inl ht)⟩
          · exact ⟨rfl, fun t ht => ht⟩
        refine ⟨?_, ?_⟩
        · intro k hk hki
          by_cases hk' : k < i.1
          · obtain ⟨e, he, h1, h2⟩ := ih1 k hk hk'
            rw [Array.mem_iff_getElem] at he
            obtain ⟨m, hm, rfl⟩ := he
            refine ⟨_, Array.getElem_mem (by simpa using hm), ?_, ?_⟩
            · rw [(hget m hm).1]; exact h1
            · exact (hget m hm).2 _ h2
          · have hki' : k = i.1 := by omega
            subst hki'
            refine ⟨_, Array.getElem_mem (i := j) (by simpa using hjs), ?_, ?_⟩
            · rw [(hget j hjs).1]; exact hkey'
            · rw [Array.getElem_modify, if_pos rfl]
              exact Array.mem_push.2 (Or.inr rfl)
        · intro a b ha hb hab
          have ha' : a < acc.size := by simpa using ha
          have hb' : b < acc.size := by simpa using hb
          rw [(hget a ha').1, (hget b hb').1] at hab
          exact ih2 a b ha' hb' hab
      · rename_i hnone
        rw [Array.findIdx?_eq_none_iff] at hnone
        refine ⟨?_, ?_⟩
        · intro k hk hki
          by_cases hk' : k < i.1
          · obtain ⟨e, he, h1, h2⟩ := ih1 k hk hk'
            exact ⟨e, Array.mem_push.2 (Or.inl he), h1, h2⟩
          · have hki' : k = i.1 := by omega
            subst hki'
            exact ⟨_, Array.mem_push.2 (Or.inr rfl), rfl, by simp⟩
        · intro a b ha hb hab
          rw [Array.getElem_push, Array.getElem_push] at hab
          rw [Array.size_push] at ha hb
          split at hab <;> split at hab
          · exact ih2 a b _ _ hab
          · rename_i ha' _
            have := hnone _ (Array.getElem_mem ha')
            have h' : (acc[a].1 == ops[i].rot) = true := beq_iff_eq.2 hab
            exact Bool.noConfusion (h'.symm.trans this)
          · rename_i _ hb'
            have := hnone _ (Array.getElem_mem hb')
            have h' : (acc[b].1 == ops[i].rot) = true := beq_iff_eq.2 hab.symm
            exact Bool.noConfusion (h'.symm.trans this)
          · omega)
  exact ⟨fun k hk => key.1 k hk hk, key.2⟩

/-- No false negative: a reported operation is accepted by the grouped test (non-degenerate
lattice, tolerance inside the scanned window). -/
theorem hasOpG_complete {A : QM3} {ops : Array OpQ} {o : OpQ} {r2 : Rat} (hA : A.det ≠ 0)
    (hw : Window A r2) (h : Reported A r2 ops o) :
    hasOpG A (ginvDiag A) (groupByRot ops) o r2 = true := by
  obtain ⟨p, hp, hr, hd⟩ := h
  obtain ⟨k, hk, rfl⟩ := Array.mem_iff_getElem.1 (Array.mem_toList_iff.1 hp)
  obtain ⟨hc1, hc2⟩ := groupByRot_complete ops
  obtain ⟨e, he, h1, h2⟩ := hc1 k hk
  unfold hasOpG
  split
  · rename_i hnone
    rw [Array.find?_eq_none] at hnone
    exact absurd (beq_iff_eq.2 (h1.trans hr)) (hnone e he)
  · rename_i e' he'
    have hkey : e'.1 = o.rot := beq_iff_eq.1 (Array.find?_some (p := fun (e : M3 × Array Q3) => e.1 == o.rot) he')
    have hmem := Array.mem_of_find?_eq_some he'
    have : e' = e := by
      obtain ⟨a, ha, rfl⟩ := Array.mem_iff_getElem.1 hmem
      obtain ⟨b, hb, rfl⟩ := Array.mem_iff_getElem.1 he
      have := hc2 a b ha hb (by rw [hkey, h1, hr])
      subst this; rfl
    subst this
    rw [Array.any_eq_true']
    exact ⟨_, h2, withinPeriodic_complete hA hw hd⟩

theorem hasOpG_iff {A : QM3} {ops : Array OpQ} {o : OpQ} {r2 : Rat} (hA : A.det ≠ 0)
    (hw : Window A r2) :
    hasOpG A (ginvDiag A) (groupByRot ops) o r2 = true ↔ Reported A r2 ops o :=
  ⟨hasOpG_sound, hasOpG_complete hA hw⟩

end Moyo.OracleP
