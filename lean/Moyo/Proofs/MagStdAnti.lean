import Moyo.Proofs.MagStdReynolds
/-
Helper lemmas for `mag_positions_invariant` (`Props/C13Stages.lean`): the average over the anti-translation of a type-IV
magnetic group (`S6m.antiAverageWith`, repair 1c2f2a9 of `StandardizedMagneticCell::new`) makes the positions exactly
invariant under the *ideal* anti-translation `round(2t)/2`, a unimodular change of setting carries that invariance
along, and the Reynolds average over the reference group (`symmetrize_positions`) preserves it when the translation
commutes with the group.
-/
namespace Moyo.S6m
open Moyo Moyo.StageStd

/-! ### rounding -/

/-- An integer within `1/2` (strictly) of `q` is `round q`. -/
theorem ratRound_of_close (q : Rat) (N : Int) (h1 : -(1 / 2) < q - N) (h2 : q - N < 1 / 2) : ratRound q = N := by
  unfold ratRound
  split
  · have f1 := Rat.floor_le (q + 1 / 2)
    have f2 := Rat.lt_floor_add_one (q + 1 / 2)
    push_cast at f2
    have a : ((q + 1 / 2).floor : ℚ) < (N : ℚ) + 1 := by linarith
    have b : (N : ℚ) < ((q + 1 / 2).floor : ℚ) + 1 := by linarith
    have a' : (q + 1 / 2).floor < N + 1 := by exact_mod_cast a
    have b' : N < (q + 1 / 2).floor + 1 := by exact_mod_cast b
    omega
  · have f1 := Rat.floor_le (-q + 1 / 2)
    have f2 := Rat.lt_floor_add_one (-q + 1 / 2)
    push_cast at f2
    have a : ((-q + 1 / 2).floor : ℚ) < -(N : ℚ) + 1 := by linarith
    have b : -(N : ℚ) < ((-q + 1 / 2).floor : ℚ) + 1 := by linarith
    have a' : (-q + 1 / 2).floor < -N + 1 := by exact_mod_cast a
    have b' : -N < (-q + 1 / 2).floor + 1 := by exact_mod_cast b
    omega

/-- Adding an integer does not change the wrapped value when it is not a tie. -/
theorem ratWrap_add_int (q : Rat) (n : Int) (h : |ratWrap q| < 1 / 2) : ratWrap (q + n) = ratWrap q := by
  have hw := abs_lt.mp h
  unfold ratWrap at hw ⊢
  have : ratRound (q + n) = ratRound q + n := by
    apply ratRound_of_close
    · push_cast; linarith [hw.1]
    · push_cast; linarith [hw.2]
  rw [this]; push_cast; ring

theorem wrap_add_int (v : Q3) (n : Z3) (h : |v.wrap.x| < 1 / 2 ∧ |v.wrap.y| < 1 / 2 ∧ |v.wrap.z| < 1 / 2) :
    (v.add (Z3.toQ3 n)).wrap = v.wrap := by
  obtain ⟨x, y, z⟩ := v
  obtain ⟨a, b, c⟩ := n
  simp only [Q3.wrap, Q3.map, Q3.add, Z3.toQ3, Q3.mk.injEq] at h ⊢
  exact ⟨ratWrap_add_int x a h.1, ratWrap_add_int y b h.2.1, ratWrap_add_int z c h.2.2⟩

/-! ### the average over the anti-translation -/

/-- One component: with `w_i = (x_j + t − x_i) − round(..)`, `w_j = (x_i + t − x_j) − round(..)` and `|w_i + w_j| < 1/2`,
the averaged coordinates differ by the ideal half translation up to the integer `round(x_i + t − x_j)`. -/
theorem anti_component (xi xj t : Rat)
    (h : |ratWrap (xj + t - xi) + ratWrap (xi + t - xj)| < 1 / 2) :
    (xj + 1 / 2 * ratWrap (xi + t - xj)) - (xi + 1 / 2 * ratWrap (xj + t - xi)) =
      (ratRound (2 * t) : Rat) / 2 - (ratRound (xi + t - xj) : Rat) := by
  have hw := abs_lt.mp h
  unfold ratWrap at hw ⊢
  have hr : ratRound (2 * t) = ratRound (xj + t - xi) + ratRound (xi + t - xj) := by
    apply ratRound_of_close
    · push_cast; linarith [hw.1]
    · push_cast; linarith [hw.2]
  rw [hr]; push_cast; ring

theorem antiHyp_spec {t : Q3} {p : List Nat} {pos : List Q3} (h : antiHyp t p pos = true) :
    isPerm pos.length p = true ∧ ∀ i, i < pos.length →
      p.getD (p.getD i 0) 0 = i ∧
      (|((antiDisp t p pos i).add (antiDisp t p pos (p.getD i 0))).x| < 1 / 2 ∧
       |((antiDisp t p pos i).add (antiDisp t p pos (p.getD i 0))).y| < 1 / 2 ∧
       |((antiDisp t p pos i).add (antiDisp t p pos (p.getD i 0))).z| < 1 / 2) := by
  unfold antiHyp at h
  simp only [Bool.and_eq_true, List.all_eq_true, List.mem_range, beq_iff_eq, absLt3_iff] at h
  exact ⟨h.1, fun i hi => h.2 i hi⟩

theorem translationInvariant_iff {s : Q3} {p : List Nat} {pos : List Q3} :
    translationInvariant s p pos = true ↔
      ∀ i, i < pos.length → ∃ z : Z3, ((pos.getD (p.getD i 0) Q3.zero).sub (pos.getD i Q3.zero)).sub s = Z3.toQ3 z := by
  unfold translationInvariant
  simp only [List.all_eq_true, List.mem_range, isInt3_iff]

theorem antiAverageWith_length (t : Q3) (p : List Nat) (pos : List Q3) : (antiAverageWith t p pos).length = pos.length := by
  simp [antiAverageWith]

theorem antiAverageWith_getD (t : Q3) (p : List Nat) (pos : List Q3) {i : Nat} (hi : i < pos.length) :
    (antiAverageWith t p pos).getD i Q3.zero = (pos.getD i Q3.zero).add (Q3.smul (1 / 2) (antiDisp t p pos i)) := by
  unfold antiAverageWith
  rw [getD_of_lt (by simpa using hi)]
  simp

/-- **The averaged positions are exactly invariant under the ideal anti-translation** `round(2t)/2`. -/
theorem anti_average_invariant (t : Q3) (p : List Nat) (pos : List Q3) (h : antiHyp t p pos = true) :
    translationInvariant (idealHalf t) p (antiAverageWith t p pos) = true := by
  obtain ⟨hp, hall⟩ := antiHyp_spec h
  rw [translationInvariant_iff]
  intro i hi
  rw [antiAverageWith_length] at hi
  obtain ⟨hinv, hsm⟩ := hall i hi
  have hj : p.getD i 0 < pos.length := perm_getD_lt hp hi
  -- `p⁻¹ i = p i` and `p⁻¹ (p i) = i`
  have e1 : permInv p i = p.getD i 0 := by
    have := permInv_perm hp hj
    rw [hinv] at this
    exact this
  have e2 : permInv p (p.getD i 0) = i := permInv_perm hp hi
  rw [antiAverageWith_getD t p pos hi, antiAverageWith_getD t p pos hj]
  unfold antiDisp at hsm ⊢
  rw [e1, e2] at hsm ⊢
  generalize pos.getD i Q3.zero = xi at hsm ⊢
  generalize pos.getD (p.getD i 0) Q3.zero = xj at hsm ⊢
  obtain ⟨x1, x2, x3⟩ := xi
  obtain ⟨y1, y2, y3⟩ := xj
  obtain ⟨t1, t2, t3⟩ := t
  simp only [Q3.wrap, Q3.map, Q3.add, Q3.sub] at hsm
  refine ⟨⟨-ratRound (x1 + t1 - y1), -ratRound (x2 + t2 - y2), -ratRound (x3 + t3 - y3)⟩, ?_⟩
  simp only [Q3.wrap, Q3.map, Q3.add, Q3.sub, Q3.smul, idealHalf, Z3.toQ3, Q3.mk.injEq]
  have c1 := anti_component x1 y1 t1 hsm.1
  have c2 := anti_component x2 y2 t2 hsm.2.1
  have c3 := anti_component x3 y3 t3 hsm.2.2
  refine ⟨?_, ?_, ?_⟩ <;> push_cast <;> linarith

/-! ### a unimodular change of setting carries the invariance along -/

theorem m3_applyQ_sub (M : M3) (u v : Q3) : M.applyQ (u.sub v) = (M.applyQ u).sub (M.applyQ v) := by
  simp only [M3.applyQ, Q3.sub, Q3.mk.injEq]
  refine ⟨?_, ?_, ?_⟩ <;> ring

theorem m3_applyQ_toQ3 (M : M3) (z : Z3) : M.applyQ (Z3.toQ3 z) = Z3.toQ3 (M.apply z) := by
  simp only [M3.applyQ, M3.apply, Z3.toQ3, Q3.mk.injEq]
  refine ⟨?_, ?_, ?_⟩ <;> push_cast <;> ring

theorem getD_map_of_lt {α β : Type} (f : α → β) (l : List α) (da : α) (db : β) {i : Nat} (hi : i < l.length) :
    (l.map f).getD i db = f (l.getD i da) := by
  rw [getD_of_lt (by simpa using hi), getD_of_lt hi, List.getElem_map]

/-- `x ↦ P⁻¹ (x − p)` maps positions invariant under the translation `h` to positions invariant under `P⁻¹ h`. -/
theorem transformPos_invariant (u : UTrans) (h : Q3) (p : List Nat) (pos : List Q3) (hp : isPerm pos.length p = true)
    (hinv : translationInvariant h p pos = true) :
    translationInvariant (u.linv.applyQ h) p (pos.map u.transformPos) = true := by
  rw [translationInvariant_iff] at hinv ⊢
  intro i hi
  have hi' : i < pos.length := by simpa using hi
  have hj : p.getD i 0 < pos.length := perm_getD_lt hp hi'
  obtain ⟨z, hz⟩ := hinv i hi'
  refine ⟨u.linv.apply z, ?_⟩
  rw [getD_map_of_lt u.transformPos pos Q3.zero Q3.zero hi', getD_map_of_lt u.transformPos pos Q3.zero Q3.zero hj,
    ← m3_applyQ_toQ3, ← hz]
  unfold UTrans.transformPos
  simp only [m3_applyQ_sub]
  generalize u.linv.applyQ (pos.getD (p.getD i 0) Q3.zero) = a
  generalize u.linv.applyQ (pos.getD i Q3.zero) = b
  generalize u.linv.applyQ u.shift = c
  generalize u.linv.applyQ h = d
  simp only [Q3.sub, Q3.mk.injEq]
  refine ⟨?_, ?_, ?_⟩ <;> ring

/-! ### the Reynolds average preserves a commuting translation -/

theorem translationCommutes_spec {ops : List OpQ} {perms : List (List Nat)} {s : Q3} {q : List Nat} {n : Nat}
    (hlen : perms.length = ops.length) (h : translationCommutes ops perms s q n = true) :
    isPerm n q = true ∧ ∀ l, l < ops.length →
      (∃ z : Z3, ((opAt ops l).rot.applyQ s).sub s = Z3.toQ3 z) ∧
      ∀ i, i < n → (permAt perms l).getD (q.getD i 0) 0 = q.getD ((permAt perms l).getD i 0) 0 := by
  unfold translationCommutes at h
  simp only [Bool.and_eq_true, List.all_eq_true, List.mem_range, beq_iff_eq, isInt3_iff] at h
  refine ⟨h.1, ?_⟩
  intro l hl
  have hl' : l < (ops.zip perms).length := by simp only [List.length_zip]; omega
  have := h.2 (ops.zip perms)[l] (List.getElem_mem hl')
  simp only [List.getElem_zip] at this
  unfold opAt permAt
  rw [getD_of_lt hl, getD_of_lt (by omega)]
  exact this

theorem q3_recompose (a b s : Q3) : a = (b.add s).add ((a.sub b).sub s) := by
  obtain ⟨a1, a2, a3⟩ := a
  obtain ⟨b1, b2, b3⟩ := b
  obtain ⟨s1, s2, s3⟩ := s
  simp only [Q3.add, Q3.sub, Q3.mk.injEq]
  refine ⟨?_, ?_, ?_⟩ <;> ring

theorem q3_recompose2 (a s : Q3) : a = s.add (a.sub s) := by
  obtain ⟨a1, a2, a3⟩ := a
  obtain ⟨s1, s2, s3⟩ := s
  simp only [Q3.add, Q3.sub, Q3.mk.injEq]
  refine ⟨?_, ?_, ?_⟩ <;> ring

/-- The displacement of site `q i` equals the displacement of site `i`. -/
theorem disp_commuting {ops : List OpQ} {perms : List (List Nat)} {pos : List Q3} {s : Q3} {q : List Nat}
    (hc : compatAction ops perms pos.length = true) (hs : smallDisp ops perms pos = true)
    (hq : translationCommutes ops perms s q pos.length = true) (hin : translationInvariant s q pos = true)
    {l i : Nat} (hl : l < ops.length) (hi : i < pos.length) :
    disp pos (opAt ops l) (permAt perms l) (q.getD i 0) = disp pos (opAt ops l) (permAt perms l) i := by
  obtain ⟨hlen, _, hperm, _, _, _⟩ := compat_spec hc
  obtain ⟨hqp, hcom⟩ := translationCommutes_spec hlen hq
  obtain ⟨⟨zs, hzs⟩, hpq⟩ := hcom l hl
  rw [translationInvariant_iff] at hin
  have hpl := hperm l hl
  have ha : permInv (permAt perms l) i < pos.length := permInv_lt hpl hi
  have hqa : q.getD (permInv (permAt perms l) i) 0 < pos.length := perm_getD_lt hqp ha
  -- `π_l⁻¹ (q i) = q (π_l⁻¹ i)`
  have e1 : permInv (permAt perms l) (q.getD i 0) = q.getD (permInv (permAt perms l) i) 0 := by
    have := hpq _ ha
    rw [perm_permInv hpl hi] at this
    rw [← this]
    exact permInv_perm hpl hqa
  obtain ⟨ka, hka⟩ := hin _ ha
  obtain ⟨ki, hki⟩ := hin i hi
  have small := (small_spec hs l hl i hi).1
  unfold disp at small ⊢
  rw [e1]
  -- the argument of the wrap changes by an integer vector
  have key : (((opAt ops l).rot.applyQ (pos.getD (q.getD (permInv (permAt perms l) i) 0) Q3.zero)).add (opAt ops l).trans).sub
      (pos.getD (q.getD i 0) Q3.zero) =
      ((((opAt ops l).rot.applyQ (pos.getD (permInv (permAt perms l) i) Q3.zero)).add (opAt ops l).trans).sub
        (pos.getD i Q3.zero)).add (Z3.toQ3 ((zs.add ((opAt ops l).rot.apply ka)).sub ki)) := by
    have ea : pos.getD (q.getD (permInv (permAt perms l) i) 0) Q3.zero =
        ((pos.getD (permInv (permAt perms l) i) Q3.zero).add s).add (Z3.toQ3 ka) := by
      rw [← hka]
      exact q3_recompose _ _ _
    have ei : pos.getD (q.getD i 0) Q3.zero = ((pos.getD i Q3.zero).add s).add (Z3.toQ3 ki) := by
      rw [← hki]
      exact q3_recompose _ _ _
    rw [ea, ei]
    have er : (opAt ops l).rot.applyQ s = s.add (Z3.toQ3 zs) := by
      rw [← hzs]
      exact q3_recompose2 _ _
    rw [M3.applyQ_add, M3.applyQ_add, er, m3_applyQ_toQ3]
    generalize (opAt ops l).rot.applyQ (pos.getD (permInv (permAt perms l) i) Q3.zero) = a
    generalize (opAt ops l).rot.apply ka = rk
    generalize pos.getD i Q3.zero = b
    generalize (opAt ops l).trans = τ
    simp only [Q3.add, Q3.sub, Z3.toQ3, Z3.add, Z3.sub, Q3.mk.injEq]
    refine ⟨?_, ?_, ?_⟩ <;> push_cast <;> ring
  rw [key]
  apply wrap_add_int
  obtain ⟨s1, s2, s3⟩ := small
  exact ⟨by linarith, by linarith, by linarith⟩

/-- **The Reynolds average preserves a commuting translation**: if the input positions are exactly invariant under the
translation `s` (with site permutation `q`) and `(1, s)` commutes with every operation of the group, so are the
symmetrised positions. -/
theorem reynolds_commuting_translation {ops : List OpQ} {perms : List (List Nat)} {pos : List Q3} {s : Q3} {q : List Nat}
    (hc : compatAction ops perms pos.length = true) (hs : smallDisp ops perms pos = true)
    (hq : translationCommutes ops perms s q pos.length = true) (hin : translationInvariant s q pos = true) :
    translationInvariant s q (symmetrizePositions ops perms pos) = true := by
  obtain ⟨hlen, hm, _, _, _, _⟩ := compat_spec hc
  obtain ⟨hqp, _⟩ := translationCommutes_spec hlen hq
  have hin' := translationInvariant_iff.mp hin
  rw [translationInvariant_iff]
  intro i hi
  have hi' : i < pos.length := by simpa [symmetrizePositions] using hi
  have hj : q.getD i 0 < pos.length := perm_getD_lt hqp hi'
  have e : ∀ a, a < pos.length → (symmetrizePositions ops perms pos).getD a Q3.zero = symmetrizeOne ops perms pos a := by
    intro a ha
    unfold symmetrizePositions
    rw [getD_of_lt (by simpa using ha)]
    simp
  obtain ⟨z, hz⟩ := hin' i hi'
  refine ⟨z, ?_⟩
  rw [e i hi', e _ hj, symmetrizeOne_eq pos hlen, symmetrizeOne_eq pos hlen]
  have hsum : dispSum ops perms pos (q.getD i 0) = dispSum ops perms pos i := by
    unfold dispSum
    congr 1
    apply List.map_congr_left
    intro l hl
    exact disp_commuting hc hs hq hin (List.mem_range.mp hl) hi'
  rw [hsum, ← hz]
  generalize Q3.smul (1 / (ops.length : Rat)) (dispSum ops perms pos i) = d
  generalize pos.getD (q.getD i 0) Q3.zero = a
  generalize pos.getD i Q3.zero = b
  simp only [Q3.add, Q3.sub, Q3.mk.injEq]
  refine ⟨?_, ?_, ?_⟩ <;> ring

end Moyo.S6m
