import Moyo.Proofs.Periodic
/-
`SiteIndex.findSel` / `SiteIndex.find`: whatever the float-guided hint `nearestF` returns, the answer
is `some j` only for an exactly validated site, and `none` only if no site passes the exact test.
Also small list lemmas used to take the checkers (`cap`, `take`, `filterMap`, …) apart.
-/
namespace Moyo.OracleP
open Moyo Moyo.Oracle Moyo.Spec Moyo.Periodic

/-! ### list plumbing -/

theorem take_succ_eq_nil {α : Type} {k : Nat} {xs : List α} (h : xs.take (k + 1) = []) : xs = [] := by
  cases xs with
  | nil => rfl
  | cons x xs => simp at h

theorem cap_eq_nil {k : Nat} {xs : List String} (h : cap xs (k + 1) = []) : xs = [] :=
  take_succ_eq_nil h

theorem cap_nil (k : Nat) : cap [] k = [] := by simp [cap]

/-- `if c then [] else [msg] = []` forces `c`. -/
theorem ite_nil_singleton {α : Type} {c : Prop} [Decidable c] {x : α} (h : (if c then [] else [x]) = []) : c := by
  by_cases hc : c
  · exact hc
  · rw [if_neg hc] at h; cases h

theorem ite_nil_singleton_iff {α : Type} {c : Prop} [Decidable c] {x : α} :
    (if c then [] else [x]) = [] ↔ c :=
  ⟨ite_nil_singleton, fun hc => if_pos hc⟩

theorem getElem!_of_mem {α : Type} [Inhabited α] {xs : Array α} {o : α} (h : o ∈ xs.toList) :
    ∃ k, k < xs.size ∧ xs[k]! = o := by
  rw [Array.mem_toList_iff, Array.mem_iff_getElem] at h
  obtain ⟨k, hk, rfl⟩ := h
  exact ⟨k, hk, getElem!_pos xs k hk⟩

theorem mem_of_getElem! {α : Type} [Inhabited α] {xs : Array α} {k : Nat} (hk : k < xs.size) :
    xs[k]! ∈ xs.toList := by
  rw [getElem!_pos xs k hk, Array.mem_toList_iff]
  exact Array.getElem_mem hk

/-! ### exact site search -/

theorem findSel_sound {ix : SiteIndex} {y : Q3} {sel : Nat → Bool} {r2 : Rat} {j : Nat}
    (h : ix.findSel y sel r2 = some j) :
    j < ix.cell.n ∧ sel j = true ∧
      withinPeriodic ix.cell.lat ix.gi (y.sub ix.cell.pos[j]!) r2 = true := by
  unfold SiteIndex.findSel at h
  simp only at h
  have scan : ∀ {j : Nat}, (List.range ix.cell.n).find?
      (fun k => sel k && withinPeriodic ix.cell.lat ix.gi (y.sub ix.cell.pos[k]!) r2) = some j →
      j < ix.cell.n ∧ sel j = true ∧
        withinPeriodic ix.cell.lat ix.gi (y.sub ix.cell.pos[j]!) r2 = true := by
    intro j hj
    have h1 := List.find?_some hj
    have h2 := List.mem_of_find?_eq_some hj
    rw [Bool.and_eq_true] at h1
    exact ⟨List.mem_range.1 h2, h1.1, h1.2⟩
  split at h
  · exact scan h
  · split at h
    · rename_i hc
      injection h with h
      subst h
      simp only [Bool.and_eq_true, decide_eq_true_eq] at hc
      exact ⟨hc.1.1, hc.1.2, hc.2⟩
    · exact scan h

theorem findSel_complete {ix : SiteIndex} {y : Q3} {sel : Nat → Bool} {r2 : Rat} {j : Nat}
    (hj : j < ix.cell.n) (hs : sel j = true)
    (hw : withinPeriodic ix.cell.lat ix.gi (y.sub ix.cell.pos[j]!) r2 = true) :
    (ix.findSel y sel r2).isSome = true := by
  unfold SiteIndex.findSel
  simp only
  have scan : ((List.range ix.cell.n).find?
      (fun k => sel k && withinPeriodic ix.cell.lat ix.gi (y.sub ix.cell.pos[k]!) r2)).isSome = true := by
    rw [List.find?_isSome]
    exact ⟨j, List.mem_range.2 hj, by rw [hs, hw]; rfl⟩
  split
  · exact scan
  · split
    · rfl
    · exact scan

theorem find_sound {c : CellQ} {y : Q3} {sp : Int} {r2 : Rat} {j : Nat}
    (h : (SiteIndex.build c).find y sp r2 = some j) :
    j < c.n ∧ c.num[j]! = sp ∧ PeriodicWithin c.lat (y.sub c.pos[j]!) r2 := by
  obtain ⟨h1, h2, h3⟩ := findSel_sound h
  refine ⟨h1, ?_, withinPeriodic_sound h3⟩
  simpa [SiteIndex.build] using h2

/-- A successful search certifies `OnSite`. -/
theorem find_isSome_sound {c : CellQ} {y : Q3} {sp : Int} {r2 : Rat}
    (h : ((SiteIndex.build c).find y sp r2).isSome = true) : OnSite c y sp r2 := by
  obtain ⟨j, hj⟩ := Option.isSome_iff_exists.1 h
  exact ⟨j, find_sound hj⟩

/-- No false alarm: if the point is on a site, the search succeeds (non-degenerate lattice,
radius inside the scanned window). -/
theorem find_isSome_complete {c : CellQ} {y : Q3} {sp : Int} {r2 : Rat}
    (hA : c.lat.det ≠ 0) (hw : Window c.lat r2) (h : OnSite c y sp r2) :
    ((SiteIndex.build c).find y sp r2).isSome = true := by
  obtain ⟨j, hj, hs, hp⟩ := h
  refine findSel_complete (j := j) hj ?_ ?_
  · simpa [SiteIndex.build] using hs
  · exact withinPeriodic_complete hA hw hp

theorem find_isSome_iff {c : CellQ} {y : Q3} {sp : Int} {r2 : Rat}
    (hA : c.lat.det ≠ 0) (hw : Window c.lat r2) :
    ((SiteIndex.build c).find y sp r2).isSome = true ↔ OnSite c y sp r2 :=
  ⟨find_isSome_sound, find_isSome_complete hA hw⟩

theorem find_isNone_false_iff {c : CellQ} {y : Q3} {sp : Int} {r2 : Rat} :
    ((SiteIndex.build c).find y sp r2).isNone = false ↔ ((SiteIndex.build c).find y sp r2).isSome = true := by
  cases (SiteIndex.build c).find y sp r2 <;> simp

/-! ### `QM3.maxAbs` -/

theorem foldl_maxAbs_le (b : Rat) : ∀ (xs : List Rat) (m : Rat),
    xs.foldl (fun m x => let ax := if x < 0 then -x else x; if m < ax then ax else m) m ≤ b ↔
      m ≤ b ∧ ∀ x ∈ xs, -b ≤ x ∧ x ≤ b := by
  intro xs
  induction xs with
  | nil => intro m; simp
  | cons x xs ih =>
    intro m
    rw [List.foldl_cons, ih]
    simp only [List.mem_cons, forall_eq_or_imp]
    constructor
    · rintro ⟨h1, h2⟩
      refine ⟨?_, ?_, h2⟩
      · split at h1 <;> split at h1 <;> linarith
      · split at h1 <;> split at h1 <;> constructor <;> linarith
    · rintro ⟨h1, ⟨h2, h3⟩, h4⟩
      refine ⟨?_, h4⟩
      split <;> split <;> linarith

/-- `maxAbs M ≤ b` says exactly that every entry lies in `[-b, b]`. -/
theorem maxAbs_le_iff (M : QM3) (b : Rat) : M.maxAbs ≤ b ↔ ∀ x ∈ M.toList, -b ≤ x ∧ x ≤ b := by
  unfold QM3.maxAbs
  rw [foldl_maxAbs_le]
  constructor
  · exact fun h => h.2
  · intro h
    refine ⟨?_, h⟩
    have := h M.a (by simp [QM3.toList])
    linarith

end Moyo.OracleP
