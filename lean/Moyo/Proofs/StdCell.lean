import Moyo.Proofs.StdAlgebra
import Moyo.Proofs.NormalForm
import Moyo.Props.C15
/-
Helper lemmas for `transform_cell_complete` (`Props/C05Stages.lean`): the bridge between the plain
3×3 structures and the general integer matrices of the SNF model, and the coset facts of
`C15.supercell_cosets` transported to the list of lattice points the model enumerates.
-/
namespace Moyo.StageStd
open Moyo Moyo.NF Moyo.IMat

/-! ### bridge `M3` ↔ `IMat 3 3` ↔ `Matrix` -/

theorem ofIMat_toIMat (m : M3) : ofIMat (toIMat m) = m := by
  cases m; simp [ofIMat, toIMat, entry]

theorem toIMat_ofIMat (A : IMat 3 3) : toIMat (ofIMat A) = A := by
  apply IMat.ext
  intro i j
  fin_cases i <;> fin_cases j <;> simp [toIMat, ofIMat, entry]

theorem toM_toIMat_det (m : M3) : (toM (toIMat m)).det = m.det := by
  rw [Matrix.det_fin_three]
  simp [toIMat, entry, M3.det]
  ring

theorem toIMat_mul (p q : M3) : toIMat (p.mul q) = (toIMat p).mul (toIMat q) := by
  apply toM_inj
  rw [toM_mul]
  ext i j
  rw [Matrix.mul_apply, Fin.sum_univ_three]
  fin_cases i <;> fin_cases j <;> simp [toIMat, entry, M3.mul]

theorem toIMat_one : toIMat M3.one = IMat.one 3 := by
  apply IMat.ext
  intro i j
  fin_cases i <;> fin_cases j <;> simp [toIMat, entry, M3.one, IMat.one]

/-- An integer 3-vector as a function on `Fin 3`. -/
def vec (v : Z3) : Fin 3 → ℤ := ![v.x, v.y, v.z]

theorem vec_injective {u v : Z3} (h : vec u = vec v) : u = v := by
  cases u; cases v
  have h0 := congrFun h 0
  have h1 := congrFun h 1
  have h2 := congrFun h 2
  simp [vec] at h0 h1 h2
  simp [h0, h1, h2]

theorem mulVec_vec (m : M3) (v : Z3) : (toM (toIMat m)).mulVec (vec v) = vec (m.apply v) := by
  funext i
  rw [Matrix.mulVec, dotProduct, Fin.sum_univ_three]
  fin_cases i <;> simp [toIMat, entry, vec, M3.apply]

theorem vec_sub (u v : Z3) : vec u - vec v = vec (u.sub v) := by
  funext i
  fin_cases i <;> simp [vec, Z3.sub]

/-- Every function on `Fin 3` is a `vec`. -/
theorem exists_vec (f : Fin 3 → ℤ) : ∃ v : Z3, vec v = f :=
  ⟨⟨f 0, f 1, f 2⟩, by funext i; fin_cases i <;> simp [vec]⟩

/-! ### the unimodular `L` of the SNF and its inverse -/

theorem det_unit_of_unimod {L : IMat 3 3} (h : Unimod L) : (ofIMat L).det = 1 ∨ (ofIMat L).det = -1 := by
  unfold Unimod at h
  rw [← toIMat_ofIMat L, toM_toIMat_det] at h
  exact Int.isUnit_iff.mp h

theorem mul_unimodInv {L : M3} (h : L.det = 1 ∨ L.det = -1) : L.mul (unimodInv L) = M3.one := by
  unfold unimodInv
  rw [M3.mul_smul, M3.mul_adj, M3.smul_smul]
  have : L.det * L.det = 1 := by rcases h with h | h <;> rw [h] <;> rfl
  rw [this, M3.one_smul]

/-- `L · Linv = 1` for the inverse the model uses. -/
theorem snf_l_mul_linv (M : M3) :
    (snf (toIMat M)).l.mul (toIMat (unimodInv (ofIMat (snf (toIMat M)).l))) = IMat.one 3 := by
  have hu := det_unit_of_unimod (snf_unimod_l (toIMat M))
  have := mul_unimodInv hu
  rw [← toIMat_ofIMat (snf (toIMat M)).l] at *
  rw [ofIMat_toIMat] at *
  rw [← toIMat_mul, this, toIMat_one]

/-! ### the box of the Smith normal form as a list -/

theorem mem_boxPoints {d0 d1 d2 : Nat} {v : Z3} :
    v ∈ boxPoints d0 d1 d2 ↔ (0 ≤ v.x ∧ v.x < d0) ∧ (0 ≤ v.y ∧ v.y < d1) ∧ (0 ≤ v.z ∧ v.z < d2) := by
  unfold boxPoints
  simp only [List.mem_flatMap, List.mem_map, List.mem_range]
  constructor
  · rintro ⟨f0, h0, f1, h1, f2, h2, rfl⟩
    simp only [Int.ofNat_eq_natCast]
    omega
  · rintro ⟨⟨hx0, hx1⟩, ⟨hy0, hy1⟩, ⟨hz0, hz1⟩⟩
    obtain ⟨x, y, z⟩ := v
    simp only at hx0 hx1 hy0 hy1 hz0 hz1
    refine ⟨x.toNat, by omega, y.toNat, by omega, z.toNat, by omega, ?_⟩
    simp only [Int.ofNat_eq_natCast, Z3.mk.injEq]
    omega

theorem length_boxPoints (d0 d1 d2 : Nat) : (boxPoints d0 d1 d2).length = d0 * d1 * d2 := by
  unfold boxPoints
  simp only [List.length_flatMap, List.length_map, List.length_range, List.map_const', List.sum_replicate,
    smul_eq_mul]
  ring

theorem nodup_boxPoints (d0 d1 d2 : Nat) : (boxPoints d0 d1 d2).Nodup := by
  unfold boxPoints
  rw [List.nodup_flatMap]
  refine ⟨fun f0 _ => ?_, ?_⟩
  · rw [List.nodup_flatMap]
    refine ⟨fun f1 _ => ?_, ?_⟩
    · refine List.Nodup.map ?_ List.nodup_range
      intro a b h
      simpa using h
    · refine List.Nodup.pairwise_of_forall_ne List.nodup_range ?_
      intro a _ b _ hab
      simp only [Function.onFun, List.disjoint_left, List.mem_map, List.mem_range]
      rintro v ⟨_, _, rfl⟩ ⟨_, _, h⟩
      simp only [Int.ofNat_eq_natCast, Z3.mk.injEq] at h
      omega
  · refine List.Nodup.pairwise_of_forall_ne List.nodup_range ?_
    intro a _ b _ hab
    simp only [Function.onFun, List.disjoint_left, List.mem_flatMap, List.mem_map, List.mem_range]
    rintro v ⟨_, _, _, _, rfl⟩ ⟨_, _, _, _, h⟩
    simp only [Int.ofNat_eq_natCast, Z3.mk.injEq] at h
    omega

attribute [local irreducible] Moyo.snf

/-- `vec` of a point of the box lies in the box of `C15.supercell_cosets`. -/
theorem vec_mem_box (M : M3) {v : Z3}
    (h : v ∈ boxPoints ((snf (toIMat M)).d.get 0 0).toNat ((snf (toIMat M)).d.get 1 1).toNat
      ((snf (toIMat M)).d.get 2 2).toNat) :
    vec v ∈ Fintype.piFinset fun i : Fin 3 => Finset.Ico (0 : ℤ) ((snf (toIMat M)).d.get i i) := by
  rw [mem_boxPoints] at h
  rw [Fintype.mem_piFinset]
  intro i
  rw [Finset.mem_Ico]
  fin_cases i <;> simp [vec] <;> omega

/-- Number of lattice points: `|det M|`. -/
theorem length_latticePoints (M : M3) (hdet : M.det ≠ 0) : (latticePoints M).length = M.det.natAbs := by
  have hd : (toM (toIMat M)).det ≠ 0 := by rw [toM_toIMat_det]; exact hdet
  have h := (C15.supercell_cosets (toIMat M) hd _ (snf_l_mul_linv M)).1
  rw [toM_toIMat_det, Fintype.card_piFinset, Fin.prod_univ_three] at h
  simp only [Int.card_Ico, sub_zero] at h
  unfold latticePoints
  simp only [List.length_map, length_boxPoints]
  exact h

/-- Two different lattice points of the list are inequivalent modulo `M ℤ³`. -/
theorem latticePoints_pairwise (M : M3) (hdet : M.det ≠ 0) :
    (latticePoints M).Pairwise fun a b => ¬ ∃ z : Z3, a.sub b = M.apply z := by
  have hd : (toM (toIMat M)).det ≠ 0 := by rw [toM_toIMat_det]; exact hdet
  have h := (C15.supercell_cosets (toIMat M) hd _ (snf_l_mul_linv M)).2.1
  unfold latticePoints
  simp only
  rw [List.pairwise_map]
  refine List.Nodup.pairwise_of_forall_ne (nodup_boxPoints _ _ _) ?_
  intro f hf g hg hfg
  rintro ⟨z, hz⟩
  apply hfg
  apply vec_injective
  apply h (vec f) (vec_mem_box M hf) (vec g) (vec_mem_box M hg)
  refine ⟨vec z, ?_⟩
  rw [mulVec_vec, mulVec_vec, mulVec_vec, vec_sub, hz]

/-! ### positions of the transformed cell -/

theorem toQ3_apply (M : M3) (v : Z3) : Z3.toQ3 (M.apply v) = M.applyQ (Z3.toQ3 v) := by
  simp only [Z3.toQ3, M3.apply, M3.applyQ, Q3.mk.injEq]
  refine ⟨?_, ?_, ?_⟩ <;> push_cast <;> ring

theorem toQ3_injective {u v : Z3} (h : Z3.toQ3 u = Z3.toQ3 v) : u = v := by
  cases u; cases v
  simp only [Z3.toQ3, Q3.mk.injEq] at h
  obtain ⟨h1, h2, h3⟩ := h
  simp only [Z3.mk.injEq]
  exact ⟨by exact_mod_cast h1, by exact_mod_cast h2, by exact_mod_cast h3⟩

theorem ratTruncFrac_int (q : Rat) : ∃ k : Int, ratTruncFrac q = q - k := by
  unfold ratTruncFrac
  split
  · exact ⟨q.floor, rfl⟩
  · exact ⟨q.ceil, rfl⟩

/-- `% 1.` removes an integer vector. -/
theorem map_truncFrac (v : Q3) : ∃ t : Z3, v.map ratTruncFrac = v.sub (Z3.toQ3 t) := by
  obtain ⟨a, ha⟩ := ratTruncFrac_int v.x
  obtain ⟨b, hb⟩ := ratTruncFrac_int v.y
  obtain ⟨c, hc⟩ := ratTruncFrac_int v.z
  exact ⟨⟨a, b, c⟩, by simp [Q3.map, Q3.sub, Z3.toQ3, ha, hb, hc]⟩

/-- The new fractional coordinates, mapped back by `M`, are the old site plus the lattice point plus
an element of `M ℤ³`. -/
theorem newPosition_spec (M : M3) (hdet : M.det ≠ 0) (x : Q3) (n : Z3) :
    ∃ t : Z3, M.applyQ (newPosition M x n) = (x.add (Z3.toQ3 n)).sub (Z3.toQ3 (M.apply t)) := by
  unfold newPosition
  obtain ⟨t, ht⟩ := map_truncFrac ((QM3.ofM3 M).inv.apply (x.add (Z3.toQ3 n)))
  refine ⟨t, ?_⟩
  have hq : (QM3.ofM3 M).det ≠ 0 := by rw [QM3.ofM3_det]; exact_mod_cast hdet
  rw [ht, M3.applyQ_sub, M3.applyQ_eq, QM3.apply_inv_apply _ hq, toQ3_apply]

/-- If two new positions differ by an integer vector, the old sites differ by the difference of the
lattice points up to an element of `M ℤ³`. -/
theorem newPosition_diff (M : M3) (hdet : M.det ≠ 0) (x y : Q3) (n m k : Z3)
    (h : (newPosition M x n).sub (newPosition M y m) = Z3.toQ3 k) :
    ∃ z : Z3, (x.sub y).add (Z3.toQ3 (n.sub m)) = Z3.toQ3 (M.apply z) := by
  obtain ⟨t1, h1⟩ := newPosition_spec M hdet x n
  obtain ⟨t2, h2⟩ := newPosition_spec M hdet y m
  have h3 : (M.applyQ (newPosition M x n)).sub (M.applyQ (newPosition M y m)) = Z3.toQ3 (M.apply k) := by
    rw [← M3.applyQ_sub, h, toQ3_apply]
  rw [h1, h2] at h3
  have e : M.apply ((k.add t1).sub t2) = ((M.apply k).add (M.apply t1)).sub (M.apply t2) := by
    simp only [M3.apply, Z3.add, Z3.sub, Z3.mk.injEq]
    refine ⟨?_, ?_, ?_⟩ <;> ring
  refine ⟨(k.add t1).sub t2, ?_⟩
  rw [e]
  generalize M.apply t1 = a1 at h3 ⊢
  generalize M.apply t2 = a2 at h3 ⊢
  generalize M.apply k = a0 at h3 ⊢
  obtain ⟨x1, x2, x3⟩ := x
  obtain ⟨y1, y2, y3⟩ := y
  obtain ⟨n1, n2, n3⟩ := n
  obtain ⟨m1, m2, m3⟩ := m
  obtain ⟨p1, p2, p3⟩ := a0
  obtain ⟨q1, q2, q3⟩ := a1
  obtain ⟨r1, r2, r3⟩ := a2
  simp only [Q3.sub, Q3.add, Z3.toQ3, Z3.sub, Z3.add, Q3.mk.injEq] at h3 ⊢
  obtain ⟨h31, h32, h33⟩ := h3
  refine ⟨?_, ?_, ?_⟩ <;> push_cast <;> linarith

/-! ### alignment of positions and `site_mapping` -/

theorem zip_aligned (M : M3) (pos : List Q3) (s : Nat) :
    (pos.flatMap fun x => (latticePoints M).map fun n => newPosition M x n).zip
      ((List.range' s pos.length).flatMap fun i => (latticePoints M).map fun _ => i) =
    (pos.zipIdx s).flatMap fun p => (latticePoints M).map fun n => (newPosition M p.1 n, p.2) := by
  induction pos generalizing s with
  | nil => simp
  | cons x xs ih =>
    simp only [List.flatMap_cons, List.length_cons, List.range'_succ, List.zipIdx_cons]
    rw [List.zip_append (by simp), ih (s + 1), List.zip_map']

/-- Position and `site_mapping` entry with the same index come from the same input site. -/
theorem aligned_getElem? (M : M3) (pos : List Q3) (k : Nat) (y : Q3) (i : Nat)
    (hy : (transformCellPos M pos)[k]? = some y) (hi : (transformCellMap M pos.length)[k]? = some i) :
    ∃ x, pos[i]? = some x ∧ ∃ n ∈ latticePoints M, y = newPosition M x n := by
  have hz : ((transformCellPos M pos).zip (transformCellMap M pos.length))[k]? = some (y, i) := by
    rw [List.getElem?_zip_eq_some]; exact ⟨hy, hi⟩
  have hm := List.mem_of_getElem? hz
  unfold transformCellPos transformCellMap at hm
  rw [List.range_eq_range', zip_aligned] at hm
  simp only [List.mem_flatMap, List.mem_map, Prod.mk.injEq] at hm
  obtain ⟨p, hp, n, hn, h1, h2⟩ := hm
  rw [List.mem_zipIdx_iff_getElem?] at hp
  subst h2
  exact ⟨p.1, by simpa using hp, n, hn, h1.symm⟩

theorem count_transformCellMap (M : M3) (n i : Nat) (hi : i < n) :
    (transformCellMap M n).count i = (latticePoints M).length := by
  unfold transformCellMap
  rw [List.count_flatMap]
  simp only [List.map_const', Function.comp_def, List.count_replicate, beq_iff_eq]
  induction n with
  | zero => omega
  | succ n ih =>
    rw [List.range_succ, List.map_append, List.sum_append]
    by_cases h : i < n
    · rw [ih h]; simp; omega
    · have hin : i = n := by omega
      subst hin
      have : (List.map (fun x => if x = i then (latticePoints M).length else 0) (List.range i)).sum = 0 := by
        apply List.sum_eq_zero
        intro v hv
        simp only [List.mem_map, List.mem_range] at hv
        obtain ⟨a, ha, rfl⟩ := hv
        simp; omega
      rw [this]; simp

/-! ### covering, and the converse of the alignment -/

/-- Every integer vector is equivalent modulo `M ℤ³` to one of the enumerated lattice points. -/
theorem latticePoints_cover (M : M3) (hdet : M.det ≠ 0) (v : Z3) :
    ∃ n ∈ latticePoints M, ∃ u : Z3, v.sub n = M.apply u := by
  have hd : (toM (toIMat M)).det ≠ 0 := by rw [toM_toIMat_det]; exact hdet
  obtain ⟨f, hf, z, hz⟩ := (C15.supercell_cosets (toIMat M) hd _ (snf_l_mul_linv M)).2.2 (vec v)
  obtain ⟨f', rfl⟩ := exists_vec f
  obtain ⟨z', rfl⟩ := exists_vec z
  rw [Fintype.mem_piFinset] at hf
  have h0 := Finset.mem_Ico.mp (hf 0)
  have h1 := Finset.mem_Ico.mp (hf 1)
  have h2 := Finset.mem_Ico.mp (hf 2)
  simp only [vec, Matrix.cons_val_zero, Matrix.cons_val_one, Matrix.cons_val_two, Matrix.head_cons,
    Matrix.tail_cons] at h0 h1 h2
  refine ⟨(unimodInv (ofIMat (snf (toIMat M)).l)).apply f', ?_, z', ?_⟩
  · unfold latticePoints
    simp only
    refine List.mem_map.mpr ⟨f', ?_, rfl⟩
    rw [mem_boxPoints]
    omega
  · apply vec_injective
    rw [← vec_sub, ← mulVec_vec, ← mulVec_vec]
    exact hz

/-- Converse of `aligned_getElem?`: every (input site, lattice point) pair is a site of the new cell. -/
theorem exists_site (M : M3) (pos : List Q3) (i : Nat) (x : Q3) (hx : pos[i]? = some x) (n : Z3)
    (hn : n ∈ latticePoints M) :
    ∃ k : Nat, (transformCellPos M pos)[k]? = some (newPosition M x n) ∧ (transformCellMap M pos.length)[k]? = some i := by
  have hm : (newPosition M x n, i) ∈ (transformCellPos M pos).zip (transformCellMap M pos.length) := by
    unfold transformCellPos transformCellMap
    rw [List.range_eq_range', zip_aligned]
    simp only [List.mem_flatMap, List.mem_map, Prod.mk.injEq]
    exact ⟨(x, i), List.mem_zipIdx_iff_getElem?.mpr (by simpa using hx), n, hn, rfl, rfl⟩
  obtain ⟨k, hk⟩ := List.mem_iff_getElem?.mp hm
  rw [List.getElem?_zip_eq_some] at hk
  exact ⟨k, hk.1, hk.2⟩

end Moyo.StageStd
