import Moyo.Model.StageGlue
import Moyo.Proofs.StdAlgebra
/-
Helper lemmas for the stage-S9 theorems (`Props/C05Glue.lean`): unfolding of `Glue.glue`, the invariant of the
"first std site wins" loop `fillWy`, the sequential lookup `lookupWy`, and the algebra of `(L⁻¹, 0) * (P, p)`.
-/
namespace Moyo.Glue
open Moyo Moyo.Generated

/-- What a successful run of the glue model consists of. -/
theorem glue_ok {inp : Input} {d : Output} (h : glue inp = .ok d) :
    ∃ tbl wys Linv bravais,
      stdPrimWyckoffs inp.primNatoms inp.wyckoffs inp.stdSiteMapping = .ok tbl ∧
      lookupWy tbl inp.primSiteMapping = .ok wys ∧
      linearInv inp.primLinear = some Linv ∧
      bravaisOfHall inp.hallNumber = .ok bravais ∧
      d = { number := inp.number
            hallNumber := inp.hallNumber
            operations := Stage.operationsInCell inp.primLinear inp.translations inp.ops
            orbits := Orbits.orbitsInCell inp.primNatoms inp.perms inp.primSiteMapping
            wyckoffs := wys.map (·.letter)
            siteSymmetrySymbols := wys.map (·.siteSymmetry)
            stdCell := inp.stdCell
            stdLinear := (composeInv Linv inp.tlinear inp.tshift).1
            stdOriginShift := (composeInv Linv inp.tlinear inp.tshift).2
            stdRotationMatrix := inp.rot
            pearsonSymbol := pearson bravais inp.stdCell.n
            primStdCell := inp.primStdCell
            primStdLinear := (composeInv Linv inp.ptlinear inp.ptshift).1
            primStdOriginShift := (composeInv Linv inp.ptlinear inp.ptshift).2
            mappingStdPrim := inp.primSiteMapping
            symprec := inp.symprec
            angtol := inp.angtol } := by
  unfold glue at h
  simp only at h
  split at h
  · cases h
  · rename_i tbl htbl
    split at h
    · rename_i f _
      cases f <;> simp [Fail.toOutcome] at h
    · rename_i wys hwys
      split at h
      · cases h
      · rename_i Linv hL
        split at h
        · cases h
        · rename_i bravais hb
          refine ⟨tbl, wys, Linv, bravais, htbl, hwys, hL, hb, ?_⟩
          simp only [Outcome.ok.injEq] at h
          exact h.symm

/-! ### `linearInv` and `composeInv` -/

theorem linearInv_some {L : M3} {Linv : QM3} (h : linearInv L = some Linv) :
    L.det ≠ 0 ∧ Linv = (QM3.ofM3 L).inv := by
  unfold linearInv at h
  split at h
  · cases h
  · rename_i hd
    simp only [Option.some.injEq] at h
    exact ⟨hd, h.symm⟩

theorem ofM3_det_ne {L : M3} (h : L.det ≠ 0) : (QM3.ofM3 L).det ≠ 0 := by
  rw [QM3.ofM3_det]; exact_mod_cast h

/-- `L · (L⁻¹ P) = P`. -/
theorem compose_linear {L : M3} (hL : L.det ≠ 0) (P : M3) (p : Q3) :
    (QM3.ofM3 L).mul (composeInv (QM3.ofM3 L).inv P p).1 = QM3.ofM3 P := by
  unfold composeInv
  simp only
  rw [← QM3.mul_assoc, QM3.mul_inv_cancel _ (ofM3_det_ne hL), QM3.one_mul]

/-- `L · (L⁻¹ p) = p`. -/
theorem compose_shift {L : M3} (hL : L.det ≠ 0) (P : M3) (p : Q3) :
    L.applyQ (composeInv (QM3.ofM3 L).inv P p).2 = p := by
  unfold composeInv
  simp only
  rw [M3.applyQ_eq]
  exact QM3.apply_inv_apply _ (ofM3_det_ne hL) _

theorem compose_det {L : M3} (hL : L.det ≠ 0) {P : M3} (hP : P.det ≠ 0) (p : Q3) :
    (composeInv (QM3.ofM3 L).inv P p).1.det ≠ 0 := by
  unfold composeInv
  simp only
  rw [QM3.det_mul]
  refine mul_ne_zero ?_ (ofM3_det_ne hP)
  intro h0
  have h1 := congrArg QM3.det (QM3.mul_inv_cancel _ (ofM3_det_ne hL))
  rw [QM3.det_mul, h0] at h1
  simp [QM3.det, QM3.one] at h1

/-- `(L⁻¹P)⁻¹ (x − L⁻¹p) = P⁻¹ (L x − p)`: mapping an input position with the reported pair is mapping it into the
primitive cell first (`x_prim = L x`) and then with the stage-S6 transformation. -/
theorem compose_position {L : M3} (hL : L.det ≠ 0) {P : M3} (hP : P.det ≠ 0) (p x : Q3) :
    (composeInv (QM3.ofM3 L).inv P p).1.inv.apply (x.sub (composeInv (QM3.ofM3 L).inv P p).2) =
      (QM3.ofM3 P).inv.apply ((L.applyQ x).sub p) := by
  have hd := compose_det hL hP p
  have hLq := ofM3_det_ne hL
  have hPq := ofM3_det_ne hP
  -- it suffices to apply `L⁻¹P` to the right-hand side
  have key : (composeInv (QM3.ofM3 L).inv P p).1.apply ((QM3.ofM3 P).inv.apply ((L.applyQ x).sub p)) =
      x.sub (composeInv (QM3.ofM3 L).inv P p).2 := by
    unfold composeInv
    simp only
    rw [QM3.apply_mul, QM3.apply_inv_apply _ hPq, QM3.apply_sub, M3.applyQ_eq, QM3.inv_apply_apply _ hLq]
  rw [← key, QM3.inv_apply_apply _ hd]

/-! ### the Wyckoff loop -/

theorem fillWy_length : ∀ (ws : List Wy) (js : List Nat) (acc r : List (Option Wy)),
    fillWy ws js acc = .ok r → r.length = acc.length
  | [], _, acc, r, h => by
    simp only [fillWy, Except.ok.injEq] at h; rw [h]
  | _ :: _, [], _, _, h => by simp [fillWy] at h
  | w :: ws, j :: js, acc, r, h => by
    simp only [fillWy] at h
    split at h
    · have := fillWy_length ws js _ r h
      rw [this]; split <;> simp
    · cases h

/-- Invariant of the loop: an entry `some w` of the result was either there before, or was empty before and is the
Wyckoff position of the FIRST remaining std site `k` with `site_mapping[k] = j`. -/
theorem fillWy_spec : ∀ (ws : List Wy) (js : List Nat) (acc r : List (Option Wy)),
    fillWy ws js acc = .ok r → ∀ (j : Nat) (w : Wy), r[j]? = some (some w) →
      acc[j]? = some (some w) ∨
      (acc[j]? = some none ∧ ∃ k : Nat, ws[k]? = some w ∧ js[k]? = some j ∧ ∀ k' < k, js[k']? ≠ some j)
  | [], _, acc, r, h, j, w, hr => by
    simp only [fillWy, Except.ok.injEq] at h; subst h; exact Or.inl hr
  | _ :: _, [], _, _, h, _, _, _ => by simp [fillWy] at h
  | w0 :: ws, j0 :: js, acc, r, h, j, w, hr => by
    simp only [fillWy] at h
    split at h
    · rename_i hj0
      have ih := fillWy_spec ws js _ r h j w hr
      by_cases hnone : (acc.getD j0 none).isNone = true
      · -- the slot `j0` was empty: it is filled with `w0`
        rw [if_pos hnone] at ih
        have hacc0 : acc[j0]? = some none := by
          rw [List.getD_eq_getElem?_getD] at hnone
          rw [List.getElem?_eq_getElem hj0] at hnone ⊢
          simp only [Option.getD_some, Option.isNone_iff_eq_none] at hnone
          rw [hnone]
        by_cases hjj : j = j0
        · subst hjj
          rcases ih with ih | ⟨ih, _⟩
          · rw [List.getElem?_set_self hj0] at ih
            simp only [Option.some.injEq] at ih
            subst ih
            exact Or.inr ⟨hacc0, 0, rfl, rfl, fun k' hk' => absurd hk' (Nat.not_lt_zero _)⟩
          · rw [List.getElem?_set_self hj0] at ih
            simp at ih
        · have hne : j0 ≠ j := fun e => hjj e.symm
          rw [List.getElem?_set_ne hne] at ih
          rcases ih with ih | ⟨ih, k, hk1, hk2, hk3⟩
          · exact Or.inl ih
          · refine Or.inr ⟨ih, k + 1, by simpa using hk1, by simpa using hk2, ?_⟩
            intro k' hk'
            cases k' with
            | zero => simpa using hne
            | succ k'' => simpa using hk3 k'' (Nat.lt_of_succ_lt_succ hk')
      · -- the slot `j0` was taken: nothing changes
        rw [if_neg hnone] at ih
        rcases ih with ih | ⟨ih, k, hk1, hk2, hk3⟩
        · exact Or.inl ih
        · have hne : j0 ≠ j := by
            intro e
            subst e
            apply hnone
            rw [List.getD_eq_getElem?_getD, ih]
            rfl
          refine Or.inr ⟨ih, k + 1, by simpa using hk1, by simpa using hk2, ?_⟩
          intro k' hk'
          cases k' with
          | zero => simpa using hne
          | succ k'' => simpa using hk3 k'' (Nat.lt_of_succ_lt_succ hk')
    · cases h

/-- `std_prim_wyckoffs[j] = Some(w)` means: `w` is the Wyckoff position of the first site `k` of the standardized
cell with `site_mapping[k] = j`. -/
theorem stdPrimWyckoffs_spec {n : Nat} {ws : List Wy} {sm : List Nat} {tbl : List (Option Wy)}
    (h : stdPrimWyckoffs n ws sm = .ok tbl) {j : Nat} {w : Wy} (hj : tbl[j]? = some (some w)) :
    ∃ k : Nat, ws[k]? = some w ∧ sm[k]? = some j ∧ ∀ k' < k, sm[k']? ≠ some j := by
  unfold stdPrimWyckoffs at h
  rcases fillWy_spec ws sm _ tbl h j w hj with h1 | ⟨_, h2⟩
  · rw [List.getElem?_replicate] at h1
    split at h1 <;> simp at h1
  · exact h2

theorem lookupWy_spec : ∀ (tbl : List (Option Wy)) (m : List Nat) (wys : List Wy),
    lookupWy tbl m = .ok wys → wys.length = m.length ∧
      ∀ (i j : Nat), m[i]? = some j → ∃ w, wys[i]? = some w ∧ tbl[j]? = some (some w)
  | _, [], wys, h => by
    simp only [lookupWy, Except.ok.injEq] at h; subst h; simp
  | tbl, i0 :: rest, wys, h => by
    simp only [lookupWy] at h
    split at h
    · cases h
    · cases h
    · rename_i w hw
      split at h
      · rename_i l hl
        simp only [Except.ok.injEq] at h
        subst h
        obtain ⟨ihl, ih⟩ := lookupWy_spec tbl rest l hl
        refine ⟨by simp [ihl], ?_⟩
        intro i j hij
        cases i with
        | zero =>
          simp only [List.getElem?_cons_zero, Option.some.injEq] at hij
          subst hij
          exact ⟨w, by simp, hw⟩
        | succ i' =>
          simp only [List.getElem?_cons_succ] at hij ⊢
          exact ih i' j hij
      · cases h

end Moyo.Glue
