import Moyo.Proofs.MagFamily
import Moyo.Proofs.Identify
import Moyo.Proofs.IdentifyAffine
/-
Helper lemmas for `Props/C12Stages.lean` (stage S5m, `MagneticSpaceGroup::new`): what the normalizer search and the
anti-translation conjugator search return, and the reading of a successful `identifyMag`.
-/
namespace Moyo.S5m
open Moyo Moyo.Generated Moyo.StageStd

/-! ### conjugator searches -/

/-- Every element of the model of `integral_normalizer` is a unimodular matrix with an origin shift accepted by
`match_origin_shift` for the group's own generators. -/
theorem normalizerAll_mem {ops : List OpQ} {gens : Array S5.Gen} {eps : Rat} {norm : List UTrans}
    (h : normalizerAll ops gens eps = some norm) :
    ∀ c ∈ norm, c.linear.det = 1 ∧ S5.matchOriginShift ops c.linear gens eps = some c.shift := by
  unfold normalizerAll at h
  split at h
  · simp at h
  · simp only [Option.some.injEq] at h
    subst h
    intro c hc
    rw [List.mem_filterMap] at hc
    obtain ⟨basis, _, hb⟩ := hc
    obtain ⟨P, hP, hg⟩ := S5.unimodularFirst_some _ _ _ hb
    simp only [Option.map_eq_some_iff] at hg
    obtain ⟨p, hp, rfl⟩ := hg
    exact ⟨hP, hp⟩

/-- A conjugator returned by the model of `find_conjugator_type4` is unimodular, carries the tabulated anti-translation
onto the given one (`P c_dst ≡ c_src` modulo 1 within `eps`) and has an origin shift accepted by `match_origin_shift`. -/
theorem findConjugatorType4_some {gens : Array S5.Gen} {ops : List OpQ} {src dst : Q3} {eps : Rat} {c : UTrans}
    (h : findConjugatorType4 gens ops src dst eps = some c) :
    c.linear.det = 1 ∧ CloseMod1 ((c.linear.applyQ dst).sub src) eps ∧
      S5.matchOriginShift ops c.linear gens eps = some c.shift := by
  unfold findConjugatorType4 at h
  split at h
  · simp at h
  · obtain ⟨basis, hb⟩ := S5.transMatBasisFirst_some _ _ _ _ _ h
    obtain ⟨P, hP, hg⟩ := S5.unimodularFirst_some _ _ _ hb
    split at hg
    · rename_i hclose
      simp only [Option.map_eq_some_iff] at hg
      obtain ⟨p, hp, rfl⟩ := hg
      exact ⟨hP, (closeMod1_iff _ _).1 hclose, hp⟩
    · simp at hg

theorem mul_linear_det (a b : UTrans) (ha : a.linear.det = 1) (hb : b.linear.det = 1) : (a.mul b).linear.det = 1 := by
  simp only [UTrans.mul, S5.M3.det_mul, ha, hb, mul_one]

/-! ### reading of one iteration over the UNI numbers -/

/-- What a type-III answer carries. -/
def Type3Witness (ops : List MOpQ) (eps : Rat) (stdT : UTrans) (u : Nat) (T : UTrans) : Prop :=
  ∃ dbM h dbOps gens norm corr, dbMagOps? u = some dbM ∧ refHall? u = some h ∧ dbRef? h = some (dbOps, gens) ∧
    normalizerAll dbOps gens eps = some norm ∧ corr ∈ norm ∧ T = stdT.mul corr ∧
    matchMagOps (ops.map (transformMOp T)) dbM eps = true

/-- What a type-IV answer carries. -/
def Type4Witness (ops : List MOpQ) (eps : Rat) (stdT : UTrans) (u : Nat) (T : UTrans) : Prop :=
  ∃ dbM h dbOps gens a d corr, dbMagOps? u = some dbM ∧ refHall? u = some h ∧ dbRef? h = some (dbOps, gens) ∧
    a ∈ ops ∧ a.rot = M3.one ∧ a.tr = true ∧ d ∈ dbM ∧ d.rot = M3.one ∧ d.tr = true ∧
    findConjugatorType4 gens dbOps (transformMOp stdT a).trans d.trans eps = some corr ∧ T = stdT.mul corr ∧
    matchMagOps (ops.map (transformMOp T)) dbM eps = true

theorem tryType3_some {ops : List MOpQ} {eps : Rat} {stdT : UTrans} {dbM : List MOpQ} {norm : List UTrans} {T : UTrans}
    (h : tryType3 ops eps stdT dbM norm = some T) :
    ∃ corr ∈ norm, T = stdT.mul corr ∧ matchMagOps (ops.map (transformMOp T)) dbM eps = true := by
  unfold tryType3 at h
  obtain ⟨corr, hc, hm⟩ := List.exists_of_findSome?_eq_some h
  simp only at hm
  split at hm
  · rename_i hmatch
    simp only [Option.some.injEq] at hm
    subst hm
    exact ⟨corr, hc, rfl, hmatch⟩
  · simp at hm

theorem find?_spec {α : Type} {p : α → Bool} {l : List α} {a : α} (h : l.find? p = some a) : a ∈ l ∧ p a = true :=
  ⟨List.mem_of_find?_eq_some h, List.find?_some h⟩

theorem tryType4_ok {ops : List MOpQ} {eps : Rat} {stdT : UTrans} {dbM : List MOpQ} {dbOps : List OpQ}
    {gens : Array S5.Gen} {T : UTrans} (h : tryType4 ops eps stdT dbM dbOps gens = some (.ok T)) :
    ∃ a d corr, a ∈ ops ∧ a.rot = M3.one ∧ a.tr = true ∧ d ∈ dbM ∧ d.rot = M3.one ∧ d.tr = true ∧
      findConjugatorType4 gens dbOps (transformMOp stdT a).trans d.trans eps = some corr ∧ T = stdT.mul corr ∧
      matchMagOps (ops.map (transformMOp T)) dbM eps = true := by
  unfold tryType4 at h
  split at h
  · simp at h
  · simp at h
  · rename_i a d ha hd
    obtain ⟨ha1, ha2⟩ := find?_spec ha
    obtain ⟨hd1, hd2⟩ := find?_spec hd
    simp only [Bool.and_eq_true, beq_iff_eq] at ha2 hd2
    simp only at h
    split at h
    · simp at h
    · rename_i corr hcorr
      split at h
      · rename_i hmatch
        simp only [Option.some.injEq, Except.ok.injEq] at h
        subst h
        exact ⟨a, d, corr, ha1, ha2.1, ha2.2, hd1, hd2.1, hd2.2, hcorr, rfl, hmatch⟩
      · simp at h

/-- Reading of a successful iteration. -/
theorem tryUni_ok {ops : List MOpQ} {eps : Rat} {ctype : Nat} {stdT : UTrans} {h0 : Option Nat}
    {norm0 : Thunk (Option (List UTrans))} {u : Nat} {g : MagSpaceGroup}
    (hn : ∀ h dbOps gens, h0 = some h → dbRef? h = some (dbOps, gens) → norm0.get = normalizerAll dbOps gens eps)
    (hc4 : ctype = 1 ∨ ctype = 2 ∨ ctype = 3 ∨ ctype = 4)
    (h : tryUni ops eps ctype stdT h0 norm0 u = some (.ok g)) :
    g.uni = u ∧ g.ctype = ctype ∧ (∃ t, magType? u = some t ∧ t.constructType = ctype) ∧
    ((ctype = 1 ∨ ctype = 2) → g.T = stdT) ∧
    (ctype = 3 → Type3Witness ops eps stdT u g.T) ∧
    (ctype = 4 → Type4Witness ops eps stdT u g.T) := by
  unfold tryUni at h
  split at h
  · simp at h
  · rename_i t ht
    split at h
    · simp at h
    · rename_i hct
      have hct' : t.constructType = ctype := by simpa using hct
      split at h
      · rename_i h12
        simp only [Option.some.injEq, Except.ok.injEq] at h
        subst h
        refine ⟨rfl, rfl, ⟨t, ht, hct'⟩, fun _ => rfl, ?_, ?_⟩
        · intro h3; rcases h12 with h | h <;> omega
        · intro h4; rcases h12 with h | h <;> omega
      · rename_i h12
        split at h
        · simp at h
        · rename_i dbM hdbM
          split at h
          · simp at h
          · rename_i hh hhall
            split at h
            · simp at h
            · rename_i dbOps gens hdb
              split at h
              · rename_i h3
                split at h
                · simp at h
                · rename_i norm hnorm
                  simp only [Option.map_eq_some_iff] at h
                  obtain ⟨T, hT, hg⟩ := h
                  simp only [Except.ok.injEq] at hg
                  subst hg
                  obtain ⟨corr, hcm, hTe, hmatch⟩ := tryType3_some hT
                  have hnorm' : normalizerAll dbOps gens eps = some norm := by
                    split at hnorm
                    · rename_i heq
                      have : h0 = some hh := by
                        have h' : some hh = h0 := by simpa using heq
                        exact h'.symm
                      rw [hn hh dbOps gens this hdb] at hnorm
                      exact hnorm
                    · exact hnorm
                  refine ⟨rfl, rfl, ⟨t, ht, hct'⟩, fun h => absurd h h12, ?_, fun h4 => by omega⟩
                  intro _
                  exact ⟨dbM, hh, dbOps, gens, norm, corr, hdbM, hhall, hdb, hnorm', hcm, hTe, hmatch⟩
              · rename_i h3
                have h4 : ctype = 4 := by
                  rcases hc4 with h | h | h | h
                  · exact absurd (Or.inl h) h12
                  · exact absurd (Or.inr h) h12
                  · exact absurd h h3
                  · exact h
                simp only [Option.map_eq_some_iff] at h
                obtain ⟨r, hr, hg⟩ := h
                cases r with
                | error e => simp [Except.map] at hg
                | ok T =>
                  simp only [Except.map, Except.ok.injEq] at hg
                  subst hg
                  obtain ⟨a, d, corr, w⟩ := tryType4_ok hr
                  refine ⟨rfl, rfl, ⟨t, ht, hct'⟩, fun h => absurd h h12, fun h => absurd h h3, ?_⟩
                  intro _
                  exact ⟨dbM, hh, dbOps, gens, a, d, corr, hdbM, hhall, hdb, w⟩

/-! ### reading of a successful identification -/

theorem identifyMag_ok {ops : List MOpQ} {eps : Rat} {g : MagSpaceGroup} (h : identifyMag ops eps = .ok g) :
    ∃ ref sg range, identifyReference ops eps = some (ref, g.ctype) ∧ S5.identify ref .standard eps = .ok sg ∧
      uniRange? sg.number = some range ∧ g.uni ∈ range ∧
      (∃ t, magType? g.uni = some t ∧ t.constructType = g.ctype) ∧
      ((g.ctype = 1 ∨ g.ctype = 2) → g.T = sgTrans sg) ∧
      (g.ctype = 3 → Type3Witness ops eps (sgTrans sg) g.uni g.T) ∧
      (g.ctype = 4 → Type4Witness ops eps (sgTrans sg) g.uni g.T) := by
  unfold identifyMag at h
  split at h
  · simp at h
  · rename_i ref ctype href
    have hc4 : ctype = 1 ∨ ctype = 2 ∨ ctype = 3 ∨ ctype = 4 := by
      obtain ⟨_, _, hb⟩ := identifyReference_spec href
      rcases hb with hb | hb | hb | hb
      · exact Or.inl hb.1
      · exact Or.inr (Or.inl hb.1)
      · exact Or.inr (Or.inr (Or.inl hb.1))
      · exact Or.inr (Or.inr (Or.inr hb.1))
    unfold identifyMagFrom at h
    split at h
    · simp at h
    · rename_i sg hsg
      split at h
      · simp at h
      · rename_i range hrange
        simp only at h
        split at h
        · rename_i r hr
          subst h
          obtain ⟨u, hu, htry⟩ := List.exists_of_findSome?_eq_some hr
          have hn : ∀ h dbOps gens, range.head?.bind refHall? = some h → dbRef? h = some (dbOps, gens) →
              (sharedNormalizer (range.head?.bind refHall?) eps).get = normalizerAll dbOps gens eps := by
            intro h dbOps gens hh hdb
            simp only [sharedNormalizer, Thunk.get, hh, Option.bind_some, hdb]
          obtain ⟨e1, e2, e3, e4, e5, e6⟩ := tryUni_ok hn hc4 htry
          subst e1
          refine ⟨ref, sg, range, ?_, hsg, hrange, hu, ?_, ?_, ?_, ?_⟩
          · rw [e2]; exact href
          · rw [e2]; exact e3
          · rw [e2]; exact e4
          · rw [e2]; exact e5
          · rw [e2]; exact e6
        · simp at h

/-! ### table checkers and the loop over a UNI range (used by `Props/C12Stages.lean`) -/

/-- Row checker of `uni_range_table`: every ITA number `1..230` has a UNI range, every UNI number
of the range has a type entry, and the range contains an entry of construct type I and one of type II. -/
def rangeOK (n : Nat) : Bool :=
  match uniRange? n with
  | none => false
  | some range =>
    range.all (fun u => (magType? u).isSome) &&
    range.any (fun u => (magType? u).any fun t => t.constructType == 1) &&
    range.any (fun u => (magType? u).any fun t => t.constructType == 2)


/-- First success of the loop over a UNI range for construct types I / II. -/
theorem findSome_type12 (ops : List MOpQ) (eps : Rat) (c : Nat) (hc : c = 1 ∨ c = 2) (stdT : UTrans) (h0 : Option Nat)
    (norm0 : Thunk (Option (List UTrans))) : ∀ (l : List Nat),
    (∀ u ∈ l, (magType? u).isSome = true) → (l.any fun u => (magType? u).any fun t => t.constructType == c) = true →
    ∃ u ∈ l, l.findSome? (tryUni ops eps c stdT h0 norm0) = some (.ok ⟨u, c, stdT⟩)
  | [], _, hany => by simp at hany
  | u :: l, hall, hany => by
    obtain ⟨t, ht⟩ := Option.isSome_iff_exists.mp (hall u List.mem_cons_self)
    by_cases hct : t.constructType = c
    · refine ⟨u, List.mem_cons_self, ?_⟩
      have : tryUni ops eps c stdT h0 norm0 u = some (.ok ⟨u, c, stdT⟩) := by
        unfold tryUni
        simp only [ht, hct, ne_eq, not_true_eq_false, if_false]
        rw [if_pos hc]
      rw [List.findSome?_cons, this]
    · have hnone : tryUni ops eps c stdT h0 norm0 u = none := by
        unfold tryUni
        simp only [ht, ne_eq, hct, not_false_eq_true, if_true]
      have hany' : (l.any fun u => (magType? u).any fun t => t.constructType == c) = true := by
        simp only [List.any_cons, Bool.or_eq_true] at hany
        rcases hany with h | h
        · simp [ht, hct] at h
        · exact h
      obtain ⟨u', hu', hf⟩ := findSome_type12 ops eps c hc stdT h0 norm0 l
        (fun v hv => hall v (List.mem_cons_of_mem _ hv)) hany'
      exact ⟨u', List.mem_cons_of_mem _ hu', by rw [List.findSome?_cons, hnone]; exact hf⟩

/-- Tabulated primitive magnetic operations of UNI number `u` (empty when `u` is not in the table). -/
def tableMagOps (u : Nat) : List MOpQ := (dbMagOps? u).getD []

def tableEps : Rat := 1 / 100000000

/-- The row checker the compiled model evaluates on every table row of every run (`row 1`). -/
def tableRowOK (u : Nat) : Bool :=
  match identifyMag (tableMagOps u) tableEps with
  | .ok g => g.uni == u && soundAnswer (tableMagOps u) tableEps g
  | .error _ => false

end Moyo.S5m
