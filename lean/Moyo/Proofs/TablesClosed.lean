import Moyo.Model.TableSpec
import Moyo.Proofs.OracleGroup
import Mathlib.Tactic.Ring
/-
C16 (a) / C17: soundness of the closure certificate `TableSpec.closedCert`.

`closedCert c gens ops tbl par = true` implies that the list `ops` of coset representatives
contains the identity and is closed under composition modulo the centring lattice of `c`
(`ClosedMod`).  Translations are integer vectors in units of 1/12; the centring lattice is
`{l + 12·k : l ∈ c.latticePoints, k ∈ ℤ³}` (`LatVec`).
-/
namespace Moyo.Tables
open Moyo Moyo.TableSpec

/-! ### vectors -/

@[ext] theorem Z3.ext' {u v : Z3} (hx : u.x = v.x) (hy : u.y = v.y) (hz : u.z = v.z) : u = v := by
  cases u; cases v; simp_all

/-- `d` lies in the centring lattice (units 1/12). -/
def LatVec (c : Centering) (d : Z3) : Prop :=
  ∃ l ∈ c.latticePoints, ∃ k : Z3, d = l.add (Z3.smul 12 k)

theorem mod_eq_zero_iff (u : Z3) (n : Int) : u.mod n = Z3.zero ↔ ∃ k : Z3, u = Z3.smul n k := by
  constructor
  · intro h
    simp only [Z3.mod, Z3.zero, Z3.mk.injEq] at h
    obtain ⟨hx, hy, hz⟩ := h
    refine ⟨⟨u.x / n, u.y / n, u.z / n⟩, ?_⟩
    ext
    · simp only [Z3.smul]; exact (Int.mul_ediv_cancel' (Int.dvd_of_emod_eq_zero hx)).symm
    · simp only [Z3.smul]; exact (Int.mul_ediv_cancel' (Int.dvd_of_emod_eq_zero hy)).symm
    · simp only [Z3.smul]; exact (Int.mul_ediv_cancel' (Int.dvd_of_emod_eq_zero hz)).symm
  · rintro ⟨k, rfl⟩
    simp [Z3.mod, Z3.smul, Z3.zero]

theorem latMem_iff (c : Centering) (d : Z3) : latMem c d = true ↔ LatVec c d := by
  unfold latMem LatVec
  rw [List.any_eq_true]
  constructor
  · rintro ⟨l, hl, h⟩
    have h' : (d.sub l).mod 12 = Z3.zero := by simpa using h
    obtain ⟨k, hk⟩ := (mod_eq_zero_iff _ _).1 h'
    refine ⟨l, hl, k, ?_⟩
    have hx := congrArg Z3.x hk; have hy := congrArg Z3.y hk; have hz := congrArg Z3.z hk
    simp only [Z3.sub, Z3.smul] at hx hy hz
    ext <;> simp only [Z3.add, Z3.smul] <;> omega
  · rintro ⟨l, hl, k, rfl⟩
    refine ⟨l, hl, ?_⟩
    have : ((l.add (Z3.smul 12 k)).sub l).mod 12 = Z3.zero :=
      (mod_eq_zero_iff _ _).2 ⟨k, by ext <;> simp only [Z3.add, Z3.sub, Z3.smul] <;> omega⟩
    simpa using this

/-- The lattice points of every centring are closed under addition and negation modulo 12. -/
def latGroupOK (c : Centering) : Bool :=
  latMem c Z3.zero &&
  c.latticePoints.all fun l1 => latMem c l1.neg && c.latticePoints.all fun l2 => latMem c (l1.add l2)

theorem latGroupOK_all : ∀ c : Centering, latGroupOK c = true := by
  intro c; cases c <;> decide

theorem latVec_zero (c : Centering) : LatVec c Z3.zero := by
  have h := latGroupOK_all c
  simp only [latGroupOK, Bool.and_eq_true] at h
  exact (latMem_iff _ _).1 h.1

theorem latVec_add {c : Centering} {d1 d2 : Z3} (h1 : LatVec c d1) (h2 : LatVec c d2) :
    LatVec c (d1.add d2) := by
  obtain ⟨l1, hl1, k1, rfl⟩ := h1
  obtain ⟨l2, hl2, k2, rfl⟩ := h2
  have h := latGroupOK_all c
  simp only [latGroupOK, Bool.and_eq_true, List.all_eq_true] at h
  obtain ⟨l3, hl3, k3, hk3⟩ := (latMem_iff _ _).1 ((h.2 l1 hl1).2 l2 hl2)
  refine ⟨l3, hl3, ⟨k1.x + k2.x + k3.x, k1.y + k2.y + k3.y, k1.z + k2.z + k3.z⟩, ?_⟩
  have hx := congrArg Z3.x hk3; have hy := congrArg Z3.y hk3; have hz := congrArg Z3.z hk3
  simp only [Z3.add, Z3.smul] at hx hy hz
  ext <;> simp only [Z3.add, Z3.smul] <;> omega

theorem latVec_neg {c : Centering} {d : Z3} (h1 : LatVec c d) : LatVec c d.neg := by
  obtain ⟨l1, hl1, k1, rfl⟩ := h1
  have h := latGroupOK_all c
  simp only [latGroupOK, Bool.and_eq_true, List.all_eq_true] at h
  obtain ⟨l3, hl3, k3, hk3⟩ := (latMem_iff _ _).1 (h.2 l1 hl1).1
  refine ⟨l3, hl3, ⟨k3.x - k1.x, k3.y - k1.y, k3.z - k1.z⟩, ?_⟩
  have hx := congrArg Z3.x hk3; have hy := congrArg Z3.y hk3; have hz := congrArg Z3.z hk3
  simp only [Z3.add, Z3.smul, Z3.neg] at hx hy hz
  ext <;> simp only [Z3.add, Z3.smul, Z3.neg] <;> omega

theorem apply_add (R : M3) (u v : Z3) : R.apply (u.add v) = (R.apply u).add (R.apply v) := by
  ext <;> simp only [M3.apply, Z3.add] <;> ring

theorem apply_smul (R : M3) (n : Int) (u : Z3) : R.apply (Z3.smul n u) = Z3.smul n (R.apply u) := by
  ext <;> simp only [M3.apply, Z3.smul] <;> ring

theorem apply_mul (R S : M3) (u : Z3) : (R.mul S).apply u = R.apply (S.apply u) := by
  ext <;> simp only [M3.apply, M3.mul] <;> ring

/-- A rotation that maps the lattice points into the lattice maps the whole lattice into itself. -/
theorem latVec_apply {c : Centering} {R : M3}
    (hR : ∀ l ∈ c.latticePoints, latMem c (R.apply l) = true) {d : Z3} (h : LatVec c d) :
    LatVec c (R.apply d) := by
  obtain ⟨l, hl, k, rfl⟩ := h
  rw [apply_add, apply_smul]
  refine latVec_add ((latMem_iff _ _).1 (hR l hl)) ?_
  obtain ⟨l0, hl0, k0, hk0⟩ := latVec_zero c
  refine ⟨l0, hl0, ⟨k0.x + (R.apply k).x, k0.y + (R.apply k).y, k0.z + (R.apply k).z⟩, ?_⟩
  have hx := congrArg Z3.x hk0; have hy := congrArg Z3.y hk0; have hz := congrArg Z3.z hk0
  simp only [Z3.add, Z3.smul, Z3.zero] at hx hy hz
  ext <;> simp only [Z3.add, Z3.smul] <;> omega

/-! ### operations -/

/-- Same rotation and prime flag, translations congruent modulo the centring lattice. -/
def EqvMod (c : Centering) (p q : HOp) : Prop :=
  p.rot = q.rot ∧ p.tr = q.tr ∧ LatVec c (p.trans.sub q.trans)

theorem eqvMod_iff (c : Centering) (p q : HOp) : eqvMod c p q = true ↔ EqvMod c p q := by
  unfold eqvMod EqvMod
  simp only [Bool.and_eq_true, beq_iff_eq, latMem_iff]
  tauto

theorem sub_self_zero (u : Z3) : u.sub u = Z3.zero := by
  ext <;> simp [Z3.sub, Z3.zero]

theorem EqvMod.refl (c : Centering) (p : HOp) : EqvMod c p p :=
  ⟨rfl, rfl, by rw [sub_self_zero]; exact latVec_zero c⟩

theorem EqvMod.symm {c : Centering} {p q : HOp} (h : EqvMod c p q) : EqvMod c q p := by
  refine ⟨h.1.symm, h.2.1.symm, ?_⟩
  have := latVec_neg h.2.2
  have e : (p.trans.sub q.trans).neg = q.trans.sub p.trans := by
    ext <;> simp only [Z3.sub, Z3.neg] <;> omega
  rwa [e] at this

theorem EqvMod.trans {c : Centering} {p q r : HOp} (h1 : EqvMod c p q) (h2 : EqvMod c q r) :
    EqvMod c p r := by
  refine ⟨h1.1.trans h2.1, h1.2.1.trans h2.2.1, ?_⟩
  have := latVec_add h1.2.2 h2.2.2
  have e : (p.trans.sub q.trans).add (q.trans.sub r.trans) = p.trans.sub r.trans := by
    ext <;> simp only [Z3.sub, Z3.add] <;> omega
  rwa [e] at this

/-- Congruence is compatible with multiplication on the right (no condition). -/
theorem EqvMod.mul_right {c : Centering} {p q : HOp} (h : EqvMod c p q) (g : HOp) :
    EqvMod c (p.mul g) (q.mul g) := by
  obtain ⟨hr, ht, hl⟩ := h
  refine ⟨by simp only [HOp.mul, hr], by simp only [HOp.mul, ht], ?_⟩
  have e : (p.mul g).trans.sub (q.mul g).trans = p.trans.sub q.trans := by
    simp only [HOp.mul, hr]
    ext <;> simp only [Z3.sub, Z3.add] <;> omega
  rwa [e]

/-- Congruence is compatible with multiplication on the left by an operation whose rotation
preserves the lattice. -/
theorem EqvMod.mul_left {c : Centering} {p q : HOp} (h : EqvMod c p q) (a : HOp)
    (ha : ∀ l ∈ c.latticePoints, latMem c (a.rot.apply l) = true) :
    EqvMod c (a.mul p) (a.mul q) := by
  obtain ⟨hr, ht, hl⟩ := h
  refine ⟨by simp only [HOp.mul, hr], by simp only [HOp.mul, ht], ?_⟩
  have e : (a.mul p).trans.sub (a.mul q).trans = a.rot.apply (p.trans.sub q.trans) := by
    simp only [HOp.mul]
    ext <;> simp only [Z3.sub, Z3.add, M3.apply] <;> ring
  rw [e]
  exact latVec_apply ha hl

theorem HOp.mul_assoc' (p q r : HOp) : (p.mul q).mul r = p.mul (q.mul r) := by
  cases p; cases q; cases r
  simp only [HOp.mul, HOp.mk.injEq]
  refine ⟨M3.mul_assoc _ _ _, ?_, ?_⟩
  · ext <;> simp only [Z3.add, M3.apply, M3.mul] <;> ring
  · rename_i a _ _ b _ _ c; cases a <;> cases b <;> cases c <;> rfl

theorem HOp.mul_one' (p : HOp) : p.mul HOp.one = p := by
  cases p with
  | mk r t b =>
    simp only [HOp.mul, HOp.one, M3.mul_one, HOp.mk.injEq, true_and]
    refine ⟨?_, by cases b <;> rfl⟩
    ext <;> simp [M3.apply, Z3.add, Z3.zero]

theorem HOp.one_mul' (p : HOp) : HOp.one.mul p = p := by
  cases p with
  | mk r t b =>
    simp only [HOp.mul, HOp.one, M3.one_mul, HOp.mk.injEq, true_and]
    refine ⟨?_, by cases b <;> rfl⟩
    ext <;> simp [M3.apply, Z3.add, Z3.zero, M3.one]

/-- Product of a word, left to right. -/
def prodL (w : List HOp) : HOp := w.foldl HOp.mul HOp.one

theorem prodL_snoc (w : List HOp) (g : HOp) : prodL (w ++ [g]) = (prodL w).mul g := by
  simp [prodL, List.foldl_append]

/-- `ops` contains the identity and is closed under composition modulo the centring lattice. -/
def ClosedMod (c : Centering) (ops : List HOp) : Prop :=
  HOp.one ∈ ops ∧ ∀ a ∈ ops, ∀ b ∈ ops, ∃ s ∈ ops, EqvMod c (a.mul b) s

/-! ### the certificate -/

theorem mem_zip_of_getElem? {α β : Type} {l1 : List α} {l2 : List β} {i : Nat} {a : α} {b : β}
    (h1 : l1[i]? = some a) (h2 : l2[i]? = some b) : (a, b) ∈ l1.zip l2 := by
  rw [List.mem_iff_getElem?]
  exact ⟨i, by simp [List.getElem?_zip_eq_some, h1, h2]⟩

section cert
variable {c : Centering} {gens ops : List HOp} {tbl : List (List Nat)} {par : List Nat}

/-- Entry `(i, k)` of a verified table. -/
theorem table_entry (hrows : ∀ x ∈ ops.zip tbl, mulRowOK c gens ops x.1 x.2 = true)
    {i k j : Nat} {o : HOp} {row : List Nat} (ho : ops[i]? = some o) (hrow : tbl[i]? = some row)
    (hj : row[k]? = some j) :
    ∃ g s, gens[k]? = some g ∧ ops[j]? = some s ∧ EqvMod c (o.mul g) s := by
  have h := hrows (o, row) (mem_zip_of_getElem? ho hrow)
  simp only [mulRowOK, Bool.and_eq_true, beq_iff_eq, List.all_eq_true] at h
  obtain ⟨hlen, hall⟩ := h
  have hk : k < row.length := by
    by_contra hk
    rw [List.getElem?_eq_none (by omega)] at hj; cases hj
  have hk' : k < gens.length := by omega
  have hg : gens[k]? = some gens[k] := List.getElem?_eq_getElem hk'
  have := hall (gens[k], j) (mem_zip_of_getElem? hg hj)
  simp only at this
  split at this
  · rename_i s hs
    exact ⟨gens[k], s, hg, hs, (eqvMod_iff _ _ _).1 this⟩
  · cases this

/-- Right closure: the product of an operation of the list with a generator is in the list. -/
theorem right_closed (hlen : tbl.length = ops.length)
    (hrows : ∀ x ∈ ops.zip tbl, mulRowOK c gens ops x.1 x.2 = true)
    {o g : HOp} (ho : o ∈ ops) (hg : g ∈ gens) : ∃ s ∈ ops, EqvMod c (o.mul g) s := by
  obtain ⟨i, hi⟩ := List.mem_iff_getElem?.1 ho
  have hil : i < ops.length := by
    by_contra h; rw [List.getElem?_eq_none (by omega)] at hi; cases hi
  have hrow : tbl[i]? = some tbl[i] := List.getElem?_eq_getElem (by omega)
  obtain ⟨k, hk⟩ := List.mem_iff_getElem?.1 hg
  have hkl : k < gens.length := by
    by_contra h; rw [List.getElem?_eq_none (by omega)] at hk; cases hk
  have h := hrows (o, tbl[i]) (mem_zip_of_getElem? hi hrow)
  simp only [mulRowOK, Bool.and_eq_true, beq_iff_eq] at h
  have hj : (tbl[i])[k]? = some (tbl[i])[k] := List.getElem?_eq_getElem (by omega)
  obtain ⟨g', s, hg', hs, he⟩ := table_entry hrows hi hrow hj
  rw [hk] at hg'; cases hg'
  exact ⟨s, List.mem_of_getElem? hs, he⟩

/-- Every operation of the list is, modulo the lattice, a word in the generators. -/
theorem generated (hhead : ops.head? = some HOp.one) (_hlen : tbl.length = ops.length)
    (hplen : par.length = ops.length)
    (hrows : ∀ x ∈ ops.zip tbl, mulRowOK c gens ops x.1 x.2 = true)
    (hpar : ∀ x ∈ (List.range ops.length).zip par, (x.1 == 0 || parentOK tbl x.1 x.2) = true) :
    ∀ (i : Nat) (o : HOp), ops[i]? = some o →
      ∃ w : List HOp, (∀ g ∈ w, g ∈ gens) ∧ EqvMod c (prodL w) o := by
  intro i
  induction i using Nat.strong_induction_on with
  | _ i ih =>
    intro o ho
    have hil : i < ops.length := by
      by_contra h; rw [List.getElem?_eq_none (by omega)] at ho; cases ho
    by_cases hi0 : i = 0
    · subst hi0
      rw [← List.head?_eq_getElem?] at ho
      rw [hhead] at ho; cases ho
      exact ⟨[], by simp, by simpa [prodL] using EqvMod.refl c HOp.one⟩
    · have hr : (List.range ops.length)[i]? = some i := by simp [hil]
      have hp : par[i]? = some par[i] := List.getElem?_eq_getElem (by omega)
      have h := hpar (i, par[i]) (mem_zip_of_getElem? hr hp)
      simp only [Bool.or_eq_true, beq_iff_eq, hi0, false_or, parentOK, Bool.and_eq_true,
        decide_eq_true_eq] at h
      obtain ⟨hlt, hb⟩ := h
      cases hrow : tbl[par[i] / 8]? with
      | none => simp [hrow] at hb
      | some row =>
        simp only [hrow, Option.bind_some] at hb
        have hi' : par[i] / 8 < ops.length := by omega
        have ho' : ops[par[i] / 8]? = some ops[par[i] / 8] := List.getElem?_eq_getElem hi'
        obtain ⟨g, s, hg, hs, he⟩ := table_entry hrows ho' hrow hb
        rw [ho] at hs; cases hs
        obtain ⟨w, hw, hwe⟩ := ih (par[i] / 8) hlt _ ho'
        refine ⟨w ++ [g], ?_, ?_⟩
        · intro x hx
          rcases List.mem_append.1 hx with hx | hx
          · exact hw x hx
          · simp only [List.mem_singleton] at hx; subst hx; exact List.mem_of_getElem? hg
        · rw [prodL_snoc]
          exact (hwe.mul_right g).trans he

/-- Soundness of the closure certificate. -/
theorem closed_of_closedCert (h : closedCert c gens ops tbl par = true) : ClosedMod c ops := by
  simp only [closedCert, Bool.and_eq_true, beq_iff_eq, List.all_eq_true, latInvariant] at h
  obtain ⟨⟨⟨⟨⟨hhead, hlen⟩, hplen⟩, hrows⟩, hpar⟩, hlat⟩ := h
  have hone : HOp.one ∈ ops := by
    cases ops with
    | nil => simp at hhead
    | cons a t => simp only [List.head?_cons, Option.some.injEq] at hhead; subst hhead; simp
  refine ⟨hone, ?_⟩
  intro a ha b hb
  -- products of `a` with words stay in the list
  have hword : ∀ w : List HOp, (∀ g ∈ w, g ∈ gens) → ∃ s ∈ ops, EqvMod c (a.mul (prodL w)) s := by
    intro w
    induction w using List.reverseRecOn with
    | nil => intro _; exact ⟨a, ha, by simpa [prodL, HOp.mul_one'] using EqvMod.refl c a⟩
    | append_singleton w g ih =>
      intro hw
      obtain ⟨s, hs, hse⟩ := ih (fun x hx => hw x (List.mem_append_left _ hx))
      obtain ⟨s', hs', hse'⟩ := right_closed hlen hrows hs (hw g (by simp))
      refine ⟨s', hs', ?_⟩
      rw [prodL_snoc, ← HOp.mul_assoc']
      exact (hse.mul_right g).trans hse'
  obtain ⟨i, hi⟩ := List.mem_iff_getElem?.1 hb
  obtain ⟨w, hw, hwe⟩ := generated hhead hlen hplen hrows hpar i b hi
  obtain ⟨s, hs, hse⟩ := hword w hw
  exact ⟨s, hs, ((hwe.symm).mul_left a (hlat a ha)).trans hse⟩

end cert

/-- Non-vacuity: the certificate of the cyclic group generated by a 4₁ screw axis in a P cell
(`P 4w`: ops `1, 4₁, 2₁, 4₃`; table `i ↦ i+1 mod 4`; parents `i-1`). -/
example : ClosedMod .P
    [HOp.one, ⟨⟨0, -1, 0, 1, 0, 0, 0, 0, 1⟩, ⟨0, 0, 3⟩, false⟩, ⟨⟨-1, 0, 0, 0, -1, 0, 0, 0, 1⟩, ⟨0, 0, 6⟩, false⟩,
     ⟨⟨0, 1, 0, -1, 0, 0, 0, 0, 1⟩, ⟨0, 0, 9⟩, false⟩] :=
  closed_of_closedCert (gens := [⟨⟨0, -1, 0, 1, 0, 0, 0, 0, 1⟩, ⟨0, 0, 3⟩, false⟩])
    (tbl := [[1], [2], [3], [0]]) (par := [0, 0, 8, 16]) (by decide)

end Moyo.Tables
