import Moyo.Model.StageMag
import Moyo.Proofs.Glue
import Moyo.Proofs.OracleSite
/-
Helper lemmas for the magnetic stage theorems (`Props/C11Stages.lean`): `isClose`, the option-loop `mapOpt`, the
permutation search `permOf`, membership in `thetasOf` / `assignTimeReversal`, unfolding of `primitiveMagModel` and `glueMag`.
-/
namespace Moyo.StageMag
open Moyo Moyo.Search Moyo.MagOracle Moyo.Oracle

theorem isClose_iff {a b : Q3} {msp : Rat} :
    isClose a b msp = true ↔ 0 < msp ∧ (a.sub b).normSq < msp * msp := by
  unfold isClose
  simp [Bool.and_eq_true, decide_eq_true_eq]

theorem keepsMoments_iff {mom : Array Q3} {n : Nat} {p : Perm} {msp : Rat} :
    keepsMoments mom n p msp = true ↔
      ∀ i < n, 0 < msp ∧ ((momAt mom i).sub (momAt mom (papply p i))).normSq < msp * msp := by
  unfold keepsMoments
  simp only [List.all_eq_true, List.mem_range, isClose_iff]

theorem acceptTheta_iff {collinear axial : Bool} {cart : QM3} {mom : Array Q3} {n : Nat} {p : Perm} {msp : Rat} {tr : Bool} :
    acceptTheta collinear axial cart mom n p msp tr = true ↔
      ∀ i < n, 0 < msp ∧ ((actMagneticOperation collinear axial cart tr (momAt mom i)).sub
        (momAt mom (papply p i))).normSq < msp * msp := by
  unfold acceptTheta
  simp only [List.all_eq_true, List.mem_range, isClose_iff]
  rfl

theorem mem_thetasOf {collinear axial : Bool} {cart : QM3} {mom : Array Q3} {n : Nat} {msp : Rat} {o : OpQ} {p : Perm}
    {x : MOpQ × Perm} :
    x ∈ thetasOf collinear axial cart mom n msp o p ↔
      ∃ tr : Bool, acceptTheta collinear axial cart mom n p msp tr = true ∧ x = (⟨o.rot, o.trans, tr⟩, p) := by
  unfold thetasOf
  simp only [List.mem_filterMap, List.mem_cons, List.not_mem_nil, or_false]
  constructor
  · rintro ⟨tr, _, h⟩
    split at h
    · rename_i hacc
      exact ⟨tr, hacc, by simpa using h.symm⟩
    · cases h
  · rintro ⟨tr, hacc, rfl⟩
    refine ⟨tr, by cases tr <;> simp, ?_⟩
    rw [if_pos hacc]

/-- `thetasOf` tries `true` before `false` and keeps at most these two, in this order. -/
theorem thetasOf_order (collinear axial : Bool) (cart : QM3) (mom : Array Q3) (n : Nat) (msp : Rat) (o : OpQ) (p : Perm) :
    (thetasOf collinear axial cart mom n msp o p).map (·.1.tr) =
      [true, false].filter fun tr => acceptTheta collinear axial cart mom n p msp tr := by
  unfold thetasOf
  by_cases h1 : acceptTheta collinear axial cart mom n p msp true = true <;>
  by_cases h2 : acceptTheta collinear axial cart mom n p msp false = true <;>
  simp [h1, h2]

theorem mapOpt_spec (f : Nat → Option Nat) : ∀ (l p : List Nat), mapOpt f l = some p →
    p.length = l.length ∧ ∀ (k a : Nat), l[k]? = some a → ∃ b, p[k]? = some b ∧ f a = some b
  | [], p, h => by
    simp only [mapOpt, Option.some.injEq] at h; subst h; simp
  | i :: rest, p, h => by
    simp only [mapOpt] at h
    split at h
    · cases h
    · rename_i j hj
      split at h
      · cases h
      · rename_i l hl
        simp only [Option.some.injEq] at h
        subst h
        obtain ⟨ihl, ih⟩ := mapOpt_spec f rest l hl
        refine ⟨by simp [ihl], ?_⟩
        intro k a hk
        cases k with
        | zero =>
          simp only [List.getElem?_cons_zero, Option.some.injEq] at hk
          subst hk
          exact ⟨j, by simp, hj⟩
        | succ k' =>
          simp only [List.getElem?_cons_succ] at hk ⊢
          exact ih k' a hk

/-- What `solve_correspondence` guarantees in the model: a permutation list of the right length whose `i`-th entry is a
site of the same species within `√r2` (periodic distance) of `R x_i + t`. -/
theorem permOf_sound {ix : SiteIndex} {c : CellQ} {o : OpQ} {r2 : Rat} {p : Perm} (h : permOf ix c o r2 = some p) :
    p.length = c.n ∧ ∀ i < c.n, papply p i < ix.cell.n ∧ numAt c i = numAt c (papply p i) ∧
      withinPeriodic ix.cell.lat ix.gi ((opAct o (posAt c i)).sub ix.cell.pos[papply p i]!) r2 = true := by
  unfold permOf at h
  obtain ⟨hlen, hk⟩ := mapOpt_spec _ _ _ h
  refine ⟨by simpa using hlen, ?_⟩
  intro i hi
  obtain ⟨b, hb, hf⟩ := hk i i (by simp [hi])
  have hp : papply p i = b := by
    unfold papply
    rw [List.getD_eq_getElem?_getD, hb]; rfl
  rw [hp]
  unfold siteImage at hf
  split at hf
  · cases hf
  · rename_i j hj
    split at hf
    · rename_i hnum
      simp only [Option.some.injEq] at hf
      subst hf
      obtain ⟨h1, _, h3⟩ := OracleP.findSel_sound hj
      exact ⟨h1, hnum, h3⟩
    · cases hf

theorem mem_assignTimeReversal {collinear axial : Bool} {mc : MagCellQ} {ix : SiteIndex} {symprec msp : Rat}
    {cands : List OpQ} {x : MOpQ × Perm}
    (hx : x ∈ assignTimeReversal collinear axial mc msp (candPerms ix mc.cell symprec cands)) :
    ∃ o ∈ cands, permOf ix mc.cell o (symprec * symprec) = some x.2 ∧
      ∃ tr : Bool, acceptTheta collinear axial (cartRot mc.cell.lat o.rot) mc.mom mc.cell.n x.2 msp tr = true ∧
        x.1 = ⟨o.rot, o.trans, tr⟩ := by
  unfold assignTimeReversal candPerms at hx
  simp only [List.mem_flatMap, List.mem_map] at hx
  obtain ⟨y, ⟨o, ho, rfl⟩, hy⟩ := hx
  simp only at hy
  cases hp : permOf ix mc.cell o (symprec * symprec) with
  | none => rw [hp] at hy; simp at hy
  | some p =>
    rw [hp] at hy
    simp only [Option.map_some] at hy
    obtain ⟨tr, hacc, rfl⟩ := mem_thetasOf.1 hy
    exact ⟨o, ho, hp, tr, hacc, rfl⟩

/-- What a successful run of the S8m model consists of. -/
theorem primitiveMagModel_ok {mc : MagCellQ} {cands : List (Q3 × Perm)} {msp : Rat} {lin : Option M3} {r : PrimMagRes}
    (h : primitiveMagModel mc (.ok cands) msp lin = .ok r) :
    let kept := filterTranslations mc.mom mc.cell.n cands msp
    r.translations = kept.map (·.1) ∧ r.perms = kept.map (·.2) ∧ kept.length ≠ 0 ∧ mc.cell.n % kept.length = 0 ∧
    transformationMatrixFromTranslations (kept.map (·.1)) = .ok r.transMat ∧
    ∃ T2inv : M3, T2inv.det = 1 ∧ r.linear = T2inv.mul r.transMat := by
  unfold primitiveMagModel at h
  simp only at h
  split at h
  · cases h
  · split at h
    · cases h
    · rename_i hsize
      split at h
      · cases h
      · cases h
      · rename_i M hM
        split at h
        · cases h
        · split at h
          · cases h
          · rename_i T2inv _
            split at h
            · cases h
            · rename_i T2 hT2
              simp only [Res.ok.injEq] at h
              subst h
              have hd : T2inv.det = 1 := by
                unfold unimodInv? at hT2
                split at hT2
                · assumption
                · cases hT2
              refine ⟨rfl, rfl, ?_, ?_, hM, T2inv, hd, rfl⟩
              · intro h0; exact hsize (Or.inl h0)
              · exact Classical.byContradiction fun h0 => hsize (Or.inr h0)

theorem glueMag_some {inp : GlueInput} {d : GlueOutput} (h : glueMag inp = some d) :
    ∃ Linv, Glue.linearInv inp.primLinear = some Linv ∧
      d = { uni := inp.uni
            magneticOperations := magOperationsInCell inp.primLinear inp.translations inp.mops
            orbits := Orbits.orbitsInCell inp.primNatoms inp.perms inp.primSiteMapping
            stdCell := inp.stdCell
            stdLinear := (Glue.composeInv Linv inp.tlinear inp.tshift).1
            stdOriginShift := (Glue.composeInv Linv inp.tlinear inp.tshift).2
            stdRotationMatrix := inp.rot
            primStdCell := inp.primStdCell
            primStdLinear := (Glue.composeInv Linv inp.ptlinear inp.ptshift).1
            primStdOriginShift := (Glue.composeInv Linv inp.ptlinear inp.ptshift).2
            mappingStdPrim := inp.primSiteMapping
            symprec := inp.symprec
            magSymprec := inp.magSymprec
            angtol := inp.angtol } := by
  unfold glueMag at h
  simp only at h
  split at h
  · cases h
  · rename_i Linv hL
    simp only [Option.some.injEq] at h
    exact ⟨Linv, hL, h.symm⟩

end Moyo.StageMag
