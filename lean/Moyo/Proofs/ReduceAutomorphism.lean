import Moyo.Proofs.ReduceMinima
import Moyo.Proofs.ReduceAlgebra
import Moyo.Model.StageSearchBravais
import Mathlib.Tactic.Ring
import Mathlib.Tactic.Linarith
import Mathlib.Tactic.Positivity
import Mathlib.Tactic.LinearCombination
import Mathlib.Algebra.Order.Field.Basic
/-
Geometry of numbers for C02 (assumption A-bravais of DESIGN §C02), over an arbitrary linearly ordered
field `K`: coefficient bounds for short vectors of a Minkowski-reduced positive definite ternary form
(`Minima.Red`, the twelve conditions of `is_minkowski_reduced` with `EPS = 0`, plus `0 < a`), and the
corollary that every integral automorphism of such a form has all entries in {-1, 0, 1}.

Let `Q = Q3 a b c p q r` (`a = |b1|²`, `b = |b2|²`, `c = |b3|²`, `p = b1·b2`, `q = b1·b3`, `r = b2·b3`).
* `z_big`       `|z| ≥ 2 → Q(x,y,z) > c`.   `|z| ≥ 3`: the real bound `Q ≥ (c - ¾b) z²` of `real_all`;
                `|z| = 2`: parallelogram law `Q(2u + δ) = 2Q(u) + 2Q(u + δ) - Q(δ)` with `u_z = 1`,
                `δ ∈ {0,1}² × {0}` (sign of `δ_y` chosen by the sign of `p`), so `Q ≥ 4c - (a + b) ≥ 2c`.
* `one_small`   `|z| = 1`, `Q(x,y,z) ≤ c → |x|, |y| ≤ 1`.  With `f(w) = g(w) + ℓ(w) = Q(w, 1) - c ≥ 0` on `ℤ²`
                (`int_all`) and `f(w) = f(u) + f(w - u) + 2⟨u, w - u⟩`, a vector `w` with a coefficient `≥ 2`
                splits off `u ∈ {e1, e2, e1 + e2}` (case `p ≤ 0`) with `⟨u, w - u⟩ > 0`.
* `plane_small` `g(x,y) ≤ b → |y| ≤ 1 ∧ (y ≠ 0 → |x| ≤ 1)` (Gauss-reduced binary form).
* `coeffs_small` collects the three.  The exceptional families are genuine (see Props/C02Bravais.lean):
                `(x, 0, 0)` with `a x² ≤ c` and `(x, y, 0)` with `b < g(x,y) ≤ c`.
* `aut_small`   columns of an integral `R` with `RᵀGR = G` avoid the exceptional families because
                `det R = ±1` (`aut_det`): a column `(x,0,0)` has `x ∣ det R`, and if the third column lies
                in the plane `z = 0` some other column has `z ≠ 0`, which forces `b = c`.
-/
namespace Moyo.Minima

variable {K : Type*} [Field K] [LinearOrder K] [IsStrictOrderedRing K]

/-- Symmetric bilinear form of `Q3`: `B3 … u v = uᵀ G v`. -/
def B3 (a b c p q r x1 y1 z1 x2 y2 z2 : K) : K :=
  a * x1 * x2 + b * y1 * y2 + c * z1 * z2 + p * (x1 * y2 + y1 * x2) + q * (x1 * z2 + z1 * x2) +
    r * (y1 * z2 + z1 * y2)

/-- Determinant of the Gram matrix. -/
def D3 (a b c p q r : K) : K := a * b * c + 2 * p * q * r - a * r ^ 2 - b * q ^ 2 - c * p ^ 2

section
variable {a b c p q r : K}

/-! ### `|z| = 1` -/

/-- `p ≤ 0`, `x ≥ 2`: split off `e1` (`y ≤ 0`) or `e1 + e2` (`y ≥ 1`). -/
theorem one_pos_x (h : Red a b c p q r) (ha : 0 < a) (hp : p ≤ 0) (x y : ℤ) (hx : 2 ≤ x) :
    0 < Q2 a b p x y + (2 * q * x + 2 * r * y) := by
  have hxK : (2 : K) ≤ x := by exact_mod_cast hx
  rcases le_or_gt y 0 with hy | hy
  · have hyK : (y : K) ≤ 0 := by exact_mod_cast hy
    have s := int_all h (x - 1) y
    unfold Q2 at s ⊢
    push_cast at s
    nlinarith [s, h.q1, mul_nonneg (neg_nonneg.2 hp) (neg_nonneg.2 hyK),
      mul_nonneg ha.le (by linarith : (0 : K) ≤ x - 2)]
  · have hyK : (1 : K) ≤ y := by exact_mod_cast (show (1 : ℤ) ≤ y by linarith)
    have s := int_all h (x - 1) (y - 1)
    unfold Q2 at s ⊢
    push_cast at s
    nlinarith [s, h.s1, mul_nonneg (by linarith [h.p1] : (0 : K) ≤ a + p) (by linarith : (0 : K) ≤ x - 2),
      mul_nonneg (by linarith [h.p1, h.ab] : (0 : K) ≤ b + p) (by linarith : (0 : K) ≤ (y : K) - 1), h.p1]

/-- `p ≤ 0`, `y ≥ 2`: split off `e2` (`x ≤ 0`) or `e1 + e2` (`x ≥ 1`). -/
theorem one_pos_y (h : Red a b c p q r) (ha : 0 < a) (hp : p ≤ 0) (x y : ℤ) (hy : 2 ≤ y) :
    0 < Q2 a b p x y + (2 * q * x + 2 * r * y) := by
  have hyK : (2 : K) ≤ y := by exact_mod_cast hy
  rcases le_or_gt x 0 with hx | hx
  · have hxK : (x : K) ≤ 0 := by exact_mod_cast hx
    have s := int_all h x (y - 1)
    unfold Q2 at s ⊢
    push_cast at s
    nlinarith [s, h.r1, mul_nonneg (neg_nonneg.2 hp) (neg_nonneg.2 hxK),
      mul_nonneg (by linarith [h.ab] : (0 : K) ≤ b) (by linarith : (0 : K) ≤ (y : K) - 2), h.ab]
  · have hxK : (1 : K) ≤ x := by exact_mod_cast (show (1 : ℤ) ≤ x by linarith)
    have s := int_all h (x - 1) (y - 1)
    unfold Q2 at s ⊢
    push_cast at s
    nlinarith [s, h.s1, mul_nonneg (by linarith [h.p1] : (0 : K) ≤ a + p) (by linarith : (0 : K) ≤ (x : K) - 1),
      mul_nonneg (by linarith [h.p1, h.ab] : (0 : K) ≤ b + p) (by linarith : (0 : K) ≤ (y : K) - 2), h.p1, h.ab]

/-- `p ≤ 0`: a coefficient of absolute value `≥ 2` makes `f = g + ℓ` strictly positive. -/
theorem one_big_neg (h : Red a b c p q r) (ha : 0 < a) (hp : p ≤ 0) (x y : ℤ)
    (hxy : 2 ≤ x ∨ x ≤ -2 ∨ 2 ≤ y ∨ y ≤ -2) : 0 < Q2 a b p x y + (2 * q * x + 2 * r * y) := by
  rcases hxy with h1 | h1 | h1 | h1
  · exact one_pos_x h ha hp x y h1
  · have s := one_pos_x h.negz ha hp (-x) (-y) (by linarith)
    unfold Q2 at s ⊢
    push_cast at s
    nlinarith [s]
  · exact one_pos_y h ha hp x y h1
  · have s := one_pos_y h.negz ha hp (-x) (-y) (by linarith)
    unfold Q2 at s ⊢
    push_cast at s
    nlinarith [s]

theorem one_big (h : Red a b c p q r) (ha : 0 < a) (x y : ℤ)
    (hxy : 2 ≤ x ∨ x ≤ -2 ∨ 2 ≤ y ∨ y ≤ -2) : 0 < Q2 a b p x y + (2 * q * x + 2 * r * y) := by
  rcases le_total p 0 with hp | hp
  · exact one_big_neg h ha hp x y hxy
  · have s := one_big_neg h.negy ha (by linarith) x (-y)
      (by rcases hxy with h1 | h1 | h1 | h1
          · exact Or.inl h1
          · exact Or.inr (Or.inl h1)
          · exact Or.inr (Or.inr (Or.inr (by linarith)))
          · exact Or.inr (Or.inr (Or.inl (by linarith))))
    unfold Q2 at s ⊢
    push_cast at s
    nlinarith [s]

/-- `z = 1`, `Q(x, y, 1) ≤ c` ⇒ `x, y ∈ {-1, 0, 1}`. -/
theorem one_small_pos (h : Red a b c p q r) (ha : 0 < a) (x y : ℤ)
    (hQ : Q3 a b c p q r x y (1 : ℤ) ≤ c) : (-1 ≤ x ∧ x ≤ 1) ∧ (-1 ≤ y ∧ y ≤ 1) := by
  by_contra hcon
  have hxy : 2 ≤ x ∨ x ≤ -2 ∨ 2 ≤ y ∨ y ≤ -2 := by omega
  have s := one_big h ha x y hxy
  unfold Q2 at s
  unfold Q3 at hQ
  push_cast at hQ
  nlinarith [s, hQ]

/-- `|z| = 1`, `Q(x, y, z) ≤ c` ⇒ `x, y ∈ {-1, 0, 1}`. -/
theorem one_small (h : Red a b c p q r) (ha : 0 < a) (x y z : ℤ) (hz : z = 1 ∨ z = -1)
    (hQ : Q3 a b c p q r x y z ≤ c) : (-1 ≤ x ∧ x ≤ 1) ∧ (-1 ≤ y ∧ y ≤ 1) := by
  rcases hz with rfl | rfl
  · exact one_small_pos h ha x y hQ
  · have s := one_small_pos h ha (-x) (-y) (by
      unfold Q3 at hQ ⊢
      push_cast at hQ ⊢
      nlinarith [hQ])
    omega

/-! ### `|z| ≥ 2` -/

/-- Parallelogram law with `u = (x', y', 1)`, `δ = (dx, dy, 0)`: `Q(2u + δ) ≥ 4c - g(δ)`. -/
theorem two_lb (h : Red a b c p q r) (x' y' dx dy : ℤ) :
    4 * c - Q2 a b p dx dy ≤ Q3 a b c p q r ((2 * x' + dx : ℤ) : K) ((2 * y' + dy : ℤ) : K) 2 := by
  have s1 := third h x' y' 1 one_ne_zero
  have s2 := third h (x' + dx) (y' + dy) 1 one_ne_zero
  unfold Q3 at s1 s2 ⊢
  unfold Q2
  push_cast at s1 s2 ⊢
  nlinarith [s1, s2]

/-- `Q(x, y, 2) ≥ 4c - (a + b)`. -/
theorem two_pos (h : Red a b c p q r) (x y : ℤ) :
    4 * c - (a + b) ≤ Q3 a b c p q r x y 2 := by
  have ha := h.a_nonneg
  have hb := h.b_nonneg
  obtain ⟨x', hx | hx⟩ := Int.even_or_odd' x <;> obtain ⟨y', hy | hy⟩ := Int.even_or_odd' y
  · have s := two_lb h x' y' 0 0
    simp only [add_zero] at s
    rw [hx, hy]
    unfold Q2 at s
    push_cast at s ⊢
    nlinarith [s]
  · have s := two_lb h x' y' 0 1
    simp only [add_zero] at s
    rw [hx, hy]
    unfold Q2 at s
    push_cast at s ⊢
    nlinarith [s]
  · have s := two_lb h x' y' 1 0
    simp only [add_zero] at s
    rw [hx, hy]
    unfold Q2 at s
    push_cast at s ⊢
    nlinarith [s]
  · rw [hx, hy]
    rcases le_total p 0 with hp | hp
    · have s := two_lb h x' y' 1 1
      unfold Q2 at s
      push_cast at s ⊢
      nlinarith [s]
    · have s := two_lb h x' (y' + 1) 1 (-1)
      unfold Q2 at s
      push_cast at s ⊢
      have e : (2 * ((y' : K) + 1) + -1) = 2 * (y' : K) + 1 := by ring
      rw [e] at s
      nlinarith [s]

/-- `z ≥ 2` ⇒ `Q(x, y, z) > c` (strict). -/
theorem z_big_pos (h : Red a b c p q r) (ha : 0 < a) (x y z : ℤ) (hz : 2 ≤ z) :
    c < Q3 a b c p q r x y z := by
  have hb : 0 < b := lt_of_lt_of_le ha h.ab
  have hc : 0 < c := lt_of_lt_of_le hb h.bc
  rcases eq_or_lt_of_le hz with h2 | h3
  · subst h2
    have s := two_pos h x y
    push_cast
    linarith [s, h.ab, h.bc]
  · have hzK : (3 : K) ≤ z := by exact_mod_cast (show (3 : ℤ) ≤ z by linarith)
    have s := real_all h (x : K) (y : K) (z : K) (by linarith)
    unfold Q2 at s
    unfold Q3
    have hz2 : (9 : K) ≤ (z : K) ^ 2 := by nlinarith
    nlinarith [s, mul_nonneg hc.le (sub_nonneg.2 hz2), mul_nonneg (sub_nonneg.2 h.bc) (sq_nonneg (z : K))]

/-- `|z| ≥ 2` ⇒ `Q(x, y, z) > c`. -/
theorem z_big (h : Red a b c p q r) (ha : 0 < a) (x y z : ℤ) (hz : 2 ≤ z ∨ z ≤ -2) :
    c < Q3 a b c p q r x y z := by
  rcases hz with hz | hz
  · exact z_big_pos h ha x y z hz
  · have s := z_big_pos h ha (-x) (-y) (-z) (by linarith)
    unfold Q3 at s ⊢
    push_cast at s
    nlinarith [s]

/-! ### The plane `z = 0` -/

theorem lin_pos (ha : 0 < a) {s : K} (h1 : -a ≤ 2 * s) (h2 : 2 * s ≤ a) (x : K) (hx : 2 ≤ x ∨ x ≤ -2) :
    0 < a * x ^ 2 + 2 * s * x := by
  rcases hx with hx | hx
  · nlinarith [mul_nonneg (mul_nonneg ha.le (by linarith : (0 : K) ≤ x)) (by linarith : (0 : K) ≤ x - 2),
      mul_nonneg (by linarith : (0 : K) ≤ a + 2 * s) (by linarith : (0 : K) ≤ x), mul_pos ha (by linarith : (0 : K) < x)]
  · nlinarith [mul_nonneg (mul_nonneg ha.le (by linarith : (0 : K) ≤ -x)) (by linarith : (0 : K) ≤ -x - 2),
      mul_nonneg (by linarith : (0 : K) ≤ a - 2 * s) (by linarith : (0 : K) ≤ -x), mul_pos ha (by linarith : (0 : K) < -x)]

/-- Gauss-reduced positive definite binary form: `g(x, y) ≤ b` ⇒ `|y| ≤ 1` and (`y ≠ 0 → |x| ≤ 1`).
(The vectors `(x, 0)` with `a x² ≤ b` are genuine exceptions.) -/
theorem plane_small (hab : a ≤ b) (hp1 : -a ≤ 2 * p) (hp2 : 2 * p ≤ a) (ha : 0 < a) (x y : ℤ)
    (hQ : Q2 a b p x y ≤ b) : (-1 ≤ y ∧ y ≤ 1) ∧ (y ≠ 0 → (-1 ≤ x ∧ x ≤ 1)) := by
  have hb : 0 < b := lt_of_lt_of_le ha hab
  have hy : -1 ≤ y ∧ y ≤ 1 := by
    by_contra hcon
    have hy4 : (4 : ℤ) ≤ y ^ 2 := by
      rcases (by omega : 2 ≤ y ∨ y ≤ -2) with h2 | h2 <;> nlinarith
    have hy4K : (4 : K) ≤ (y : K) ^ 2 := by exact_mod_cast hy4
    have e : a * Q2 a b p x y = (a * x + p * y) ^ 2 + (a * b - p ^ 2) * (y : K) ^ 2 := by
      unfold Q2; ring
    have hp4 : 4 * p ^ 2 ≤ a ^ 2 := by nlinarith [mul_nonneg (by linarith : (0 : K) ≤ a + 2 * p) (by linarith : (0 : K) ≤ a - 2 * p)]
    have hm : 0 ≤ a * b - p ^ 2 := by nlinarith [mul_nonneg ha.le (sub_nonneg.2 hab)]
    have h3 : a * Q2 a b p x y ≤ a * b := mul_le_mul_of_nonneg_left hQ ha.le
    nlinarith [sq_nonneg (a * x + p * y), mul_nonneg hm (sub_nonneg.2 hy4K), mul_nonneg ha.le (sub_nonneg.2 hab),
      mul_pos ha hb]
  refine ⟨hy, ?_⟩
  intro hy0
  by_contra hcon
  have hx : 2 ≤ x ∨ x ≤ -2 := by omega
  have hxK : (2 : K) ≤ x ∨ (x : K) ≤ -2 := by
    rcases hx with h2 | h2
    · exact Or.inl (by exact_mod_cast h2)
    · exact Or.inr (by exact_mod_cast h2)
  rcases (by omega : y = 1 ∨ y = -1) with rfl | rfl
  · have s := lin_pos ha hp1 hp2 (x : K) hxK
    unfold Q2 at hQ
    push_cast at hQ
    nlinarith [s, hQ]
  · have s := lin_pos ha (s := -p) (by linarith) (by linarith) (x : K) hxK
    unfold Q2 at hQ
    push_cast at hQ
    nlinarith [s, hQ]

/-! ### Coefficient bound with the exceptional families made explicit -/

/-- **Coefficients of short vectors.**  For a Minkowski-reduced positive definite form and integers `(x,y,z)`
with `Q(x,y,z) ≤ c = |b3|²`:
* `|z| ≤ 1`;
* `z ≠ 0 → |x| ≤ 1 ∧ |y| ≤ 1`;
* `z = 0 → Q ≤ b → |y| ≤ 1 ∧ (y ≠ 0 → |x| ≤ 1)`.
Exceptions (both occur): `(x, 0, 0)` with `a x² ≤ c`, and `(x, y, 0)` with `b < Q ≤ c`. -/
theorem coeffs_small (h : Red a b c p q r) (ha : 0 < a) (x y z : ℤ) (hQ : Q3 a b c p q r x y z ≤ c) :
    (-1 ≤ z ∧ z ≤ 1) ∧ (z ≠ 0 → (-1 ≤ x ∧ x ≤ 1) ∧ (-1 ≤ y ∧ y ≤ 1)) ∧
    (z = 0 → Q3 a b c p q r x y z ≤ b → (-1 ≤ y ∧ y ≤ 1) ∧ (y ≠ 0 → (-1 ≤ x ∧ x ≤ 1))) := by
  have hz : -1 ≤ z ∧ z ≤ 1 := by
    by_contra hcon
    exact absurd (z_big h ha x y z (by omega)) (not_lt.2 hQ)
  refine ⟨hz, ?_, ?_⟩
  · intro hz0
    exact one_small h ha x y z (by omega) hQ
  · intro hz0 hb
    subst hz0
    refine plane_small h.ab h.p1 h.p2 ha x y ?_
    unfold Q3 at hb
    unfold Q2
    push_cast at hb
    nlinarith [hb]

/-- A vector strictly shorter than `b3`… has `z = 0`; no longer than `b3` and outside the plane: small. -/
theorem col_small (h : Red a b c p q r) (ha : 0 < a) (x y z : ℤ) (hQ : Q3 a b c p q r x y z ≤ c)
    (hplane : z = 0 → Q3 a b c p q r x y z ≤ b) (hline : y = 0 → z = 0 → (-1 ≤ x ∧ x ≤ 1)) :
    (-1 ≤ x ∧ x ≤ 1) ∧ (-1 ≤ y ∧ y ≤ 1) ∧ (-1 ≤ z ∧ z ≤ 1) := by
  obtain ⟨hz, h1, h2⟩ := coeffs_small h ha x y z hQ
  by_cases hz0 : z = 0
  · obtain ⟨hy, hx⟩ := h2 hz0 (hplane hz0)
    by_cases hy0 : y = 0
    · exact ⟨hline hy0 hz0, hy, hz⟩
    · exact ⟨hx hy0, hy, hz⟩
  · exact ⟨(h1 hz0).1, (h1 hz0).2, hz⟩

/-! ### Positive definiteness and the determinant -/

/-- `Red` and `0 < a` give a positive Gram determinant (evaluate the real bound at the third column of the
adjugate, `G·v = (0, 0, det G)`). -/
theorem D3_pos (h : Red a b c p q r) (ha : 0 < a) : 0 < D3 a b c p q r := by
  have hb : 0 < b := lt_of_lt_of_le ha h.ab
  have hc : 0 < c := lt_of_lt_of_le hb h.bc
  have hp4 : 4 * p ^ 2 ≤ a ^ 2 := by
    nlinarith [mul_nonneg (by linarith [h.p1] : (0 : K) ≤ a + 2 * p) (by linarith [h.p2] : (0 : K) ≤ a - 2 * p)]
  have hm : 0 < a * b - p ^ 2 := by nlinarith [mul_nonneg ha.le (sub_nonneg.2 h.ab), mul_pos ha ha]
  have s := real_all h (p * r - b * q) (p * q - a * r) (a * b - p ^ 2) hm.le
  have e : Q2 a b p (p * r - b * q) (p * q - a * r) +
      (a * b - p ^ 2) * (2 * q * (p * r - b * q) + 2 * r * (p * q - a * r)) + c * (a * b - p ^ 2) ^ 2 =
      D3 a b c p q r * (a * b - p ^ 2) := by
    unfold Q2 D3; ring
  have h4 : 0 < (c - 3 / 4 * b) * (a * b - p ^ 2) ^ 2 := by
    have : 0 < c - 3 / 4 * b := by linarith [h.bc]
    positivity
  have h5 : 0 < D3 a b c p q r * (a * b - p ^ 2) := by
    rw [← e]; nlinarith [s, h4]
  by_contra hD
  have hD' : D3 a b c p q r ≤ 0 := not_lt.1 hD
  nlinarith [mul_nonneg (neg_nonneg.2 hD') hm.le]

end

end Moyo.Minima

namespace Moyo.Minima
open Moyo

variable {K : Type*} [Field K] [LinearOrder K] [IsStrictOrderedRing K]
variable {a b c p q r : K}

/-- `R` is an integral automorphism of the form: `RᵀGR = G`, written on the columns
`r1 = (R.a, R.d, R.g)`, `r2 = (R.b, R.e, R.h)`, `r3 = (R.c, R.f, R.i)` of `R`. -/
structure IsAut (a b c p q r : K) (R : M3) : Prop where
  h11 : Q3 a b c p q r R.a R.d R.g = a
  h22 : Q3 a b c p q r R.b R.e R.h = b
  h33 : Q3 a b c p q r R.c R.f R.i = c
  h12 : B3 a b c p q r R.a R.d R.g R.b R.e R.h = p
  h13 : B3 a b c p q r R.a R.d R.g R.c R.f R.i = q
  h23 : B3 a b c p q r R.b R.e R.h R.c R.f R.i = r

/-- `det (RᵀGR) = (det R)² det G`, and `det G ≠ 0`, so `det R = ±1`. -/
theorem aut_det (hD : D3 a b c p q r ≠ 0) (R : M3) (hR : IsAut a b c p q r R) : R.det = 1 ∨ R.det = -1 := by
  have key : D3 (Q3 a b c p q r R.a R.d R.g) (Q3 a b c p q r R.b R.e R.h) (Q3 a b c p q r R.c R.f R.i)
      (B3 a b c p q r R.a R.d R.g R.b R.e R.h) (B3 a b c p q r R.a R.d R.g R.c R.f R.i)
      (B3 a b c p q r R.b R.e R.h R.c R.f R.i) = ((R.det : ℤ) : K) ^ 2 * D3 a b c p q r := by
    unfold D3 Q3 B3 M3.det
    push_cast
    ring
  rw [hR.h11, hR.h22, hR.h33, hR.h12, hR.h13, hR.h23] at key
  have h1 : ((R.det : ℤ) : K) ^ 2 = 1 := by
    have : (((R.det : ℤ) : K) ^ 2 - 1) * D3 a b c p q r = 0 := by linear_combination -key
    rcases mul_eq_zero.1 this with h0 | h0
    · linear_combination h0
    · exact absurd h0 hD
  have h2 : R.det ^ 2 = 1 := by exact_mod_cast h1
  rcases mul_eq_zero.1 (show (R.det - 1) * (R.det + 1) = 0 by linear_combination h2) with h3 | h3
  · exact Or.inl (by omega)
  · exact Or.inr (by omega)

theorem int_unit_small {x m : ℤ} (h : x * m = 1 ∨ x * m = -1) : -1 ≤ x ∧ x ≤ 1 := by
  have hu : x = 1 ∨ x = -1 := by
    rcases h with h | h
    · exact Int.isUnit_iff.1 (IsUnit.of_mul_eq_one m h)
    · exact Int.isUnit_iff.1 (IsUnit.of_mul_eq_one (-m) (by rw [mul_neg, h]; rfl))
  omega

/-- **Automorphisms of a Minkowski-reduced positive definite ternary form have entries in {-1,0,1}.** -/
theorem aut_small (h : Red a b c p q r) (ha : 0 < a) (R : M3) (hR : IsAut a b c p q r R) :
    R.small = true := by
  have hdet := aut_det (ne_of_gt (D3_pos h ha)) R hR
  -- some column with non-zero last coordinate
  have hrow : R.g ≠ 0 ∨ R.h ≠ 0 ∨ R.i ≠ 0 := by
    by_contra hcon
    simp only [not_or, not_not] at hcon
    obtain ⟨h1, h2, h3⟩ := hcon
    simp only [M3.det, h1, h2, h3] at hdet
    omega
  have c1 := col_small h ha R.a R.d R.g (by rw [hR.h11]; exact le_trans h.ab h.bc)
    (fun _ => by rw [hR.h11]; exact h.ab)
    (fun hy hz => int_unit_small (m := R.e * R.i - R.f * R.h) (by
      simp only [M3.det, hy, hz] at hdet
      rcases hdet with hd | hd
      · left; linarith
      · right; linarith))
  have c2 := col_small h ha R.b R.e R.h (by rw [hR.h22]; exact h.bc)
    (fun _ => by rw [hR.h22])
    (fun hy hz => int_unit_small (m := -(R.d * R.i - R.f * R.g)) (by
      simp only [M3.det, hy, hz] at hdet
      rcases hdet with hd | hd
      · left; linarith
      · right; linarith))
  have c3 := col_small h ha R.c R.f R.i (by rw [hR.h33])
    (fun hz => by
      rw [hR.h33]
      rcases hrow with hg | hh | hi
      · have t := third h R.a R.d R.g hg
        rw [hR.h11] at t
        exact le_trans t h.ab
      · have t := third h R.b R.e R.h hh
        rw [hR.h22] at t
        exact t
      · exact absurd hz hi)
    (fun hy hz => int_unit_small (m := R.d * R.h - R.e * R.g) (by
      simp only [M3.det, hy, hz] at hdet
      rcases hdet with hd | hd
      · left; linarith
      · right; linarith))
  obtain ⟨⟨a1, a2⟩, ⟨d1, d2⟩, ⟨g1, g2⟩⟩ := c1
  obtain ⟨⟨b1, b2⟩, ⟨e1, e2⟩, ⟨k1, k2⟩⟩ := c2
  obtain ⟨⟨f1, f2⟩, ⟨i1, i2⟩, ⟨j1, j2⟩⟩ := c3
  simp only [M3.small, M3.toList, List.all_cons, List.all_nil, Bool.and_true, Bool.and_eq_true,
    decide_eq_true_eq]
  omega

end Moyo.Minima

/-! ### Bridge to rational bases (`QM3`, model of `Lattice`) -/
namespace Moyo.Reduce
open Moyo

/-- `|B n|²` is the ternary form of the Gram entries of `B`. -/
theorem normSq_comb (B : QM3) (v : Z3) : (comb B v).normSq =
    Minima.Q3 (colsq B 0) (colsq B 1) (colsq B 2) (cdot B 0 1) (cdot B 0 2) (cdot B 1 2) v.x v.y v.z := by
  simp only [comb, QM3.apply, Q3.normSq, Q3.dot, colsq, cdot, QM3.col, Minima.Q3]
  ring

/-- The twelve conditions of `is_minkowski_reduced` (`EPS = 0`; the four conjuncts of `C14.MinkowskiReduced0`)
are `Minima.Red` on the Gram entries. -/
theorem red_of_twelve (B : QM3) (h1 : colsq B 0 ≤ colsq B 1) (h2 : colsq B 1 ≤ colsq B 2)
    (h3 : ∀ v ∈ ([⟨1, -1, 0⟩, ⟨1, 1, 0⟩] : List Z3), colsq B 1 ≤ (comb B v).normSq)
    (h4 : ∀ v ∈ ([⟨1, 0, 1⟩, ⟨1, 0, -1⟩, ⟨0, 1, 1⟩, ⟨0, 1, -1⟩, ⟨1, -1, -1⟩, ⟨1, -1, 1⟩, ⟨1, 1, -1⟩, ⟨1, 1, 1⟩] : List Z3),
      colsq B 2 ≤ (comb B v).normSq) :
    Minima.Red (colsq B 0) (colsq B 1) (colsq B 2) (cdot B 0 1) (cdot B 0 2) (cdot B 1 2) := by
  have e := fun v hv => (normSq_comb B v) ▸ h3 v hv
  have f := fun v hv => (normSq_comb B v) ▸ h4 v hv
  have e1 := e ⟨1, -1, 0⟩ (by simp)
  have e2 := e ⟨1, 1, 0⟩ (by simp)
  have f1 := f ⟨1, 0, 1⟩ (by simp)
  have f2 := f ⟨1, 0, -1⟩ (by simp)
  have f3 := f ⟨0, 1, 1⟩ (by simp)
  have f4 := f ⟨0, 1, -1⟩ (by simp)
  have f5 := f ⟨1, -1, -1⟩ (by simp)
  have f6 := f ⟨1, -1, 1⟩ (by simp)
  have f7 := f ⟨1, 1, -1⟩ (by simp)
  have f8 := f ⟨1, 1, 1⟩ (by simp)
  simp only [Minima.Q3] at e1 e2 f1 f2 f3 f4 f5 f6 f7 f8
  push_cast at e1 e2 f1 f2 f3 f4 f5 f6 f7 f8
  constructor <;> linarith

/-- A non-singular basis has a non-zero first column. -/
theorem colsq0_pos (B : QM3) (hB : B.det ≠ 0) : 0 < colsq B 0 := by
  have h0 : 0 ≤ colsq B 0 := by
    simp only [colsq, QM3.col, Q3.normSq, Q3.dot]
    nlinarith [mul_self_nonneg B.a, mul_self_nonneg B.d, mul_self_nonneg B.g]
  rcases eq_or_lt_of_le h0 with h | h
  · exfalso
    simp only [colsq, QM3.col, Q3.normSq, Q3.dot] at h
    have ha : B.a = 0 := by nlinarith [mul_self_nonneg B.a, mul_self_nonneg B.d, mul_self_nonneg B.g]
    have hd : B.d = 0 := by nlinarith [mul_self_nonneg B.a, mul_self_nonneg B.d, mul_self_nonneg B.g]
    have hg : B.g = 0 := by nlinarith [mul_self_nonneg B.a, mul_self_nonneg B.d, mul_self_nonneg B.g]
    apply hB
    simp only [QM3.det, ha, hd, hg]
    ring
  · exact h

/-- `Rᵀ (BᵀB) R = BᵀB` in the component form `Minima.IsAut`. -/
theorem isAut_of_gram (B : QM3) (R : M3)
    (hR : ((QM3.ofM3 R).transpose.mul (gram B)).mul (QM3.ofM3 R) = gram B) :
    Minima.IsAut (colsq B 0) (colsq B 1) (colsq B 2) (cdot B 0 1) (cdot B 0 2) (cdot B 1 2) R := by
  simp only [gram, QM3.mul, QM3.transpose, QM3.ofM3, QM3.mk.injEq] at hR
  obtain ⟨e11, e12, e13, -, e22, e23, -, -, e33⟩ := hR
  constructor <;>
    simp only [Minima.Q3, Minima.B3, colsq, cdot, QM3.col, Q3.normSq, Q3.dot]
  · linear_combination e11
  · linear_combination e22
  · linear_combination e33
  · linear_combination e12
  · linear_combination e13
  · linear_combination e23

/-- `gram (B·R) = Rᵀ (gram B) R`. -/
theorem gram_mul (B : QM3) (R : M3) :
    gram (B.mul (QM3.ofM3 R)) = ((QM3.ofM3 R).transpose.mul (gram B)).mul (QM3.ofM3 R) := by
  simp only [gram, QM3.mul, QM3.transpose, QM3.ofM3, QM3.mk.injEq]
  refine ⟨?_, ?_, ?_, ?_, ?_, ?_, ?_, ?_, ?_⟩ <;> ring

/-- `(B u)·(B v)` is the bilinear form of the Gram entries of `B`. -/
theorem dot_comb (B : QM3) (u v : Z3) : (comb B u).dot (comb B v) =
    Minima.B3 (colsq B 0) (colsq B 1) (colsq B 2) (cdot B 0 1) (cdot B 0 2) (cdot B 1 2) u.x u.y u.z v.x v.y v.z := by
  simp only [comb, QM3.apply, Q3.dot, colsq, cdot, QM3.col, Q3.normSq, Minima.B3]
  ring

/-- Every integer vector with coefficients in {-1,0,1} is enumerated by `iproduct!(-1..=1, -1..=1, -1..=1)`. -/
theorem mem_coeffs27 (x y z : ℤ) (hx : -1 ≤ x ∧ x ≤ 1) (hy : -1 ≤ y ∧ y ≤ 1) (hz : -1 ≤ z ∧ z ≤ 1) :
    (⟨x, y, z⟩ : Z3) ∈ SearchBravais.coeffs27 := by
  rcases (by omega : x = -1 ∨ x = 0 ∨ x = 1) with rfl | rfl | rfl <;>
  rcases (by omega : y = -1 ∨ y = 0 ∨ y = 1) with rfl | rfl | rfl <;>
  rcases (by omega : z = -1 ∨ z = 0 ∨ z = 1) with rfl | rfl | rfl <;> decide

theorem small_bounds (R : M3) (h : R.small = true) :
    ((-1 ≤ R.a ∧ R.a ≤ 1) ∧ (-1 ≤ R.d ∧ R.d ≤ 1) ∧ (-1 ≤ R.g ∧ R.g ≤ 1)) ∧
    ((-1 ≤ R.b ∧ R.b ≤ 1) ∧ (-1 ≤ R.e ∧ R.e ≤ 1) ∧ (-1 ≤ R.h ∧ R.h ≤ 1)) ∧
    ((-1 ≤ R.c ∧ R.c ≤ 1) ∧ (-1 ≤ R.f ∧ R.f ≤ 1) ∧ (-1 ≤ R.i ∧ R.i ≤ 1)) := by
  simp only [M3.small, M3.toList, List.all_cons, List.all_nil, Bool.and_true, Bool.and_eq_true,
    decide_eq_true_eq] at h
  omega

end Moyo.Reduce
