import Moyo.Proofs.StdCell
import Mathlib.Tactic.LinearCombination
import Mathlib.Data.List.Perm.Subperm
/-
Helper lemmas for `reynolds_positions` (`Props/C06Stages.lean`): the Reynolds average of the wrapped
displacements is exactly equivariant when the permutations form a compatible action and the
displacements are small.
-/
namespace Moyo.StageStd
open Moyo

/-! ### rounding -/

/-- Component-wise `round`. -/
def roundVec (v : Q3) : Z3 := ⟨ratRound v.x, ratRound v.y, ratRound v.z⟩

theorem wrap_eq (v : Q3) : v.wrap = v.sub (Z3.toQ3 (roundVec v)) := by
  simp [Q3.wrap, Q3.map, ratWrap, Q3.sub, Z3.toQ3, roundVec]

theorem rabs_eq_abs (q : Rat) : rabs q = |q| := by
  unfold rabs
  split
  · rename_i h; rw [abs_of_neg h]
  · rename_i h; rw [abs_of_nonneg (not_lt.mp h)]

theorem absLt3_iff (v : Q3) (b : Rat) : absLt3 v b = true ↔ |v.x| < b ∧ |v.y| < b ∧ |v.z| < b := by
  simp [absLt3, rabs_eq_abs, and_assoc]

/-- An integer vector with all components of absolute value `< 1` is zero. -/
theorem eq_zero_of_int_small {E : Q3} {z : Z3} (hz : E = Z3.toQ3 z) (hs : |E.x| < 1 ∧ |E.y| < 1 ∧ |E.z| < 1) :
    E = Q3.zero := by
  subst hz
  obtain ⟨a, b, c⟩ := z
  simp only [Z3.toQ3] at hs
  obtain ⟨h1, h2, h3⟩ := hs
  have e : ∀ k : Int, |(k : Rat)| < 1 → k = 0 := by
    intro k hk
    have : |k| < 1 := by exact_mod_cast hk
    exact Int.abs_lt_one_iff.mp this
  simp [Z3.toQ3, Q3.zero, e a h1, e b h2, e c h3]

theorem isInt_iff (q : Rat) : isInt q = true ↔ ∃ k : Int, q = k := by
  unfold isInt
  simp only [beq_iff_eq]
  constructor
  · intro h; exact ⟨q.num, (Rat.den_eq_one_iff q |>.mp h).symm⟩
  · rintro ⟨k, rfl⟩; exact Rat.den_intCast k

theorem isInt3_iff (v : Q3) : isInt3 v = true ↔ ∃ z : Z3, v = Z3.toQ3 z := by
  unfold isInt3
  simp only [Bool.and_eq_true, isInt_iff]
  constructor
  · rintro ⟨⟨⟨a, ha⟩, ⟨b, hb⟩⟩, ⟨c, hc⟩⟩
    exact ⟨⟨a, b, c⟩, by cases v; simp_all [Z3.toQ3]⟩
  · rintro ⟨⟨a, b, c⟩, rfl⟩
    exact ⟨⟨⟨a, rfl⟩, ⟨b, rfl⟩⟩, ⟨c, rfl⟩⟩

/-! ### the pointwise identity -/

/-- Pure algebra: with `R_c = R_k R_l`, `t_c ≡ R_k t_l + t_k (mod 1)` and small wrapped displacements,
the image under `g_k` of the representative of `g_l x_a` near `x_i` is the representative of `g_c x_a`
near `x_j`, shifted by the rounding vector of `g_k x_i − x_j` — independently of `l`. -/
theorem pointwise (Rk Rl : M3) (tk tl tc xa xi xj : Q3)
    (ht : ∃ z : Z3, tc.sub ((Rk.applyQ tl).add tk) = Z3.toQ3 z)
    (h1 : |(Rk.applyQ (((Rl.applyQ xa).add tl).sub xi).wrap).x| < 1 / 2 ∧
          |(Rk.applyQ (((Rl.applyQ xa).add tl).sub xi).wrap).y| < 1 / 2 ∧
          |(Rk.applyQ (((Rl.applyQ xa).add tl).sub xi).wrap).z| < 1 / 2)
    (h2 : |((((Rk.applyQ xi).add tk).sub xj).wrap).x| < 1 / 4 ∧ |((((Rk.applyQ xi).add tk).sub xj).wrap).y| < 1 / 4 ∧
          |((((Rk.applyQ xi).add tk).sub xj).wrap).z| < 1 / 4)
    (h3 : |(((((Rk.mul Rl).applyQ xa).add tc).sub xj).wrap).x| < 1 / 4 ∧
          |(((((Rk.mul Rl).applyQ xa).add tc).sub xj).wrap).y| < 1 / 4 ∧
          |(((((Rk.mul Rl).applyQ xa).add tc).sub xj).wrap).z| < 1 / 4) :
    (Rk.applyQ (xi.add (((Rl.applyQ xa).add tl).sub xi).wrap)).add tk =
      (xj.add ((((Rk.mul Rl).applyQ xa).add tc).sub xj).wrap).add (Z3.toQ3 (roundVec (((Rk.applyQ xi).add tk).sub xj))) := by
  obtain ⟨δ, hδ⟩ := ht
  -- name the three wrapped displacements and their rounding vectors
  have el := wrap_eq (((Rl.applyQ xa).add tl).sub xi)
  have ek := wrap_eq (((Rk.applyQ xi).add tk).sub xj)
  have ec := wrap_eq ((((Rk.mul Rl).applyQ xa).add tc).sub xj)
  generalize roundVec (((Rl.applyQ xa).add tl).sub xi) = nl at el
  generalize roundVec (((Rk.applyQ xi).add tk).sub xj) = nk at ek ⊢
  generalize roundVec ((((Rk.mul Rl).applyQ xa).add tc).sub xj) = nc at ec
  generalize (((Rl.applyQ xa).add tl).sub xi).wrap = dl at el h1 ⊢
  generalize (((Rk.applyQ xi).add tk).sub xj).wrap = dk at ek h2
  generalize ((((Rk.mul Rl).applyQ xa).add tc).sub xj).wrap = dc at ec h3 ⊢
  -- the defect `E = R_k d_l + d_k − d_c`
  have hE : ((Rk.applyQ dl).add dk).sub dc = Q3.zero := by
    refine eq_zero_of_int_small (z := (((nc.sub (Rk.apply nl)).sub nk).sub δ)) ?_ ?_
    · subst el ek ec
      obtain ⟨a, b, c, d, e, f, g, h, i⟩ := Rk
      obtain ⟨a', b', c', d', e', f', g', h', i'⟩ := Rl
      obtain ⟨δ1, δ2, δ3⟩ := δ
      simp only [Q3.sub, Q3.add, Z3.toQ3, M3.applyQ, M3.mul, M3.apply, Z3.sub, Q3.mk.injEq] at hδ ⊢
      obtain ⟨hδ1, hδ2, hδ3⟩ := hδ
      refine ⟨?_, ?_, ?_⟩
      · push_cast; linear_combination (-1 : ℚ) * hδ1
      · push_cast; linear_combination (-1 : ℚ) * hδ2
      · push_cast; linear_combination (-1 : ℚ) * hδ3
    · obtain ⟨h11, h12, h13⟩ := h1
      obtain ⟨h21, h22, h23⟩ := h2
      obtain ⟨h31, h32, h33⟩ := h3
      simp only [Q3.sub, Q3.add]
      refine ⟨?_, ?_, ?_⟩
      · calc |(Rk.applyQ dl).x + dk.x - dc.x| ≤ |(Rk.applyQ dl).x + dk.x| + |dc.x| := abs_sub _ _
          _ ≤ |(Rk.applyQ dl).x| + |dk.x| + |dc.x| := by gcongr; exact abs_add_le _ _
          _ < 1 := by linarith
      · calc |(Rk.applyQ dl).y + dk.y - dc.y| ≤ |(Rk.applyQ dl).y + dk.y| + |dc.y| := abs_sub _ _
          _ ≤ |(Rk.applyQ dl).y| + |dk.y| + |dc.y| := by gcongr; exact abs_add_le _ _
          _ < 1 := by linarith
      · calc |(Rk.applyQ dl).z + dk.z - dc.z| ≤ |(Rk.applyQ dl).z + dk.z| + |dc.z| := abs_sub _ _
          _ ≤ |(Rk.applyQ dl).z| + |dk.z| + |dc.z| := by gcongr; exact abs_add_le _ _
          _ < 1 := by linarith
  -- conclude
  rw [M3.applyQ_add]
  generalize Rk.applyQ dl = u at hE ⊢
  generalize Rk.applyQ xi = w at ek ⊢
  obtain ⟨u1, u2, u3⟩ := u
  obtain ⟨w1, w2, w3⟩ := w
  obtain ⟨k1, k2, k3⟩ := dk
  obtain ⟨c1, c2, c3⟩ := dc
  obtain ⟨j1, j2, j3⟩ := xj
  obtain ⟨t1, t2, t3⟩ := tk
  obtain ⟨n1, n2, n3⟩ := nk
  simp only [Q3.sub, Q3.add, Z3.toQ3, Q3.zero, Q3.mk.injEq] at hE ek ⊢
  obtain ⟨hE1, hE2, hE3⟩ := hE
  obtain ⟨ek1, ek2, ek3⟩ := ek
  refine ⟨?_, ?_, ?_⟩ <;> linarith

/-! ### sums of vectors -/

theorem sumQ3_cons (a : Q3) (l : List Q3) : sumQ3 (a :: l) = a.add (sumQ3 l) := rfl

theorem sumQ3_map_add {α : Type} (l : List α) (f g : α → Q3) :
    sumQ3 (l.map fun a => (f a).add (g a)) = (sumQ3 (l.map f)).add (sumQ3 (l.map g)) := by
  induction l with
  | nil => simp [sumQ3, Q3.add, Q3.zero]
  | cons a l ih =>
    simp only [List.map_cons, sumQ3_cons, ih]
    simp only [Q3.add, Q3.mk.injEq]
    refine ⟨?_, ?_, ?_⟩ <;> ring

theorem sumQ3_map_const {α : Type} (l : List α) (c : Q3) :
    sumQ3 (l.map fun _ => c) = Q3.smul (l.length : Rat) c := by
  induction l with
  | nil => simp [sumQ3, Q3.smul, Q3.zero]
  | cons a l ih =>
    simp only [List.map_cons, sumQ3_cons, ih, List.length_cons]
    simp only [Q3.add, Q3.smul, Q3.mk.injEq]
    refine ⟨?_, ?_, ?_⟩ <;> push_cast <;> ring

theorem sumQ3_map_applyQ {α : Type} (R : M3) (l : List α) (f : α → Q3) :
    sumQ3 (l.map fun a => R.applyQ (f a)) = R.applyQ (sumQ3 (l.map f)) := by
  induction l with
  | nil => simp [sumQ3, M3.applyQ, Q3.zero]
  | cons a l ih => simp only [List.map_cons, sumQ3_cons, ih, M3.applyQ_add]

theorem sumQ3_perm {l1 l2 : List Q3} (h : l1.Perm l2) : sumQ3 l1 = sumQ3 l2 := by
  induction h with
  | nil => rfl
  | cons a _ ih => simp only [sumQ3_cons, ih]
  | swap a b l =>
    simp only [sumQ3_cons]
    rw [← Q3.add_assoc, ← Q3.add_assoc, Q3.add_comm b a]
  | trans _ _ ih1 ih2 => exact ih1.trans ih2

/-! ### reading the Boolean hypotheses -/

theorem getD_of_lt {α : Type} {l : List α} {i : Nat} (h : i < l.length) (d : α) : l.getD i d = l[i] := by
  simp [List.getD_eq_getElem?_getD, h]

theorem isPerm_spec {n : Nat} {p : List Nat} (h : isPerm n p = true) :
    p.length = n ∧ (∀ j ∈ p, j < n) ∧ p.Nodup ∧ ∀ i, i < n → i ∈ p := by
  unfold isPerm at h
  simp only [Bool.and_eq_true, beq_iff_eq, List.all_eq_true, decide_eq_true_eq, List.mem_range,
    List.contains_iff_mem] at h
  exact ⟨h.1.1.1, h.1.1.2, h.1.2, h.2⟩

theorem perm_getD_lt {n : Nat} {p : List Nat} (h : isPerm n p = true) {a : Nat} (ha : a < n) :
    p.getD a 0 < n := by
  obtain ⟨h1, h2, _, _⟩ := isPerm_spec h
  rw [getD_of_lt (by omega)]
  exact h2 _ (List.getElem_mem _)

theorem permInv_lt {n : Nat} {p : List Nat} (h : isPerm n p = true) {i : Nat} (hi : i < n) :
    permInv p i < n := by
  obtain ⟨h1, _, _, h4⟩ := isPerm_spec h
  unfold permInv
  rw [← h1]
  exact List.idxOf_lt_length_of_mem (h4 i hi)

theorem perm_permInv {n : Nat} {p : List Nat} (h : isPerm n p = true) {i : Nat} (hi : i < n) :
    p.getD (permInv p i) 0 = i := by
  obtain ⟨h1, _, _, h4⟩ := isPerm_spec h
  have hl : permInv p i < p.length := by rw [h1]; exact permInv_lt h hi
  rw [getD_of_lt hl]
  exact List.getElem_idxOf hl

theorem permInv_perm {n : Nat} {p : List Nat} (h : isPerm n p = true) {a : Nat} (ha : a < n) :
    permInv p (p.getD a 0) = a := by
  obtain ⟨h1, _, h3, _⟩ := isPerm_spec h
  have hl : a < p.length := by omega
  rw [getD_of_lt hl]
  exact h3.idxOf_getElem a hl

theorem composes_spec {ops : List OpQ} {perms : List (List Nat)} {n k l c : Nat}
    (h : composes ops perms n k l c = true) :
    (opAt ops c).rot = (opAt ops k).rot.mul (opAt ops l).rot ∧
    (∃ z : Z3, (opAt ops c).trans.sub (((opAt ops k).rot.applyQ (opAt ops l).trans).add (opAt ops k).trans) = Z3.toQ3 z) ∧
    ∀ i, i < n → (permAt perms c).getD i 0 = (permAt perms k).getD ((permAt perms l).getD i 0) 0 := by
  unfold composes at h
  simp only [Bool.and_eq_true, beq_iff_eq, List.all_eq_true, List.mem_range, isInt3_iff] at h
  exact ⟨h.1.1, h.1.2, h.2⟩

theorem compat_spec {ops : List OpQ} {perms : List (List Nat)} {n : Nat} (h : compatAction ops perms n = true) :
    perms.length = ops.length ∧ 0 < ops.length ∧
    (∀ k, k < ops.length → isPerm n (permAt perms k) = true) ∧
    (ops.map (·.rot)).Nodup ∧ (∀ k, k < ops.length → (opAt ops k).rot.det ≠ 0) ∧
    ∀ k, k < ops.length → ∀ l, l < ops.length → ∃ c, c < ops.length ∧ composes ops perms n k l c = true := by
  unfold compatAction at h
  simp only [Bool.and_eq_true, beq_iff_eq, List.all_eq_true, decide_eq_true_eq, List.mem_range,
    List.any_eq_true, bne_iff_ne, ne_eq] at h
  obtain ⟨⟨⟨⟨⟨h1, h2⟩, h3⟩, h4⟩, h5⟩, h6⟩ := h
  refine ⟨h1, h2, ?_, h4, ?_, h6⟩
  · intro k hk
    unfold permAt
    rw [getD_of_lt (by omega)]
    exact h3 _ (List.getElem_mem _)
  · intro k hk
    unfold opAt
    rw [getD_of_lt hk]
    exact h5 _ (List.getElem_mem _)

theorem small_spec {ops : List OpQ} {perms : List (List Nat)} {pos : List Q3} (h : smallDisp ops perms pos = true) :
    ∀ l, l < ops.length → ∀ i, i < pos.length →
      (|(disp pos (opAt ops l) (permAt perms l) i).x| < 1 / 4 ∧ |(disp pos (opAt ops l) (permAt perms l) i).y| < 1 / 4 ∧
        |(disp pos (opAt ops l) (permAt perms l) i).z| < 1 / 4) ∧
      ∀ k, k < ops.length →
        |((opAt ops k).rot.applyQ (disp pos (opAt ops l) (permAt perms l) i)).x| < 1 / 2 ∧
        |((opAt ops k).rot.applyQ (disp pos (opAt ops l) (permAt perms l) i)).y| < 1 / 2 ∧
        |((opAt ops k).rot.applyQ (disp pos (opAt ops l) (permAt perms l) i)).z| < 1 / 2 := by
  unfold smallDisp at h
  simp only [List.all_eq_true, List.mem_range, Bool.and_eq_true, absLt3_iff] at h
  intro l hl i hi
  exact ⟨(h l hl i hi).1, fun k hk => (h l hl i hi).2 k hk⟩

/-! ### the list-level identity -/

/-- `R_k (x_i + d_{l,i}) + t_k = (x_j + d_{c,j}) + N_{k,j}` with `j = π_k i`, `c = k∘l`. -/
theorem pointwise_list {ops : List OpQ} {perms : List (List Nat)} {pos : List Q3}
    (hc : compatAction ops perms pos.length = true) (hs : smallDisp ops perms pos = true)
    {k l c i : Nat} (hk : k < ops.length) (hl : l < ops.length) (hcm : c < ops.length)
    (hcomp : composes ops perms pos.length k l c = true) (hi : i < pos.length) :
    ((opAt ops k).rot.applyQ ((pos.getD i Q3.zero).add (disp pos (opAt ops l) (permAt perms l) i))).add (opAt ops k).trans =
      ((pos.getD ((permAt perms k).getD i 0) Q3.zero).add
          (disp pos (opAt ops c) (permAt perms c) ((permAt perms k).getD i 0))).add
        (Z3.toQ3 (roundVec ((((opAt ops k).rot.applyQ (pos.getD i Q3.zero)).add (opAt ops k).trans).sub
          (pos.getD ((permAt perms k).getD i 0) Q3.zero)))) := by
  obtain ⟨_, _, hperm, _, _, _⟩ := compat_spec hc
  obtain ⟨hrot, htr, hpc⟩ := composes_spec hcomp
  have hpk := hperm k hk
  have hpl := hperm l hl
  have hpcm := hperm c hcm
  have hj : (permAt perms k).getD i 0 < pos.length := perm_getD_lt hpk hi
  have ha : permInv (permAt perms l) i < pos.length := permInv_lt hpl hi
  -- `π_c⁻¹ j = π_l⁻¹ i` and `π_k⁻¹ j = i`
  have e1 : permInv (permAt perms c) ((permAt perms k).getD i 0) = permInv (permAt perms l) i := by
    have := hpc _ ha
    rw [perm_permInv hpl hi] at this
    rw [← this]
    exact permInv_perm hpcm ha
  have e2 : permInv (permAt perms k) ((permAt perms k).getD i 0) = i := permInv_perm hpk hi
  have s1 := small_spec hs l hl i hi
  have s2 := small_spec hs k hk _ hj
  have s3 := small_spec hs c hcm _ hj
  unfold disp at s1 s2 s3 ⊢
  rw [e1, hrot] at s3 ⊢
  rw [e2] at s2
  exact pointwise _ _ _ _ _ _ _ _ htr (s1.2 k hk) s2.1 s3.1

/-- The composition index. -/
def compIdx (ops : List OpQ) (perms : List (List Nat)) (n k l : Nat) : Nat :=
  ((List.range ops.length).find? fun c => composes ops perms n k l c).getD 0

theorem compIdx_spec {ops : List OpQ} {perms : List (List Nat)} {n : Nat} (hc : compatAction ops perms n = true)
    {k l : Nat} (hk : k < ops.length) (hl : l < ops.length) :
    compIdx ops perms n k l < ops.length ∧ composes ops perms n k l (compIdx ops perms n k l) = true := by
  obtain ⟨_, _, _, _, _, h6⟩ := compat_spec hc
  obtain ⟨c, hcl, hcc⟩ := h6 k hk l hl
  unfold compIdx
  cases hf : (List.range ops.length).find? fun c => composes ops perms n k l c with
  | none =>
    rw [List.find?_eq_none] at hf
    exact absurd hcc (by simpa using hf c (List.mem_range.mpr hcl))
  | some c' =>
    simp only [Option.getD_some]
    exact ⟨List.mem_range.mp (List.mem_of_find?_eq_some hf), List.find?_some hf⟩

theorem M3.mul_left_cancel' {g x y : M3} (hd : g.det ≠ 0) (h : g.mul x = g.mul y) : x = y := by
  apply M3.smul_cancel hd
  calc M3.smul g.det x = (g.adj.mul g).mul x := by rw [M3.adj_mul, M3.smul_mul, M3.one_mul]
    _ = (g.adj.mul g).mul y := by rw [M3.mul_assoc, h, ← M3.mul_assoc]
    _ = M3.smul g.det y := by rw [M3.adj_mul, M3.smul_mul, M3.one_mul]

/-- `l ↦ k∘l` permutes the indices. -/
theorem compIdx_perm {ops : List OpQ} {perms : List (List Nat)} {n : Nat} (hc : compatAction ops perms n = true)
    {k : Nat} (hk : k < ops.length) :
    ((List.range ops.length).map (compIdx ops perms n k)).Perm (List.range ops.length) := by
  obtain ⟨_, _, _, hnd, hdet, _⟩ := compat_spec hc
  have hinj : ∀ l ∈ List.range ops.length, ∀ l' ∈ List.range ops.length,
      compIdx ops perms n k l = compIdx ops perms n k l' → l = l' := by
    intro l hl l' hl' he
    rw [List.mem_range] at hl hl'
    have h1 := (composes_spec (compIdx_spec hc hk hl).2).1
    have h2 := (composes_spec (compIdx_spec hc hk hl').2).1
    rw [he, h2] at h1
    have h3 := M3.mul_left_cancel' (hdet k hk) h1
    have hl1 : l < (ops.map (·.rot)).length := by simpa using hl
    have hl2 : l' < (ops.map (·.rot)).length := by simpa using hl'
    have : (ops.map (·.rot))[l] = (ops.map (·.rot))[l'] := by
      simp only [List.getElem_map]
      unfold opAt at h3
      rw [getD_of_lt hl, getD_of_lt hl'] at h3
      exact h3.symm
    exact (hnd.getElem_inj_iff).mp this
  have hnodup : ((List.range ops.length).map (compIdx ops perms n k)).Nodup :=
    List.Nodup.map_on hinj List.nodup_range
  have hsub : (List.range ops.length).map (compIdx ops perms n k) ⊆ List.range ops.length := by
    intro c hcm
    rw [List.mem_map] at hcm
    obtain ⟨l, hl, rfl⟩ := hcm
    exact List.mem_range.mpr (compIdx_spec hc hk (List.mem_range.mp hl)).1
  exact (List.subperm_of_subset hnodup hsub).perm_of_length_le (by simp)

/-- Displacement sum of site `i`. -/
def dispSum (ops : List OpQ) (perms : List (List Nat)) (pos : List Q3) (i : Nat) : Q3 :=
  sumQ3 ((List.range ops.length).map fun l => disp pos (opAt ops l) (permAt perms l) i)

theorem zip_map_eq_range {ops : List OpQ} {perms : List (List Nat)} (h : perms.length = ops.length)
    (f : OpQ → List Nat → Q3) :
    (ops.zip perms).map (fun op => f op.1 op.2) = (List.range ops.length).map fun l => f (opAt ops l) (permAt perms l) := by
  apply List.ext_getElem
  · simp [h]
  · intro l h1 h2
    simp only [List.length_map, List.length_zip, List.length_range] at h1 h2
    simp only [List.getElem_map, List.getElem_zip, List.getElem_range]
    unfold opAt permAt
    rw [getD_of_lt h2, getD_of_lt (by omega)]

theorem symmetrizeOne_eq {ops : List OpQ} {perms : List (List Nat)} (pos : List Q3) (h : perms.length = ops.length)
    (i : Nat) :
    symmetrizeOne ops perms pos i =
      (pos.getD i Q3.zero).add (Q3.smul (1 / (ops.length : Rat)) (dispSum ops perms pos i)) := by
  unfold symmetrizeOne dispSum
  rw [zip_map_eq_range h (fun o p => disp pos o p i), h]

/-- Core of `reynolds_positions`. -/
theorem reynolds_core {ops : List OpQ} {perms : List (List Nat)} {pos : List Q3}
    (hc : compatAction ops perms pos.length = true) (hs : smallDisp ops perms pos = true)
    {k i : Nat} (hk : k < ops.length) (hi : i < pos.length) :
    ((opAt ops k).rot.applyQ (symmetrizeOne ops perms pos i)).add (opAt ops k).trans =
      (symmetrizeOne ops perms pos ((permAt perms k).getD i 0)).add
        (Z3.toQ3 (roundVec ((((opAt ops k).rot.applyQ (pos.getD i Q3.zero)).add (opAt ops k).trans).sub
          (pos.getD ((permAt perms k).getD i 0) Q3.zero)))) := by
  obtain ⟨hlen, hm, _, _, _, _⟩ := compat_spec hc
  rw [symmetrizeOne_eq pos hlen, symmetrizeOne_eq pos hlen]
  -- sum the pointwise identity over `l`
  have hsum : sumQ3 ((List.range ops.length).map fun l =>
        ((opAt ops k).rot.applyQ ((pos.getD i Q3.zero).add (disp pos (opAt ops l) (permAt perms l) i))).add (opAt ops k).trans) =
      sumQ3 ((List.range ops.length).map fun l =>
        ((pos.getD ((permAt perms k).getD i 0) Q3.zero).add
          (disp pos (opAt ops (compIdx ops perms pos.length k l)) (permAt perms (compIdx ops perms pos.length k l))
            ((permAt perms k).getD i 0))).add
        (Z3.toQ3 (roundVec ((((opAt ops k).rot.applyQ (pos.getD i Q3.zero)).add (opAt ops k).trans).sub
          (pos.getD ((permAt perms k).getD i 0) Q3.zero))))) := by
    congr 1
    apply List.map_congr_left
    intro l hl
    rw [List.mem_range] at hl
    obtain ⟨h1, h2⟩ := compIdx_spec hc hk hl
    exact pointwise_list hc hs hk hl h1 h2 hi
  have hperm : sumQ3 ((List.range ops.length).map fun l =>
        disp pos (opAt ops (compIdx ops perms pos.length k l)) (permAt perms (compIdx ops perms pos.length k l))
          ((permAt perms k).getD i 0)) = dispSum ops perms pos ((permAt perms k).getD i 0) := by
    unfold dispSum
    have := (compIdx_perm hc hk).map fun c => disp pos (opAt ops c) (permAt perms c) ((permAt perms k).getD i 0)
    rw [List.map_map] at this
    exact sumQ3_perm this
  rw [sumQ3_map_add, sumQ3_map_applyQ, sumQ3_map_add, sumQ3_map_const, sumQ3_map_const,
    sumQ3_map_add, sumQ3_map_add, sumQ3_map_const, sumQ3_map_const, hperm] at hsum
  simp only [List.length_range] at hsum
  -- divide by the number of operations
  have hm' : (ops.length : Rat) ≠ 0 := by exact_mod_cast (by omega : ops.length ≠ 0)
  generalize (ops.length : Rat) = m at hsum hm' ⊢
  have e : sumQ3 (List.map (fun l => disp pos (opAt ops l) (permAt perms l) i) (List.range ops.length)) =
      dispSum ops perms pos i := rfl
  rw [e] at hsum
  generalize Z3.toQ3 (roundVec ((((opAt ops k).rot.applyQ (pos.getD i Q3.zero)).add (opAt ops k).trans).sub
    (pos.getD ((permAt perms k).getD i 0) Q3.zero))) = N at hsum ⊢
  generalize dispSum ops perms pos i = S1 at hsum ⊢
  generalize dispSum ops perms pos ((permAt perms k).getD i 0) = S2 at hsum ⊢
  generalize pos.getD i Q3.zero = xi at hsum ⊢
  generalize pos.getD ((permAt perms k).getD i 0) Q3.zero = xj at hsum ⊢
  generalize (opAt ops k).rot = R at hsum ⊢
  generalize (opAt ops k).trans = t at hsum ⊢
  obtain ⟨a, b, c, d, e', f, g, h, i'⟩ := R
  obtain ⟨n1, n2, n3⟩ := N
  obtain ⟨p1, p2, p3⟩ := S1
  obtain ⟨q1, q2, q3⟩ := S2
  obtain ⟨x1, x2, x3⟩ := xi
  obtain ⟨y1, y2, y3⟩ := xj
  obtain ⟨t1, t2, t3⟩ := t
  simp only [M3.applyQ, Q3.add, Q3.smul, Q3.mk.injEq] at hsum ⊢
  obtain ⟨h1, h2, h3⟩ := hsum
  refine ⟨?_, ?_, ?_⟩
  · field_simp; linear_combination h1
  · field_simp; linear_combination h2
  · field_simp; linear_combination h3

end Moyo.StageStd
