import Moyo.Model.Tolerance
/-
C08: when the retry loop of `iterative_symmetry_search` gives up it has used its whole budget.
-/
namespace Moyo.Tol

theorem inner_none_length {α : Type} (attempt : Rat → Except String α) :
    ∀ (n : Nat) (h : Handler) (tried : List Rat),
      (inner attempt n h tried).1 = none →
      (inner attempt n h tried).2.2.length = tried.length + n ∧
      ∀ e, e ∈ (inner attempt n h tried).2.2 → e ∈ tried ∨ ∃ err, attempt e = .error err := by
  intro n
  induction n with
  | zero => intro h tried _; simp only [inner]; exact ⟨by simp, fun e he => Or.inl he⟩
  | succ n ih =>
    intro h tried hnone
    simp only [inner] at hnone ⊢
    cases hatt : attempt h.e with
    | ok a => rw [hatt] at hnone; simp at hnone
    | error err =>
      rw [hatt] at hnone
      simp only at hnone ⊢
      have := ih (h.update err) (h.e :: tried) hnone
      refine ⟨by rw [this.1]; simp; omega, ?_⟩
      intro e he
      rcases this.2 e he with hm | hx
      · rcases List.mem_cons.mp hm with rfl | hm
        · exact Or.inr ⟨err, hatt⟩
        · exact Or.inl hm
      · exact Or.inr hx

theorem outer_none_length {α : Type} (attempt : Rat → Except String α) (trials : Nat) :
    ∀ (m : Nat) (e0 : Rat) (tried : List Rat),
      (outer attempt trials m e0 tried).value = none →
      (outer attempt trials m e0 tried).tried.length = tried.length + m * trials ∧
      ∀ e, e ∈ (outer attempt trials m e0 tried).tried → e ∈ tried ∨ ∃ err, attempt e = .error err := by
  intro m
  induction m with
  | zero =>
    intro e0 tried _
    simp only [outer]
    exact ⟨by simp, fun e he => Or.inl (List.mem_reverse.mp he)⟩
  | succ m ih =>
    intro e0 tried hnone
    simp only [outer] at hnone ⊢
    rcases hres : inner attempt trials (Handler.new e0) tried with ⟨v, h', tried'⟩
    rw [hres] at hnone
    cases v with
    | some r => simp at hnone
    | none =>
      simp only at hnone ⊢
      have hin := inner_none_length attempt trials (Handler.new e0) tried (by rw [hres])
      rw [hres] at hin
      simp only at hin
      have := ih h'.e tried' hnone
      refine ⟨by rw [this.1, hin.1, Nat.succ_mul]; omega, ?_⟩
      intro e he
      rcases this.2 e he with hm | hx
      · exact hin.2 e hm
      · exact Or.inr hx

end Moyo.Tol
