-- Root of the `Moyo` library. All modules under Moyo/ are built through the `globs` in lakefile.toml.
import Moyo.Model.IMat
