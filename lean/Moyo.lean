-- This module serves as the root of the `Moyo` library.
-- Import modules here that should be built as part of the library.
import Moyo.Basic
