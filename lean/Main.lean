import Moyo.Model.Wire
import Moyo.Model.HNF
import Moyo.Model.NFSpec
/-
Line-protocol driver for the executable model (`moyo_model`): one request per input line, one
answer per output line.  Import-free (core Lean only) so it links as a native executable.
-/
open Moyo Moyo.Wire

def flat {m n : Nat} (A : IMat m n) : String := intsToString A.toFlat

def cmdHnf (args : List String) : String :=
  match args with
  | ms :: ns :: rest =>
    match ms.toNat?, ns.toNat?, parseInts? rest with
    | some m, some n, some xs =>
      if xs.length ≠ m * n then "bad-op" else
      let res := hnf (IMat.ofFlat m n xs.toArray)
      s!"{flat res.h} ; {flat res.r} ; {if res.completed then 1 else 0}"
    | _, _, _ => "bad-op"
  | _ => "bad-op"

def cmdSnf (args : List String) : String :=
  match args with
  | ms :: ns :: rest =>
    match ms.toNat?, ns.toNat?, parseInts? rest with
    | some m, some n, some xs =>
      if xs.length ≠ m * n then "bad-op" else
      let res := snf (IMat.ofFlat m n xs.toArray)
      s!"{flat res.d} ; {flat res.l} ; {flat res.r} ; {res.rank} ; {if res.completed then 1 else 0}"
    | _, _, _ => "bad-op"
  | _ => "bad-op"

/-- Split a token list at ";" separators. -/
def splitSemi (ts : List String) : List (List String) :=
  let rec go (acc : List String) (out : List (List String)) : List String → List (List String)
    | [] => (acc.reverse :: out).reverse
    | t :: rest => if t = ";" then go [] (acc.reverse :: out) rest else go (t :: acc) out rest
  go [] [] ts

def verdict (vs : List String) : String :=
  if vs.isEmpty then "holds" else "fails: " ++ ", ".intercalate vs

/-- `hnfcheck m n A ; H ; R` : C15 oracle on an implementation output. -/
def cmdHnfCheck (args : List String) : String :=
  match args with
  | ms :: ns :: rest =>
    match ms.toNat?, ns.toNat?, (splitSemi rest).map parseInts? with
    | some m, some n, [some a, some h, some r] =>
      if a.length ≠ m * n || h.length ≠ m * n || r.length ≠ n * n then "bad-op" else
      verdict (hnfSpecViolations (IMat.ofFlat m n a.toArray) (IMat.ofFlat m n h.toArray) (IMat.ofFlat n n r.toArray))
    | _, _, _ => "bad-op"
  | _ => "bad-op"

/-- `snfcheck m n A ; D ; L ; R ; rank` -/
def cmdSnfCheck (args : List String) : String :=
  match args with
  | ms :: ns :: rest =>
    match ms.toNat?, ns.toNat?, (splitSemi rest).map parseInts? with
    | some m, some n, [some a, some d, some l, some r, some [rk]] =>
      if a.length ≠ m * n || d.length ≠ m * n || l.length ≠ m * m || r.length ≠ n * n || rk < 0 then "bad-op" else
      verdict (snfSpecViolations (IMat.ofFlat m n a.toArray) (IMat.ofFlat m n d.toArray)
        (IMat.ofFlat m m l.toArray) (IMat.ofFlat n n r.toArray) rk.toNat)
    | _, _, _ => "bad-op"
  | _ => "bad-op"

def step (line : String) : String :=
  match tokens line with
  | "hnf" :: args => cmdHnf args
  | "snf" :: args => cmdSnf args
  | "hnfcheck" :: args => cmdHnfCheck args
  | "snfcheck" :: args => cmdSnfCheck args
  | _ => "bad-op"

partial def loop (hin : IO.FS.Stream) (hout : IO.FS.Stream) : IO Unit := do
  let line ← hin.getLine
  if line.isEmpty then return ()
  hout.putStrLn (step line)
  loop hin hout

def main : IO Unit := do
  let hin ← IO.getStdin
  let hout ← IO.getStdout
  loop hin hout
