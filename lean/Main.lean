import Moyo.Model.Wire
import Moyo.Model.HNF
import Moyo.Model.NFSpec
import Moyo.Model.Hall
import Moyo.Model.DriverC08
import Moyo.Model.DriverC14
import Moyo.Model.DriverC16
import Moyo.Model.DriverPipe
import Moyo.Model.DriverC07
import Moyo.Model.DriverStage
import Moyo.Model.DriverS13
import Moyo.Model.DriverS5
import Moyo.Model.DriverS6
import Moyo.Model.DriverS9
import Moyo.Model.DriverC19
import Moyo.Model.DriverC20
import Moyo.Model.DriverMag
import Moyo.Model.DriverMagStage
import Moyo.Model.DriverMagId
import Moyo.Generated.HallTable
import Moyo.Generated.ArithTable
import Moyo.Generated.MagTable
import Moyo.Generated.WyckoffTable
import Moyo.Generated.Constants
/-
Line-protocol driver for the executable model (`moyo_model`): one request per input line, one
answer per output line.  Import-free (core Lean only) so it links as a native executable.
-/
open Moyo Moyo.Wire

def flat {m n : Nat} (A : IMat m n) : String := intsToString A.toFlat

def cmdHnf (args : List String) : String :=
  match args with
  | ms :: ns :: rest =>
    match ms.toNat?, ns.toNat?, parseInts? rest with
    | some m, some n, some xs =>
      if xs.length ≠ m * n then "bad-op" else
      let res := hnf (IMat.ofFlat m n xs.toArray)
      s!"{flat res.h} ; {flat res.r} ; {if res.completed then 1 else 0}"
    | _, _, _ => "bad-op"
  | _ => "bad-op"

def cmdSnf (args : List String) : String :=
  match args with
  | ms :: ns :: rest =>
    match ms.toNat?, ns.toNat?, parseInts? rest with
    | some m, some n, some xs =>
      if xs.length ≠ m * n then "bad-op" else
      let res := snf (IMat.ofFlat m n xs.toArray)
      s!"{flat res.d} ; {flat res.l} ; {flat res.r} ; {res.rank} ; {if res.completed then 1 else 0}"
    | _, _, _ => "bad-op"
  | _ => "bad-op"

/-- Split a token list at ";" separators. -/
def splitSemi (ts : List String) : List (List String) :=
  let rec go (acc : List String) (out : List (List String)) : List String → List (List String)
    | [] => (acc.reverse :: out).reverse
    | t :: rest => if t = ";" then go [] (acc.reverse :: out) rest else go (t :: acc) out rest
  go [] [] ts

def verdict (vs : List String) : String :=
  if vs.isEmpty then "holds" else "fails: " ++ ", ".intercalate vs

/-- `hnfcheck m n A ; H ; R` : C15 oracle on an implementation output. -/
def cmdHnfCheck (args : List String) : String :=
  match args with
  | ms :: ns :: rest =>
    match ms.toNat?, ns.toNat?, (splitSemi rest).map parseInts? with
    | some m, some n, [some a, some h, some r] =>
      if a.length ≠ m * n || h.length ≠ m * n || r.length ≠ n * n then "bad-op" else
      verdict (hnfSpecViolations (IMat.ofFlat m n a.toArray) (IMat.ofFlat m n h.toArray) (IMat.ofFlat n n r.toArray))
    | _, _, _ => "bad-op"
  | _ => "bad-op"

/-- `snfcheck m n A ; D ; L ; R ; rank` -/
def cmdSnfCheck (args : List String) : String :=
  match args with
  | ms :: ns :: rest =>
    match ms.toNat?, ns.toNat?, (splitSemi rest).map parseInts? with
    | some m, some n, [some a, some d, some l, some r, some [rk]] =>
      if a.length ≠ m * n || d.length ≠ m * n || l.length ≠ m * m || r.length ≠ n * n || rk < 0 then "bad-op" else
      verdict (snfSpecViolations (IMat.ofFlat m n a.toArray) (IMat.ofFlat m n d.toArray)
        (IMat.ofFlat m m l.toArray) (IMat.ofFlat n n r.toArray) rk.toNat)
    | _, _, _ => "bad-op"
  | _ => "bad-op"

def hopToString (o : HOp) : String :=
  intsToString (o.rot.toList ++ o.trans.toList ++ [if o.tr then 1 else 0])

def hopsToString (os : List HOp) : String := " | ".intercalate (os.map hopToString)

/-- `hall <symbol>` / `mhall <symbol>`: centering ; generators ; traverse ; primitive generators ; primitive traverse. -/
def cmdHall (magnetic : Bool) (sym : String) : String :=
  match (if magnetic then HallSymbol.newMagnetic sym else HallSymbol.new sym) with
  | none => "none"
  | some hs =>
    match hs.traverse, hs.primitiveTraverse with
    | some ops, some pops =>
      s!"{hs.centering.toString} ; {hopsToString hs.generators} ; {hopsToString ops} ; {hopsToString hs.primitiveGenerators} ; {hopsToString pops}"
    | _, _ => "none"

open Moyo.Generated in
/-- Rows of the regenerated tables, printed as the harness prints the running code's rows. -/
def cmdEntry (kind : String) (arg : String) : String :=
  match kind, arg.toNat? with
  | "hallentry", some n =>
    if n = 0 then "none" else
    match hallTable[n - 1]? with
    | none => "none"
    | some e => s!"{e.hallNumber} {e.number} {e.arithmeticNumber} |{e.setting}|{e.hallSymbol}|{e.hmShort}|{e.hmFull}|{e.centering}"
  | "magentry", some n =>
    if n = 0 then "none" else
    match magHallTable[n - 1]?, magTypeTable[n - 1]? with
    | some h, some t => s!"{h.uniNumber} |{h.symbol}| {t.uniNumber} {t.litvinNumber} |{t.bnsNumber}|{t.ogNumber}| {t.number} {t.constructType}"
    | _, _ => "none"
  | "arithentry", some n =>
    if n = 0 then "none" else
    match arithTable[n - 1]? with
    | none => "none"
    | some e => s!"{e.arithmeticNumber} |{e.symbol}| {e.geometricClass} {e.bravaisClass}"
  | _, _ => "bad-op"

/-- Core commands (normal forms, Hall symbols, table rows). `none` = not one of ours. -/
def stepCore (line : String) : Option String :=
  let cs := (line.toList.reverse.dropWhile (fun c => c = '\n' || c = '\r')).reverse
  if "hall ".toList.isPrefixOf cs then some (cmdHall false (String.ofList (cs.drop 5))) else
  if "mhall ".toList.isPrefixOf cs then some (cmdHall true (String.ofList (cs.drop 6))) else
  if cs = "hall".toList then some (cmdHall false "") else
  if cs = "mhall".toList then some (cmdHall true "") else
  some <| match tokens line with
  | "hnf" :: args => cmdHnf args
  | "snf" :: args => cmdSnf args
  | "hnfcheck" :: args => cmdHnfCheck args
  | "snfcheck" :: args => cmdSnfCheck args
  | [kind, arg] =>
    if kind = "settings" then
      (if arg = "spglib" then natsToString Moyo.Generated.spglibHallNumbers.toList
       else if arg = "standard" then natsToString Moyo.Generated.standardHallNumbers.toList else "bad-op")
    else cmdEntry kind arg
  | _ => "bad-op"

/-- Handler chain: each handler takes the raw request line and answers `some reply` if the command
is its own.  Add new handlers (one per driver module `Moyo/Model/Driver*.lean`) BEFORE `stepCore`. -/
def handlers : List (String → Option String) := [
  Moyo.DriverC07.step?,
  Moyo.DriverPipe.step?,
  Moyo.DriverStage.step?,
  Moyo.DriverS13.step?,
  Moyo.DriverS5.step?,
  Moyo.DriverS6.step?,
  Moyo.DriverS9.step?,
  Moyo.DriverC08.step?,
  Moyo.DriverC14.step?,
  Moyo.DriverC16.step?,
  Moyo.DriverC19.step?,
  Moyo.DriverC20.step?,
  Moyo.DriverMag.step?,
  Moyo.DriverMagStage.step?,
  Moyo.DriverMagId.step?,
  stepCore
]

def step (line : String) : String :=
  match handlers.findSome? (fun h => h line) with
  | some r => r
  | none => "bad-op"

partial def loop (hin : IO.FS.Stream) (hout : IO.FS.Stream) : IO Unit := do
  let line ← hin.getLine
  if line.isEmpty then return ()
  hout.putStrLn (step line)
  loop hin hout

def main : IO Unit := do
  let hin ← IO.getStdin
  let hout ← IO.getStdout
  loop hin hout
