#!/usr/bin/env python3
"""Write /verif/MANIFEST.json from the table below (kept in one place so it stays valid)."""
import json, os
V = os.path.dirname(os.path.dirname(os.path.abspath(__file__)))
ids = [json.loads(l)["id"] for l in open(os.path.join(V, "properties.jsonl"))]

CHECKS = {
 "C15": dict(
  category="proof",
  text=("Kernel-checked theorems about the Lean model of HNF::new / SNF::new for every shape m x n and every integer matrix: "
        "H = A*R, D = L*A*R, two-sided integer inverses of R and L, lower-triangular / non-negative / left-reduced shape of H, "
        "diagonal non-negative D, rank(D) = rank over Q, termination of both loops (fuel never exhausted), and the supercell coset "
        "theorem. The model is tied to the Rust code by exact equality of every output factor on an exhaustive 3x3 box and on "
        "random / harvested systems of the shapes the library uses; a disagreement triggers the Lean C15 oracle on the "
        "implementation's own outputs to look for a failing matrix."),
  design_ref="DESIGN.md §3 C15",
  note=("Trusted: Lean kernel + {propext, Classical.choice, Quot.sound}; hand-written model (tie = differential test, exhaustive only on "
        "the 3x3 boxes); Rust i32 modelled as unbounded Int (no wrap is observed through exact equality, not proved)."),
  technique="Lean 4 proof (induction over elementary column/row operations, termination measure) + model/implementation correspondence"),
 "C18": dict(
  category="other",
  text=("Three layers. (1) Lean theorems: any adaptive program that uses a hash map only through the lookup-only interface (insert, get, "
        "contains_key, entry/or_insert, len, index, remove) observes the same results under every iteration order an adversary "
        "can choose (refinement to the abstract map Key -> Option Val), with the negative twin for iter().next(); k threads racing on a "
        "lazily initialised global with a pure initialiser all read the same value under every schedule. (2) A regenerated source "
        "inventory (every static/Lazy/thread_local, every HashMap/HashSet binding with every method called on it, RNG/clock/env use) "
        "with kernel-decided table theorems: all hash containers are lookup-only, nothing escapes, statics are pure Lazy tables. "
        "(3) Exploration of what no model shows: byte-for-byte comparison of serialized datasets across fresh processes (independent "
        "hash seeds), repeated calls, random call histories, and 16 threads incl. first touch of the lazy tables under contention."),
  design_ref="DESIGN.md §3 C18",
  note=("Trusted: once_cell's at-most-once store (modelled as an assumption), the tokenising inventory translator, the OS scheduler being "
        "sampled not enumerated. Real thread interleavings inside moyo are not modelled (moyo has no shared mutable state per the inventory)."),
  technique="Lean 4 refinement proofs (order-free map interface, lazy-init state machine) + regenerated source inventory decided in the kernel + multi-process/thread differential runs",
  engine="lean-proofs+inventory+exploration"),
 "C20": dict(
  category="translation_validation",
  text=("The Python view is validated against the Rust values it is translated from: for every generated input and keyword combination, "
        "every attribute of every Python class is compared with the Rust value computed in-process by the harness (floats bitwise, "
        "orientation of every matrix exactly, non-symmetric matrices throughout), and a bad-argument stream must raise ValueError "
        "(never PanicException). Behind it, Lean theorems about a model of nalgebra's column-major storage (which conversion yields rows "
        "vs. the transpose; Lattice::new round trip) and kernel-decided table theorems over the regenerated getter/signature/error "
        "inventory of moyopy/src (documented orientation per getter, defaults, MoyoError -> ValueError, unwrap inventory)."),
  design_ref="DESIGN.md §3 C20",
  note=("Trusted: CPython, pyo3, the extension build (release profile; debug profile for the bad-argument stream in thorough), the "
        "tokenising translator (validated against the running code), the storage model (compared with real nalgebra conversions on every run)."),
  technique="translation validation: Python attributes vs Rust values on generated inputs + Lean storage-layout theorems + regenerated binding inventory decided in the kernel",
  engine="lean-proofs+inventory+python-differential"),
}

NA_REASON = "check not built yet (work in progress; will be claimed)"

def main():
    checks = []
    for pid in ids:
        if pid not in CHECKS:
            continue
        c = CHECKS[pid]
        checks.append({
            "property_id": pid,
            "quick_cmd": f"python3 check.py {pid} --tier quick",
            "thorough_cmd": f"python3 check.py {pid} --tier thorough",
            "evidence_file": f"/verif/evidence/{pid}.json",
            "replay_cmd_template": f"python3 check.py {pid} --replay {{path}}",
            "engine": c.get("engine", "lean-proofs+correspondence"),
            "level_claimed": {"category": c["category"], "text": c["text"], "design_ref": c["design_ref"]},
            "level_note": c["note"],
            "technique": c["technique"],
        })
    m = {
        "version": 1,
        "setup_cmd": "bash /verif/setup.sh",
        "hooks": {
            "guard": "cargo feature `verif` of the moyo crate",
            "enable": "the harness crate depends on moyo with features = [\"verif\"] (path /repo/moyo), built into /verif/.cache/target",
            "baseline_off_cmd": "cd /repo && cargo test --workspace --no-fail-fast --offline",
            "source_commits": [l.strip() for l in open(os.path.join(V, "hooks_commits.txt"))] if os.path.exists(os.path.join(V, "hooks_commits.txt")) else [],
            "add_only": True,
        },
        "engines": [
            {"name": "lean-proofs", "path": "/verif/lean/Moyo/Props", "serves_properties": sorted(CHECKS), "kind_free_text": "Lean 4 theorems about the executable model (lake build + #print axioms audit)"},
            {"name": "translator", "path": "/verif/tools/translate.py", "serves_properties": ["C16", "C17", "C03", "C10", "C08"], "kind_free_text": "regenerates Moyo/Generated/*.lean (tables, constants) from /repo on every run"},
            {"name": "correspondence", "path": "/verif/harness + /verif/lean/Main.lean", "serves_properties": sorted(CHECKS), "kind_free_text": "Rust harness calls moyo in-process, Lean model driver answers the same requests, check.py diffs"},
        ],
        "checks": checks,
        "not_applicable": [{"property_id": i, "reason": NA_REASON} for i in ids if i not in CHECKS],
    }
    json.dump(m, open(os.path.join(V, "MANIFEST.json"), "w"), indent=1)

if __name__ == "__main__":
    main()
