#!/usr/bin/env python3
"""Write /verif/MANIFEST.json from the table below (kept in one place so it stays valid)."""
import json, os
V = os.path.dirname(os.path.dirname(os.path.abspath(__file__)))
ids = [json.loads(l)["id"] for l in open(os.path.join(V, "properties.jsonl"))]

PIPE_NOTE = "Trusted: Lean kernel + {propext, Classical.choice, Quot.sound}; the oracle's Lean code is executed compiled (its verdict function is the one the soundness/completeness theorems are about); the harness dump of the dataset (exact dyadic floats); the generator's premise validation (brute-force symmetry search in Rust, independent of moyo); f64 rounding inside moyo is not modelled. The statement for ALL inputs is not proved: the pipeline stages are not yet modelled in Lean, the theorem is about the checker, the quantifier over inputs is explored."

CHECKS = {
 "C15": dict(
  category="proof",
  text=("Kernel-checked theorems about the Lean model of HNF::new / SNF::new for every shape m x n and every integer matrix: "
        "H = A*R, D = L*A*R, two-sided integer inverses of R and L, lower-triangular / non-negative / left-reduced shape of H, "
        "diagonal non-negative D, rank(D) = rank over Q, termination of both loops (fuel never exhausted), det R = det L = +-1, product of the diagonal of H = |det A| and |det D| = |det M| for square matrices, and the supercell coset "
        "theorem. The model is tied to the Rust code by exact equality of every output factor on an exhaustive 3x3 box and on "
        "random / harvested systems of the shapes the library uses; a disagreement triggers the Lean C15 oracle on the "
        "implementation's own outputs to look for a failing matrix. The consequence for supercells (theorem supercell_cosets) is tied to the code by running Transformation::transform_cell on every "
        "3x3 matrix with entries in [-2,2] (thorough [-3,3]) and 1 <= det <= 64: det pairwise distinct sites."),
  design_ref="DESIGN.md §3 C15",
  note=("Trusted: Lean kernel + {propext, Classical.choice, Quot.sound}; hand-written model (tie = differential test, exhaustive only on "
        "the 3x3 boxes); Rust i32 modelled as unbounded Int (no wrap is observed through exact equality, not proved)."),
  technique="Lean 4 proof (induction over elementary column/row operations, termination measure) + model/implementation correspondence"),
 "C18": dict(
  category="other",
  text=("Three layers. (1) Lean theorems: any adaptive program that uses a hash map only through the lookup-only interface (insert, get, "
        "contains_key, entry/or_insert, len, index, remove) observes the same results under every iteration order an adversary "
        "can choose (refinement to the abstract map Key -> Option Val), with the negative twin for iter().next(); k threads racing on a "
        "lazily initialised global with a pure initialiser all read the same value under every schedule. (2) A regenerated source "
        "inventory (every static/Lazy/thread_local, every HashMap/HashSet binding with every method called on it, RNG/clock/env use) "
        "with kernel-decided table theorems: all hash containers are lookup-only, nothing escapes, statics are pure Lazy tables. "
        "(3) Exploration of what no model shows: byte-for-byte comparison of serialized datasets across fresh processes (independent "
        "hash seeds), repeated calls, random call histories, and 16 threads incl. first touch of the lazy tables under contention."),
  design_ref="DESIGN.md §3 C18",
  note=("Trusted: once_cell's at-most-once store (modelled as an assumption), the tokenising inventory translator, the OS scheduler being "
        "sampled not enumerated. Real thread interleavings inside moyo are not modelled (moyo has no shared mutable state per the inventory)."),
  technique="Lean 4 refinement proofs (order-free map interface, lazy-init state machine) + regenerated source inventory decided in the kernel + multi-process/thread differential runs",
  engine="lean-proofs+inventory+exploration"),
 "C20": dict(
  category="translation_validation",
  text=("The Python view is validated against the Rust values it is translated from: for every generated input and keyword combination, "
        "every attribute of every Python class is compared with the Rust value computed in-process by the harness (floats bitwise, "
        "orientation of every matrix exactly, non-symmetric matrices throughout), and a bad-argument stream must raise ValueError "
        "(never PanicException). Behind it, Lean theorems about a model of nalgebra's column-major storage (which conversion yields rows "
        "vs. the transpose; Lattice::new round trip) and kernel-decided table theorems over the regenerated getter/signature/error "
        "inventory of moyopy/src (documented orientation per getter, defaults, MoyoError -> ValueError, unwrap inventory)."),
  design_ref="DESIGN.md §3 C20",
  note=("Trusted: CPython, pyo3, the extension build (release profile; debug profile for the bad-argument stream in thorough), the "
        "tokenising translator (validated against the running code), the storage model (compared with real nalgebra conversions on every run)."),
  technique="translation validation: Python attributes vs Rust values on generated inputs + Lean storage-layout theorems + regenerated binding inventory decided in the kernel",
  engine="lean-proofs+inventory+python-differential"),

 "C01": dict(
  category="proof",
  text=("Verified oracle: `checkC01` (Lean, exact rational arithmetic, complete periodic-distance decision by the Cauchy-Schwarz box) is proved equivalent "
        "(sound and complete, Props/C01.lean: checkC01_iff) to the mathematical statement of C01 on a dataset: every reported rotation has det +-1, its Cartesian operator preserves the metric within the "
        "tolerance bound, and every atom is carried onto an atom of its species within 4*symprec under periodic boundary conditions. Mechanism theorems for all "
        "inputs: conj_exact (conjugation by the primitive-to-input matrix preserves det, carries the metric defect by congruence and leaves the Cartesian "
        "operator unchanged) and expectedOps_conj. The quantifier over crystals/cells/tolerances is explored: the oracle runs on the real outputs for generated crystals of "
        "all 530 settings, re-based/shifted/rotated cells, supercells (random HNFs up to index 12 and the skew family that exposed the conjugation defect), noise, and pseudo-symmetric crystals (one axis stretched by a few symprec: whatever subgroup is reported, every "
        "operation must preserve the metric)."),
  design_ref="DESIGN.md §3 C01", note=PIPE_NOTE,
  technique="Lean 4 verified oracle (checker = [] <-> Spec, proved) run on implementation outputs + algebraic mechanism theorems"),
 "C02": dict(
  category="proof",
  text=("Verified oracle: `checkC02` is proved sound and complete (Props/C02.lean) for: identity present, no duplicates modulo lattice translations, closure and inverses modulo "
        "translations within 4*symprec (all pairs for <= 48 operations; the exact sub-family checked beyond that is stated in checkC02_group_sound_partial), the count of pure "
        "translations = index of the primitive cell, and equality (both directions, plus count) with the group constructed from the regenerated Hall table conjugated by the generator's "
        "recorded re-description (expectedOps_conj). closed_finite_has_inverses: a finite set of unimodular integer matrices closed under products is a group. Explored over all 530 "
        "settings x re-descriptions and supercells."),
  design_ref="DESIGN.md §3 C02", note=PIPE_NOTE,
  technique="Lean 4 verified oracle incl. completeness against the constructed group + group-theory lemma"),
 "C03": dict(
  category="proof",
  text=("Table theorems (kernel-decided over the regenerated tables, Props/C03.lean): Hall-table indexing, ITA numbers cover 1..230 monotonically, the Spglib table lists the smallest "
        "Hall number of each type, the Standard table the unique entry with setting in {'', b, b1, H, 2}; `expectedHall` is exactly that lookup. The identification itself is decided on "
        "explored inputs: for crystals generated from each of the 530 settings (premise validated by brute force), own and re-described cells and supercells, both conventions, the returned "
        "number and Hall number are compared with the generating setting's type; an Err counts as a violation. The general theorem identify_sound (stage model S5) is not built yet."),
  design_ref="DESIGN.md §3 C03", note=PIPE_NOTE,
  technique="Lean 4 table theorems over regenerated tables + oracle on generated crystals of all 530 settings"),
 "C05": dict(
  category="proof",
  text=("Verified oracle: `checkC05` is proved sound and complete (Props/C05.lean: checkC05_iff, same_prim_site_iff) for every clause of C05: proper rotation, both lattice relations, every input atom carried onto a "
        "std_cell site of its species within 4*symprec and onto exactly prim_std_cell site mapping_std_prim[i], every std_cell site reached (pre-image is an input atom), atom count "
        "N*|det std_linear|, and 'same primitive site <=> related by a reported pure translation'. Explored over all 530 settings (origin shifts always on), supercells, noise."),
  design_ref="DESIGN.md §3 C05", note=PIPE_NOTE,
  technique="Lean 4 verified oracle (sound + complete) run on implementation outputs"),
 "C06": dict(
  category="proof",
  text=("Verified oracle: `checkC06` is proved sound and complete (Props/C06.lean) for: every tabulated operation (Lean Hall-symbol model on the regenerated table, incl. centering translations) of the reported "
        "Hall number maps every std_cell site onto a site of its species within 1e-8 A; std lattice = prim_std lattice x integer matrix of determinant = centering order (= the tabulated "
        "centering matrix outside the monoclinic system); atom counts; prim_std_cell has no non-trivial pure translation; upper-triangular orientation for undistorted input; Pearson symbol from the "
        "regenerated classification tables and, independently, from the ITA number and the lattice letter of the Hall symbol. The Hall-symbol model is tied to the Rust parser by exhaustive correspondence on all 530+1651 table strings. Explored over all settings, both "
        "conventions, requested settings, noise <= 5% symprec."),
  design_ref="DESIGN.md §3 C06", note=PIPE_NOTE,
  technique="Lean 4 verified oracle using the Lean Hall-symbol model on regenerated tables"),
 "C09": dict(
  category="proof",
  text=("Theorems about the Lean model of iterative_symmetry_search/ToleranceHandler for every behaviour of the attempts (Props/C09.lean): if the first attempt succeeds the returned tolerances are "
        "exactly the requested ones; the returned tolerances are those of the last attempt and that attempt succeeded; at most MAX_HANDLER*MAX_TRIALS = 64 attempts (constants regenerated); every tried and the returned tolerance is requested*S^e with -64 <= e <= 64, i.e. positive and finite (Props/C09Bound.lean); the replay function used by the S12 correspondence (recorded ToleranceHandler updates) is proved to be the same fold of ToleranceHandler::update as the model's inner loop within one handler budget (Props/C09Replay.lean). "
        "Decided on explored inputs: noisy twins (<= 5% symprec + strain) and uniformly scaled twins (1e-2..1e3) give the same number, Hall number, operation count and orbit partition as "
        "the undistorted crystal (incl. supercells and shear twins with an explicit radian tolerance just wide enough for the allowed strain), and the returned tolerances equal the requested ones, positive. noise_accept / rough_match_unique of the design are not proved."),
  design_ref="DESIGN.md §3 C09", note=PIPE_NOTE,
  technique="Lean 4 proof about the tolerance-handler state machine + metamorphic twins judged by the Lean oracle"),
 "C10": dict(
  category="proof",
  text=("Oracle-level theorems (Props/C10.lean): for a request Setting::HallNumber(h) the Lean oracle reports (i) a dataset returned although h is out of 1..=530 or of another type than the crystal, "
        "(ii) a refusal of a matching request, (iii) a returned Hall number different from h; out-of-range is exactly outside 1..=530 of the regenerated table. The std_cell invariance under the tabulated "
        "operations of h is the verified C06 clause, counted for C10 on explicit requests. Explored: all 530 Hall numbers on matching crystals (own + re-described), neighbouring non-matching types, out-of-range numbers."),
  design_ref="DESIGN.md §3 C10", note=PIPE_NOTE,
  technique="Lean 4 oracle theorems over regenerated tables + exhaustive sweep of the 530 requests on generated crystals"),
 "C14": dict(
  category="proof",
  text=("Theorems for ALL decision traces of the three reductions (whatever the f64 comparisons decide): every Minkowski/Niggli/Delaunay step matrix has det +-1 (Niggli: +1), det T = +1 after the parity fix, "
        "reduced = basis*T, volume and handedness preserved; Delaunay selection (repaired) always returns det +1, with a kernel-checked negative theorem for the pinned selection; gauss2_shortest; "
        "minkowski3_minima: the twelve conditions of is_minkowski_reduced (EPS = 0) imply all three successive minima; soundness/completeness of the exact shortest-vector oracle. Tie: the exact-rational "
        "model (certified sqrt enclosures, fragile cases excluded) reproduces T exactly on integer-valued bases of all 14 Bravais types incl. ties and on non-fragile float bases; the oracle judges every output, and an Err of the checked Lattice API on a basis the exact model reduces away from every threshold is a failing input."),
  design_ref="DESIGN.md §3 C14",
  note=("Trusted: Lean kernel + standard axioms; hand-written model tied by correspondence; f64 rounding not modelled (fragile comparisons excluded from T comparison, oracle still applies); loop termination "
        "explored only (fuel exhaustion counted). Known finding niggli-unique-elongated (absolute EPS vs |G| > 1e6)."),
  technique="Lean 4 proofs (trace induction, geometry of numbers) + exact-rational decision model correspondence + exact SVP oracle"),
 "C19": dict(
  category="translation_validation",
  text=("The derived serde encoders are validated against a proved-invertible schema model: Lean theorems decode_encode / encode_decode / encode_injective for every schema and well-typed value, "
        "column-major matrix layout, strict decoder rejecting missing/extra/renamed/reordered fields; the schema is regenerated from the Rust sources on every run with kernel-decided theorems that every "
        "reachable type derives both traits and carries no asymmetric serde attribute. Every explored value: Rust round trip compared field by field (floats 1e-15), the Lean decoder must accept the emitted "
        "JSON with exactly the schema's fields and re-encode it identically, matrix entries compared through m[(i,j)] not serde; Python serialize/deserialize/as_dict/from_dict compared with the Rust string."),
  design_ref="DESIGN.md §3 C19",
  note=("Trusted: serde/serde_json/ryu float print+parse within 1e-15 (observed on every value, not proved), the JSON text layer of the model (executed, print(parse s) = s required on every document), "
        "the tokenising translator (validated against emitted keys on every value), CPython/pyo3/pythonize."),
  technique="translation validation of derived encoders against a Lean-proved codec/schema model; regenerated schema decided in the kernel",
  engine="lean-proofs+translator+rust/python-differential"),

 "C04": dict(
  category="other",
  text=("Covariance of the specification is proved in Lean (Props/C04.lean): if an operation maps an atom onto an atom within a distance under periodic boundary conditions, the transported operation does "
        "so in the re-described crystal for origin shift, added lattice vectors, rigid rotation, uniform scaling (distance scaled), and integer change of basis; the mirror-partner map on ITA numbers is an "
        "involution moving exactly the 11 enantiomorphic pairs. The statement about the implementation's answers is metamorphic exploration: the real code runs on a crystal and on a random word of 1-5 "
        "re-descriptions (incl. supercell and mirror image); number, Hall number, Pearson symbol, operations per primitive cell (no-supercell pairs), orbit partition through the recorded site map, Wyckoff "
        "multiplicity and orientation-free site-symmetry symbol per atom are extracted by the Lean driver and must agree. Also distorted crystals (atoms displaced by 0.25-0.45 symprec, premise validated by a brute-force "
        "residual profile) with reordered atoms, and a face scan (origin placed so that an atom lies just inside / outside a cell face), which exposed the kd-tree padding defect repaired in e70d4e6."),
  design_ref="DESIGN.md §3 C04",
  note=("Trusted: generator site map / re-description record, brute-force premise validation, Lean table lookups for multiplicities. Invariance of the implementation's answer for ALL inputs is not proved "
        "(it would follow from completeness of the search, assumptions A-bravais/A-coeff)."),
  technique="Lean 4 covariance theorems for the specification + metamorphic differential runs with invariants extracted by the Lean driver",
  engine="lean-proofs+metamorphic"),

 "C07": dict(
  category="proof",
  text=("Verified oracle + table theorems. Labelling: model of orbits_from_permutations / orbits_in_cell with orbits_spec (labels = least element of the class generated by i ~ pi(i)), "
        "tied by correspondence on random permutation sets; labels_sound: checkC07orbits = [] => same label <=> same generating orbit, label least, letter/symbol constant on orbits. "
        "Wyckoff: wyckoff_sound: checkC07wyckoff = [] => for every atom the stabilizer counted directly in std_cell under the tabulated operations of the reported Hall number satisfies "
        "multiplicity(letter) = #ops/|Stab|, order(point group named by the symbol) = |Stab|, and some atom of the orbit lies on the tabulated coordinate subspace (exhibited n, y). "
        "C16(i) over all 3467 regenerated rows, kernel-decided: every coordinate string parses, generic orbit size = multiplicity, #ops/multiplicity = order of the named point group, letters contiguous, "
        "equal-multiplicity letters generically disjoint. Parser model tied to WyckoffPositionSpace::new by exhaustive correspondence. Explored: atoms on every second (quick) / every (thorough) "
        "tabulated position of every Hall setting + a general-position species, re-described cells, supercells, explicit Hall-number requests, and positions with a free parameter close to a special value "
        "(orbit atoms clustering at 10 symprec .. 1.8 sqrt(symprec)); clause W5: same label <=> related by a tabulated operation in std_cell."),
  design_ref="DESIGN.md §3 C07", note=PIPE_NOTE + " Completeness of the subspace clause (no false alarm) is argued, not proved; moyo's SNF-based assign_wyckoff_position is not modelled.",
  technique="Lean 4 verified oracle (stabilizers in std_cell) + kernel-decided Wyckoff table theorems + parser/orbit-labelling correspondence"),

 "C16": dict(
  category="proof",
  text=("Kernel-decided theorems over the regenerated tables, for all 530 Hall rows, 73 arithmetic classes, 230 numbers, 3467 Wyckoff rows (Props/C16.lean, Props/C16Wyckoff.lean, chunked in Moyo/Tables): every Hall "
        "string parses and its traversal is closed modulo the centring lattice; order and rotation-type histogram equal those of the entry's geometric class; lattice letter = centering field; a kernel-checked unimodular "
        "conjugator onto the representative of the arithmetic class, and the 73 representatives are pairwise non-conjugate in GL3(Z) (invariant-vector certificate with a once-proved lemma); settings sharing an ITA number are "
        "conjugate by a kernel-checked proper affine map; Spglib = smallest / Standard = ITA setting; Wyckoff: parse, generic orbit size = multiplicity, #ops/multiplicity = order of the named point group, letters contiguous, "
        "equal-multiplicity letters disjoint. Certificates are recomputed from the tables on every run. The Lean parser model is tied to the Rust parser by exhaustive correspondence on all table strings."),
  design_ref="DESIGN.md §3 C16",
  note=("Trusted: Lean kernel (decide +kernel, GMP-accelerated Nat), the tokenising translator (validated against the running code's rows), the certificate search (untrusted: certificates are checked in the kernel). "
        "Clause (g) is proved in full (Props/C16Types.lean, types_inequivalent: two table settings with different ITA numbers are never conjugate under a proper affine map with integer linear part of determinant +1 and rational origin shift; "
        "across arithmetic classes by GL3(Z)-non-conjugacy of the point groups, inside a class by a conjugacy invariant - numbers of solutions of word equations in G/mT, rotation subsets, orientation-sensitive determinants for the 11 "
        "enantiomorphic pairs - proved invariant once (count_invariant) and kernel-decided per type from regenerated certificates). Real-valued origin shifts are not quantified over."),
  technique="Lean 4 kernel-decided table theorems over regenerated tables with recomputed certificates + exhaustive parser correspondence",
  engine="lean-proofs+translator+correspondence"),
 "C17": dict(
  category="proof",
  text=("Kernel-decided theorems over the regenerated magnetic tables for all 1651 entries and 230 ranges (Props/C17.lean): every magnetic Hall string parses and is closed; the construct type recomputed from the generated "
        "group equals the table; the family group / unprimed subgroup is the Standard setting of the entry's number under a kernel-checked proper affine map; UNI numbering, BNS prefix, exactly 230 contiguous ranges with the "
        "right number; entries of a range are pairwise different (partial form). Parser model tied to the Rust parser by exhaustive correspondence on all 1651 strings; uni_number_range compared with the running code. "
        "'Identified as itself': the tabulated primitive operations of every UNI number, own setting and re-based settings, go through the real MagneticSpaceGroup::new and must come back with their own UNI number "
        "(2201 rows per quick run, all x 3 in thorough; the Lean model of that function is the s5m stage of C12)."),
  design_ref="DESIGN.md §3 C17",
  note=("Trusted as C16. Pairwise inequivalence is proved in full (Props/C17Types.lean, mag_range_inequivalent: two different UNI entries of one range are never conjugate under a proper affine map preserving the time-reversal flags; "
        "invariant vectors kernel-decided for all 1651 entries; entries of different ranges have different family numbers). The pipeline-level statement is C12."),
  technique="Lean 4 kernel-decided table theorems over regenerated magnetic tables + exhaustive parser correspondence",
  engine="lean-proofs+translator+correspondence"),

 "C08": dict(
  category="proof",
  text=("Three layers. (1) Theorems (Props/C08.lean): the retry loops (plain and magnetic) make at most 64 attempts whatever the attempts return and report exhaustion only after all of them; HNF/SNF terminate "
        "(C15); negative theorems: the uncapped BFS closures diverge on generator sets that pass the pre-checks (explicit shear of infinite order; the Hall-like string P 2 3), positive theorem traverse_capped for the capped "
        "version the repaired tree uses; check_closure_key_present. (2) Panic-site inventory: every unwrap/expect/index/assert/unreachable/panic/unsigned subtraction/division site of the non-test code (regenerated on every "
        "run, 440+ sites) must be matched by a discharge record (guard, invariant lemma, table-derived, known-finding key); kernel-decided all_sites_discharged. (3) Exploration of what no model shows: wild inputs for "
        "both dataset constructors, the reductions, HNF/SNF, table look-ups and a malformed Hall-symbol stream, each request in its own child process with a 4 GB limit and a deadline; S12: recorded tolerance updates vs the "
        "Lean retry model."),
  design_ref="DESIGN.md §3 C08",
  note=("Trusted: the tokenising inventory translator and the hand-written discharge table (low-confidence records are flagged in the table); real time/memory are sampled not proved; termination of the Minkowski/Niggli/"
        "Delaunay loops is explored only. Four known findings (two reductions with time/memory proportional to basis entries, two i32 overflows) are listed in known_findings.txt."),
  technique="Lean 4 proofs (bounded retry, divergence/cap of closures) + regenerated panic-site inventory decided in the kernel + isolated child-process exploration",
  engine="lean-proofs+inventory+isolated-exploration"),
 "C11": dict(
  category="proof",
  text=("Verified oracle (Props/C11.lean): checkC11_iff: the Lean checker is silent iff every reported (R,t,theta) carries every atom onto an atom of its species within 4*symprec whose moment equals the transformed moment "
        "within 4*mag_symprec (both moment kinds, both actions; moment_action proves the model of act_rotation/act_time_reversal incl. the rounded determinant), the set is closed with inverses modulo translations, and it equals "
        "the generating magnetic group conjugated by the recorded re-description; timereversal_index: the theta-free part of a closed finite set is a subgroup of index 1 or 2. Explored: structures generated from a seed-dependent "
        "third of the 1651 magnetic groups (all of them in thorough) x {collinear, non-collinear} x {polar, axial}, re-described cells, premise validated by an independent brute-force magnetic symmetry search; plus weakly canted moments (judged by the truth-independent clauses) and noise of 5 % of the tolerances."),
  design_ref="DESIGN.md §3 C11", note=PIPE_NOTE,
  technique="Lean 4 verified oracle (iff) + moment-action and index theorems, run on generated magnetic structures"),
 "C12": dict(
  category="proof",
  text=("Verified oracle checkC12_iff + kernel-decided table theorems grey_unique / grey_count / grey_fixed (exactly one type-II entry per ITA number). Explored: the returned UNI number equals the generating one for generated "
        "magnetic structures in re-described cells and orientations (moments rotated with the frame), with all moments reversed, and all-zero moments give the grey group of the family space group; an Err counts as a violation. Weakly canted cases are not judged for C12."),
  design_ref="DESIGN.md §3 C12", note=PIPE_NOTE + " Stage s5m: Lean model of MagneticSpaceGroup::new (family / maximal-subgroup construction, construct-type branch, integral normalizer, type-III and type-IV conjugator search) compared with the real function on all 1651 tabulated groups (own + re-based) and on generated crystals; theorems Props/C12Stages.lean (type_branch_sound, identify_mag_sound, normalizer_sound, uni_range_table; completeness for types III/IV partial).",
  technique="Lean 4 oracle + table theorems over regenerated magnetic tables, run on generated magnetic structures"),
 "C13": dict(
  category="proof",
  text=("Verified oracle checkC13_iff for every clause of C13 (lattice relations, atoms and moments carried by the reported transformation onto std_mag_cell / prim_std_mag_cell sites, exact symmetry of std_mag_cell under the "
        "transported reported operations, the tabulated reference-setting operations and — outside type-IV triclinic/monoclinic — the tabulated magnetic operations of the UNI number); reynolds_moments (averaging a linear "
        "representation over a finite group with a compatible site action gives invariant moments); kernel-checked negative instances for the three defects of the pinned tree (frame, site map, origin shift), which were "
        "repaired by fix commits. Explored as C11, plus inputs with noise of 5 % of the tolerances (a fourth defect - type-IV positions not averaged over the anti-translation coset - was found there and repaired). "
        "Stage s6m: Lean model of StandardizedMagneticCell::new compared with the real function; theorems Props/C13Stages.lean (reynolds_moments_exact, std_frame_moments, reference_ops_sound, position invariance)."),
  design_ref="DESIGN.md §3 C13", note=PIPE_NOTE,
  technique="Lean 4 verified oracle (iff) + Reynolds theorem + negative witnesses for the repaired defects"),
}

NA_REASON = "check not built yet (work in progress; will be claimed)"

def main():
    checks = []
    for pid in ids:
        if pid not in CHECKS:
            continue
        c = CHECKS[pid]
        checks.append({
            "property_id": pid,
            "quick_cmd": f"python3 check.py {pid} --tier quick",
            "thorough_cmd": f"python3 check.py {pid} --tier thorough",
            "evidence_file": f"/verif/evidence/{pid}.json",
            "replay_cmd_template": f"python3 check.py {pid} --replay {{path}}",
            "engine": c.get("engine", "lean-proofs+correspondence"),
            "level_claimed": {"category": c["category"], "text": c["text"], "design_ref": c["design_ref"]},
            "level_note": c["note"],
            "technique": c["technique"],
        })
    m = {
        "version": 1,
        "setup_cmd": "bash /verif/setup.sh",
        "hooks": {
            "guard": "cargo feature `verif` of the moyo crate",
            "enable": "the harness crate depends on moyo with features = [\"verif\"] (path /repo/moyo), built into /verif/.cache/target",
            "baseline_off_cmd": "cd /repo && cargo test --workspace --no-fail-fast --offline",
            "source_commits": [l.strip() for l in open(os.path.join(V, "hooks_commits.txt"))] if os.path.exists(os.path.join(V, "hooks_commits.txt")) else [],
            "add_only": True,
        },
        "engines": [
            {"name": "lean-proofs", "path": "/verif/lean/Moyo/Props", "serves_properties": sorted(CHECKS), "kind_free_text": "Lean 4 theorems about the executable model (lake build + #print axioms audit)"},
            {"name": "translator", "path": "/verif/tools/translate.py", "serves_properties": ["C16", "C17", "C03", "C10", "C08"], "kind_free_text": "regenerates Moyo/Generated/*.lean (tables, constants) from /repo on every run"},
            {"name": "correspondence", "path": "/verif/harness + /verif/lean/Main.lean", "serves_properties": sorted(CHECKS), "kind_free_text": "Rust harness calls moyo in-process, Lean model driver answers the same requests, check.py diffs"},
        ],
        "checks": checks,
        "not_applicable": [{"property_id": i, "reason": NA_REASON} for i in ids if i not in CHECKS],
    }
    json.dump(m, open(os.path.join(V, "MANIFEST.json"), "w"), indent=1)

if __name__ == "__main__":
    main()
