#!/usr/bin/env python3
"""Stage S5 translator: regenerates /verif/lean/Moyo/Generated/S5Table.lean from /repo.

Only what `Moyo/Generated/PointGroupTable.lean` (tools/translate_c16.py) does not already contain:
  identify/space_group.rs `correction_transformation_matrices`: the `match geometric_crystal_class`
  arms (`A | B | C => vec![ identity | UnimodularLinear::new(9 ints) … ]`, default arm identity only).
Fails loudly when the function changes shape.  Rewrites the file only when its content changes.
"""
import os
import re
import sys

HERE = os.path.dirname(os.path.abspath(__file__))
sys.path.insert(0, HERE)
import translate as T  # noqa: E402

OUT = os.path.join(T.OUT, "S5Table.lean")


def die(msg):
    print("translate_s5.py: " + msg, file=sys.stderr)
    sys.exit(1)


def body_after(src, start):
    """Brace-delimited text starting at the first '{' at or after `start`; returns (text, end index)."""
    i = src.index("{", start)
    depth, j = 0, i
    while True:
        c = src[j]
        if c == "{":
            depth += 1
        elif c == "}":
            depth -= 1
            if depth == 0:
                return src[i + 1:j], j + 1
        j += 1


def strip_comments(s):
    return re.sub(r"//[^\n]*", "", s)


def parse_vec(text, where):
    """`vec![ … ]` body -> list of 9-int lists."""
    m = re.fullmatch(r"\s*vec!\[(.*)\]\s*,?\s*", text, flags=re.S)
    if not m:
        die(f"{where}: arm body is not a single vec![…]: {text[:80]!r}")
    mats = []
    for item in T.split_args(m.group(1)):
        item = item.strip()
        if not item:
            continue
        if re.fullmatch(r"UnimodularLinear::identity\(\)", item):
            mats.append([1, 0, 0, 0, 1, 0, 0, 0, 1])
            continue
        mm = re.fullmatch(r"UnimodularLinear::new\((.*)\)", item, flags=re.S)
        if not mm:
            die(f"{where}: unrecognised matrix expression {item[:80]!r}")
        nums = [x.strip() for x in mm.group(1).split(",") if x.strip()]
        if len(nums) != 9 or not all(re.fullmatch(r"-?\d+", x) for x in nums):
            die(f"{where}: expected 9 integer literals, got {nums}")
        mats.append([int(x) for x in nums])
    if not mats:
        die(f"{where}: empty matrix list")
    return mats


def translate():
    src = T.strip_tests(T.read("identify/space_group.rs"))
    m = re.search(r"fn correction_transformation_matrices\(", src)
    if not m:
        die("correction_transformation_matrices not found")
    body, _ = body_after(src, m.end())
    body = strip_comments(body)
    mm = re.search(r"let convs = match geometric_crystal_class\s*", body)
    if not mm:
        die("`let convs = match geometric_crystal_class` not found")
    arms_text, end = body_after(body, mm.end())
    rest = body[end:]
    # the part after the match must still be: representative centering, round(L * conv * L^-1), filter det == 1
    for needle in ["PointGroupRepresentative::from_arithmetic_crystal_class(arithmetic_number)",
                   "(centering.linear() * trans_corr).map(|e| e as f64) * centering.inverse()",
                   "corr.map(|e| e.round() as i32)",
                   ".filter(|corr| corr.map(|e| e as f64).determinant().round() as i32 == 1)"]:
        if needle not in rest:
            die(f"post-processing of the correction matrices changed shape (missing `{needle}`)")
    if "arithmetic_crystal_class_entry(arithmetic_number)" not in body[:mm.start()]:
        die("geometric class is no longer taken from arithmetic_crystal_class_entry(arithmetic_number)")
    # split arms: `pattern => { vec![...] }` or `pattern => vec![...],`
    arms = []
    i = 0
    while True:
        k = arms_text.find("=>", i)
        if k < 0:
            break
        pat = arms_text[i:k].strip()
        j = k + 2
        while arms_text[j].isspace():
            j += 1
        if arms_text[j] == "{":
            val, j2 = body_after(arms_text, j)
        else:
            # expression up to the matching top-level comma
            depth, j2 = 0, j
            while j2 < len(arms_text):
                c = arms_text[j2]
                if c in "([{":
                    depth += 1
                elif c in ")]}":
                    depth -= 1
                elif c == "," and depth == 0:
                    break
                j2 += 1
            val = arms_text[j:j2]
            j2 += 1
        arms.append((pat.lstrip(",").strip(), val))
        i = j2
    table, default = [], None
    seen = set()
    for pat, val in arms:
        mats = parse_vec(val, f"arm `{pat[:40]}`")
        if pat == "_":
            default = mats
            continue
        names = [p.strip() for p in pat.split("|")]
        for n in names:
            mn = re.fullmatch(r"GeometricCrystalClass::(\w+)", n)
            if not mn:
                die(f"unrecognised pattern {n!r}")
            if mn.group(1) in seen:
                die(f"class {mn.group(1)} matched twice")
            seen.add(mn.group(1))
            table.append((mn.group(1), mats))
    if default is None:
        die("no default arm")
    return table, default


def lean_mat(v):
    return "⟨" + ", ".join(f"({x})" if x < 0 else str(x) for x in v) + "⟩"


def main():
    table, default = translate()
    lines = ["-- GENERATED by /verif/tools/translate_s5.py from /repo — do not edit.",
             "import Moyo.Model.Geom3",
             "namespace Moyo.Generated", "",
             "/-- `correction_transformation_matrices`: conventional -> conventional(standard) candidates per geometric",
             "crystal class (classes not listed use `corrConvDefault`). -/",
             "def corrConvs : List (String × List M3) := ["]
    rows = []
    for name, mats in table:
        rows.append(f"  (\"{name}\", [" + ", ".join(lean_mat(m) for m in mats) + "])")
    lines.append(",\n".join(rows))
    lines.append("]")
    lines.append("")
    lines.append("def corrConvDefault : List M3 := [" + ", ".join(lean_mat(m) for m in default) + "]")
    lines.append("")
    lines.append("end Moyo.Generated")
    text = "\n".join(lines) + "\n"
    old = open(OUT).read() if os.path.exists(OUT) else None
    if old != text:
        with open(OUT + ".tmp", "w") as f:
            f.write(text)
        os.replace(OUT + ".tmp", OUT)
        print("translate_s5.py: wrote", OUT)


if __name__ == "__main__":
    main()
