#!/usr/bin/env python3
"""T5 — inventory of process-wide and order-sensitive state in moyo's non-test code (property C18).

Reads every .rs file under <src> (default $VERIF_REPO/moyo/src), drops items under `#[cfg(test)]`, and lists
  * every `static`, `static mut`, `Lazy`/`OnceCell`/`lazy_static!`/`thread_local!` (+ `const` names, for the reader),
  * every binding (let / struct field / fn parameter) whose type or constructor is HashMap / HashSet
    (BTreeMap / BTreeSet for contrast) with EVERY use of it in its scope: methods, `[..]` indexing,
    `for .. in map`, `entry(..)` chains (also through a bound `Entry` variable), passing to other functions,
  * every use of RNG, clock, environment, thread id, pointer-address formatting, hasher state, thread spawn,
    file reads, `unsafe`.
Writes Moyo/Generated/C18Inventory.lean as plain data (only when the content changed) and, with --json, the
same data for checks/c18.py together with the list of `offending` entries (the predicate the Lean table
theorems decide).

Deliberately lexical and conservative: a use it cannot classify is recorded as method `other "<text>"`
(outside the lookup-only interface), a hash container that goes where the script cannot follow (returned,
moved, passed to a function that is not an inventoried crate function, nested inside another type, produced
by an itertools method that returns a HashMap) is listed as `escaped`, announced on stderr, and the exit code
is 3 (files are still written, so the obligation shows up undischarged).  Exit 1: a file could not be tokenised.
"""
import argparse
import json
import os
import re
import sys

VERIF = os.path.dirname(os.path.dirname(os.path.abspath(__file__)))
OUT = os.path.join(VERIF, "lean", "Moyo", "Generated", "C18Inventory.lean")
KINDS = {"HashMap": "hashMap", "HashSet": "hashSet", "BTreeMap": "btreeMap", "BTreeSet": "btreeSet"}
HASH_KINDS = {"HashMap", "HashSet"}
CTORS = {"new", "with_capacity", "from", "from_iter", "default", "with_hasher", "with_capacity_and_hasher"}
INTERIOR = {"Mutex", "RwLock", "RefCell", "Cell", "UnsafeCell", "AtomicBool", "AtomicUsize", "AtomicIsize", "AtomicU8",
            "AtomicU16", "AtomicU32", "AtomicU64", "AtomicI8", "AtomicI16", "AtomicI32", "AtomicI64", "AtomicPtr",
            "Condvar", "Once"}
LAZY_HEADS = {"Lazy", "LazyLock", "LazyCell", "OnceCell", "OnceLock"}
# itertools / std adaptors that build a HashMap behind the caller's back and hand it out
HIDDEN_HASH_METHODS = {"counts", "counts_by", "into_group_map", "into_group_map_by", "into_grouping_map",
                       "into_grouping_map_by"}

# method name in Rust -> constructor of Moyo.Shared.Method
METHODS = {
    "insert": "insert", "get": "get", "contains_key": "containsKey", "contains": "contains", "entry": "entry",
    "len": "len", "is_empty": "isEmpty", "remove": "remove",
    "get_mut": "getMut", "iter": "iter", "iter_mut": "iterMut", "keys": "keys", "values": "values",
    "values_mut": "valuesMut", "into_iter": "intoIter", "into_keys": "intoKeys", "into_values": "intoValues",
    "drain": "drain", "retain": "retain", "extend": "extend", "clear": "clear", "clone": "clone",
    "first": "first", "last": "last", "first_key_value": "first", "last_key_value": "last",
    "pop_first": "popFirst", "pop_last": "popLast", "range": "range",
}
LOOKUP_ONLY = {"insert", "get", "containsKey", "contains", "entry", "entryOrInsert", "entryIsOccupied", "len", "isEmpty",
               "index", "remove", "passTo"}


def die(msg):
    print("translate_c18.py: " + msg, file=sys.stderr)
    sys.exit(1)


# ------------------------------------------------------------------------------------------------
# tokeniser

class Tok:
    __slots__ = ("k", "t", "line")

    def __init__(self, k, t, line):
        self.k, self.t, self.line = k, t, line

    def __repr__(self):
        return f"{self.t}@{self.line}"


MULTI = ["..=", "::", "->", "=>", ".."]
IDENT_START = re.compile(r"[A-Za-z_]")
IDENT = re.compile(r"[A-Za-z_][A-Za-z0-9_]*")
NUM = re.compile(r"[0-9][0-9A-Za-z_]*(\.[0-9][0-9A-Za-z_]*)?")


def tokenize(src, path):
    toks = []
    i, n, line = 0, len(src), 1
    while i < n:
        c = src[i]
        if c == "\n":
            line += 1
            i += 1
            continue
        if c.isspace():
            i += 1
            continue
        if src.startswith("//", i):
            j = src.find("\n", i)
            i = n if j < 0 else j
            continue
        if src.startswith("/*", i):
            depth, j = 1, i + 2
            while depth and j < n:
                if src.startswith("/*", j):
                    depth += 1
                    j += 2
                elif src.startswith("*/", j):
                    depth -= 1
                    j += 2
                else:
                    if src[j] == "\n":
                        line += 1
                    j += 1
            if depth:
                die(f"{path}:{line}: unterminated block comment")
            i = j
            continue
        # raw / byte strings
        m = re.match(r"(b?r)(#*)\"", src[i:i + 40])
        if m and (i == 0 or not (src[i - 1].isalnum() or src[i - 1] == "_")):
            hashes = m.group(2)
            end = src.find('"' + hashes, i + len(m.group(0)))
            if end < 0:
                die(f"{path}:{line}: unterminated raw string")
            text = src[i:end + 1 + len(hashes)]
            toks.append(Tok("str", text, line))
            line += text.count("\n")
            i = end + 1 + len(hashes)
            continue
        if c == '"' or (c == "b" and src.startswith('b"', i)):
            j = i + (2 if c == "b" else 1)
            while j < n and src[j] != '"':
                if src[j] == "\\":
                    j += 1
                j += 1
            if j >= n:
                die(f"{path}:{line}: unterminated string")
            text = src[i:j + 1]
            toks.append(Tok("str", text, line))
            line += text.count("\n")
            i = j + 1
            continue
        if c == "'":
            # char literal or lifetime
            m = re.match(r"'(\\.[^']*|[^\\'])'", src[i:i + 14])
            if m:
                toks.append(Tok("chr", m.group(0), line))
                i += len(m.group(0))
                continue
            m = IDENT.match(src, i + 1)
            if m:
                toks.append(Tok("life", "'" + m.group(0), line))
                i = m.end()
                continue
            die(f"{path}:{line}: stray quote")
        if IDENT_START.match(c):
            m = IDENT.match(src, i)
            toks.append(Tok("id", m.group(0), line))
            i = m.end()
            continue
        if c.isdigit():
            m = NUM.match(src, i)
            text = m.group(0)
            # `0..3`: do not swallow the range dots
            if ".." in src[i:i + len(text) + 1] and "." in text:
                text = text.split(".")[0]
            toks.append(Tok("num", text, line))
            i += len(text)
            continue
        for mp in MULTI:
            if src.startswith(mp, i):
                toks.append(Tok("p", mp, line))
                i += len(mp)
                break
        else:
            toks.append(Tok("p", c, line))
            i += 1
    return toks


OPEN = {"(": ")", "[": "]", "{": "}"}
CLOSE = {")": "(", "]": "[", "}": "{"}


def match_forward(toks, i):
    """index of the token closing the bracket opened at i"""
    o = toks[i].t
    c = OPEN[o]
    depth = 0
    for j in range(i, len(toks)):
        if toks[j].k == "p":
            if toks[j].t == o:
                depth += 1
            elif toks[j].t == c:
                depth -= 1
                if depth == 0:
                    return j
    return None


def strip_cfg_test(toks, path):
    """Remove `#[cfg(test)]` (also cfg(all(test, ..))) together with the item it is attached to."""
    out = []
    i = 0
    removed = 0
    while i < len(toks):
        t = toks[i]
        if t.t == "#" and i + 1 < len(toks) and toks[i + 1].t == "[":
            close = match_forward(toks, i + 1)
            if close is None:
                die(f"{path}:{t.line}: unbalanced attribute")
            inner = [x.t for x in toks[i + 2:close]]
            is_test = len(inner) >= 3 and inner[0] == "cfg" and "test" in inner and "not" not in inner
            # verification hooks (`#[cfg(feature = "verif")]`) are not part of the shipped library either
            is_hook = (len(inner) >= 5 and inner[0] == "cfg" and "feature" in inner and "not" not in inner
                       and any(x.strip('"') == "verif" for x in inner))
            is_test = is_test or is_hook
            if is_test:
                j = close + 1
                # further attributes
                while j + 1 < len(toks) and toks[j].t == "#" and toks[j + 1].t == "[":
                    j = match_forward(toks, j + 1) + 1
                depth = 0
                while j < len(toks):
                    x = toks[j]
                    if x.k == "p":
                        if x.t in "([":
                            depth += 1
                        elif x.t in ")]":
                            depth -= 1
                        elif x.t == ";" and depth == 0:
                            j += 1
                            break
                        elif x.t == "{" and depth == 0:
                            e = match_forward(toks, j)
                            if e is None:
                                die(f"{path}:{x.line}: unbalanced braces in cfg(test) item")
                            j = e + 1
                            break
                    j += 1
                removed += 1
                i = j
                continue
        out.append(t)
        i += 1
    return out, removed


# ------------------------------------------------------------------------------------------------
# structure: enclosing fn / struct for every token

class FileInfo:
    pass


def analyse_structure(toks, path):
    n = len(toks)
    fn_of = ["<module>"] * n
    ctx_kind = [None] * n        # innermost brace context kind: fn | struct | impl | mod | static | other
    ctx_name = [None] * n
    sig_of = [None] * n          # inside a fn signature (between `fn name` and its body): index into fns
    after_arrow = [False] * n
    use_stmt = [False] * n
    fns = []                     # dicts: name, sig_start, body_open, body_close, params
    stack = []                   # (kind, name, fnname)
    pending = None               # (kind, name, depth_at_decl)
    paren = 0
    cur_sig = None
    arrow = False
    in_use = False
    i = 0
    while i < n:
        t = toks[i]
        top = stack[-1] if stack else ("module", None, "<module>")
        fn_of[i] = top[2]
        ctx_kind[i], ctx_name[i] = top[0], top[1]
        sig_of[i] = cur_sig
        after_arrow[i] = arrow
        if t.k == "id" and t.t == "use" and (i == 0 or toks[i - 1].t in (";", "}", "{", "]") or toks[i - 1].t == ")" or toks[i - 1].t == "pub"):
            in_use = True
        use_stmt[i] = in_use
        if in_use and t.t == ";":
            in_use = False
        if t.k == "id":
            if t.t == "fn" and i + 1 < n and toks[i + 1].k == "id":
                fns.append({"name": toks[i + 1].t, "sig_start": i, "body_open": None, "body_close": None,
                            "outer": top[2], "impl": top[1] if top[0] == "impl" else None})
                pending = ("fn", toks[i + 1].t, paren)
                cur_sig = len(fns) - 1
                arrow = False
            elif t.t in ("struct", "enum", "union") and i + 1 < n and toks[i + 1].k == "id" and pending is None:
                pending = ("struct" if t.t == "struct" else "other", toks[i + 1].t, paren)
            elif t.t == "impl" and pending is None and top[0] in ("module", "mod"):
                # name = last identifier before `{` that is not in generics: approximate by scanning to `{`
                j = i + 1
                name = None
                depth = 0
                while j < n and not (toks[j].t == "{" and depth == 0):
                    if toks[j].t == "<":
                        depth += 1
                    elif toks[j].t == ">":
                        depth -= 1
                    elif toks[j].k == "id" and depth == 0 and toks[j].t not in ("for", "where", "dyn", "mut"):
                        if toks[j].t == "where":
                            break
                        name = toks[j].t
                    j += 1
                pending = ("impl", name, paren)
            elif t.t == "mod" and i + 1 < n and toks[i + 1].k == "id" and pending is None:
                pending = ("mod", toks[i + 1].t, paren)
            elif t.t == "static" and pending is None:
                j = i + 1
                if j < n and toks[j].t == "mut":
                    j += 1
                if j < n and toks[j].k == "id":
                    pending = ("static", toks[j].t, paren)
        elif t.k == "p":
            if t.t == "->" and cur_sig is not None:
                arrow = True
            if t.t == "(":
                paren += 1
            elif t.t == ")":
                paren -= 1
            elif t.t == "{":
                if pending is not None and paren == pending[2]:
                    kind, name, _ = pending
                    if kind == "fn":
                        fns[cur_sig]["body_open"] = i
                        qual = f"{top[1]}::{name}" if top[0] == "impl" and top[1] else name
                        fns[cur_sig]["qual"] = qual
                        stack.append(("fn", name, qual))
                        cur_sig = None
                        arrow = False
                    elif kind == "static":
                        stack.append(("static", name, f"<static {name}>"))
                    else:
                        stack.append((kind, name, top[2]))
                    pending = None
                else:
                    stack.append(("block", top[1], top[2]))
            elif t.t == "}":
                if not stack:
                    die(f"{path}:{t.line}: unbalanced closing brace")
                k, name, _ = stack.pop()
                if k == "fn":
                    for f in reversed(fns):
                        if f["name"] == name and f["body_open"] is not None and f["body_close"] is None:
                            f["body_close"] = i
                            break
            elif t.t == ";":
                if pending is not None and paren == pending[2]:
                    if pending[0] == "fn":
                        cur_sig = None
                        arrow = False
                    pending = None
        i += 1
    if stack:
        die(f"{path}: unbalanced braces at end of file (open: {stack[-1]})")
    fi = FileInfo()
    fi.fn_of, fi.ctx_kind, fi.ctx_name, fi.sig_of, fi.after_arrow, fi.use_stmt, fi.fns = \
        fn_of, ctx_kind, ctx_name, sig_of, after_arrow, use_stmt, fns
    return fi


def text_of(toks, a, b, limit=160):
    s = " ".join(t.t for t in toks[a:b])
    s = re.sub(r"\s+", " ", s)
    return s[:limit]


# ------------------------------------------------------------------------------------------------
# ambient inputs

def ambient_scan(rel, toks, fi, lo=0, hi=None):
    res = []
    hi = len(toks) if hi is None else hi

    def add(i, what):
        res.append({"file": rel, "fn": fi.fn_of[i], "line": toks[i].line, "what": what,
                    "text": text_of(toks, max(0, i - 3), min(len(toks), i + 5), 100)})

    for i in range(lo, hi):
        t = toks[i]
        nxt = toks[i + 1].t if i + 1 < len(toks) else ""
        prv = toks[i - 1].t if i > 0 else ""
        if t.k == "str":
            if re.search(r"\{[^{}]*:[^{}]*p\}", t.t):
                add(i, "pointerFormat")
            continue
        if t.k != "id":
            continue
        x = t.t
        if x in ("rand", "rand_core", "rand_chacha", "fastrand", "getrandom", "nanorand") and (nxt == "::" or fi.use_stmt[i]):
            add(i, "rng")
        elif x in ("thread_rng", "StdRng", "SmallRng", "OsRng", "ThreadRng", "SeedableRng") or (x in ("random", "rng") and nxt in ("(", "::") and prv == "::"):
            add(i, "rng")
        elif x in ("Instant", "SystemTime", "UNIX_EPOCH", "chrono"):
            add(i, "clock")
        elif x == "env" and nxt == "::":
            add(i, "env")
        elif x == "thread" and nxt == "::" and i + 2 < len(toks):
            y = toks[i + 2].t
            if y in ("current", "ThreadId", "park", "sleep"):
                add(i, "threadId")
            elif y in ("spawn", "scope", "Builder", "available_parallelism"):
                add(i, "threadSpawn")
            elif not fi.use_stmt[i]:
                add(i, "threadSpawn")
        elif x in ("ThreadId",):
            add(i, "threadId")
        elif x in ("rayon", "par_iter", "into_par_iter", "par_iter_mut", "par_bridge", "crossbeam", "tokio"):
            add(i, "threadSpawn")
        elif x in ("RandomState", "DefaultHasher", "BuildHasher", "BuildHasherDefault", "ahash", "fxhash", "FxHashMap",
                   "FxHashSet", "AHashMap", "AHashSet", "hashbrown", "dashmap", "DashMap", "DashSet") or (x == "hasher" and prv == "." and nxt == "("):
            add(i, "hasherState")
        elif (x == "as" and nxt == "*") or (x in ("as_ptr", "as_mut_ptr") and prv == ".") or x in ("addr_of", "addr_of_mut") \
                or (x == "addr" and prv == "." and nxt == "("):
            add(i, "pointerFormat")
        elif (x == "fs" and nxt == "::") or x in ("File", "stdin", "read_to_string", "read_dir", "TcpStream", "UdpSocket"):
            add(i, "fileRead")
        elif x == "process" and nxt == "::" and i + 2 < len(toks) and toks[i + 2].t == "id":
            add(i, "processId")
        elif x == "unsafe":
            add(i, "unsafeCode")
    return res


# ------------------------------------------------------------------------------------------------
# statics / consts

def scan_statics(rel, toks, fi):
    statics, consts = [], []
    n = len(toks)
    i = 0
    while i < n:
        t = toks[i]
        if t.k == "id" and t.t in ("thread_local", "lazy_static") and i + 1 < n and toks[i + 1].t == "!":
            j = i + 2
            end = match_forward(toks, j) if j < n and toks[j].t in OPEN else j
            names = [toks[k + 1 + (1 if toks[k + 1].t in ("ref", "mut") else 0)].t for k in range(j, end) if toks[k].t == "static"]
            statics.append({"file": rel, "name": ",".join(names) or "?", "line": t.line,
                            "cls": "threadLocal" if t.t == "thread_local" else "lazyStatic",
                            "ty": text_of(toks, j, min(end + 1, j + 30), 120), "initPure": False, "refs": []})
            i = end + 1
            continue
        if t.k == "id" and t.t in ("static", "const") and i + 1 < n:
            j = i + 1
            mut = False
            if toks[j].t == "mut":
                mut = True
                j += 1
            if toks[j].k != "id" or toks[j].t == "fn" or j + 1 >= n or toks[j + 1].t != ":":
                i += 1
                continue  # `const fn`, `*const T`, generic `const N: usize` is caught below
            name = toks[j].t
            # generic const parameter `<const N: usize>` / raw pointers: require statement position
            prv = toks[i - 1].t if i > 0 else ";"
            if prv in ("<", ",", "*") and t.t == "const":
                i += 1
                continue
            # type: up to `=` at angle depth 0
            k = j + 2
            depth = 0
            while k < n and not (toks[k].t == "=" and depth == 0) and not (toks[k].t == ";" and depth == 0):
                if toks[k].t in ("<", "(", "["):
                    depth += 1
                elif toks[k].t in (">", ")", "]"):
                    depth -= 1
                k += 1
            ty_a, ty_b = j + 2, k
            # initialiser: up to `;` at depth 0
            e = k
            depth = 0
            while e < n and not (toks[e].t == ";" and depth == 0):
                if toks[e].t in OPEN:
                    depth += 1
                elif toks[e].t in CLOSE:
                    depth -= 1
                e += 1
            if t.t == "const":
                consts.append({"file": rel, "name": name, "line": t.line})
                i = e + 1
                continue
            ty_ids = [x.t for x in toks[ty_a:ty_b] if x.k == "id"]
            head = next((x for x in ty_ids if x not in ("std", "sync", "once_cell", "cell", "unsync", "core")), "")
            if mut:
                cls = "mutable"
            elif any(x in INTERIOR or x.startswith("Atomic") for x in ty_ids):
                cls = "interior"
            elif head in LAZY_HEADS:
                cls = "lazy"
            else:
                cls = "plain"
            amb = ambient_scan(rel, toks, fi, k, e)
            init_ids = [x.t for x in toks[k:e] if x.k == "id"]
            refs = sorted({x for x in init_ids if re.fullmatch(r"[A-Z][A-Z0-9_]{2,}", x)})
            statics.append({"file": rel, "name": name, "line": t.line, "cls": cls, "ty": text_of(toks, ty_a, ty_b, 120),
                            "initPure": not amb, "refs": refs, "_init": (k, e), "_impure": [a["text"] for a in amb]})
            i = e + 1
            continue
        i += 1
    return statics, consts


# ------------------------------------------------------------------------------------------------
# hash containers

class Inventory:
    def __init__(self):
        self.hash = []
        self.escaped = []
        self.statics = []
        self.consts = []
        self.ambient = []
        self.files = 0
        self.cfg_test_removed = 0
        self.imports = []


def type_head_ok(toks, a, i):
    """tokens between the `:` (index a) and the kind identifier at i are only reference / path noise"""
    for x in toks[a + 1:i]:
        if x.k == "life":
            continue
        if x.t in ("&", "mut", "std", "collections", "::", "hash_map", "hash_set", "btree_map", "btree_set"):
            continue
        return False
    return True


def back_to_colon(toks, i, lo):
    """from the kind identifier at i walk back (skipping balanced <...>, (...)) to the `:` that introduces the type"""
    j = i - 1
    depth = 0
    while j >= lo:
        t = toks[j].t
        if t in (">", ")", "]"):
            depth += 1
        elif t in ("<", "(", "["):
            if depth == 0:
                return None
            depth -= 1
        elif t == ":" and depth == 0:
            return j
        elif t in (";", "{", "}", ",", "=") and depth == 0:
            return None
        j -= 1
    return None


def statement_start(toks, i):
    """index of the first token of the statement containing i (walking back over balanced groups)"""
    j = i - 1
    depth = 0
    while j >= 0:
        t = toks[j]
        if t.k == "p":
            if t.t in (")", "]", "}"):
                if t.t == "}" and depth == 0:
                    return j + 1
                depth += 1
            elif t.t in ("(", "[", "{"):
                if depth == 0:
                    return j + 1 if t.t == "{" else -(j + 1)   # negative: inside ( or [
                depth -= 1
            elif t.t == ";" and depth == 0:
                return j + 1
        j -= 1
    return 0


def statement_end(toks, i):
    depth = 0
    j = i
    while j < len(toks):
        t = toks[j]
        if t.k == "p":
            if t.t in OPEN:
                depth += 1
            elif t.t in CLOSE:
                if depth == 0:
                    return j
                depth -= 1
            elif t.t == ";" and depth == 0:
                return j
        j += 1
    return len(toks) - 1


def block_end(toks, i):
    """index of the `}` closing the innermost block that contains token i"""
    depth = 0
    for j in range(i, len(toks)):
        t = toks[j]
        if t.k == "p":
            if t.t == "{":
                depth += 1
            elif t.t == "}":
                if depth == 0:
                    return j
                depth -= 1
    return len(toks) - 1


def find_bindings(rel, toks, fi, inv):
    """Classify every occurrence of a container kind identifier; returns the list of bindings."""
    bindings = []
    n = len(toks)
    seen_let = set()
    for i, t in enumerate(toks):
        if t.k != "id" or t.t not in KINDS:
            continue
        kind = t.t
        if fi.use_stmt[i]:
            inv.imports.append({"file": rel, "line": t.line, "kind": t.t})
            if i + 2 < n and toks[i + 1].t == "as":
                inv.escaped.append({"file": rel, "fn": "<module>", "name": toks[i + 2].t, "line": t.line, "kind": kind,
                                    "why": f"imported under the alias `{toks[i + 2].t}` (uses of the alias are not inventoried) :: " +
                                           text_of(toks, max(0, i - 6), min(n, i + 4), 110)})
            continue

        def escape(why, name="?"):
            inv.escaped.append({"file": rel, "fn": fi.fn_of[i], "name": name, "line": t.line, "kind": kind,
                                "why": why + " :: " + text_of(toks, max(0, i - 6), min(n, i + 8), 110)})

        # (A) struct field
        if fi.ctx_kind[i] == "struct" and fi.sig_of[i] is None:
            c = back_to_colon(toks, i, 0)
            if c is None or toks[c - 1].k != "id":
                escape("container kind inside a struct definition, field not recognised")
                continue
            if not type_head_ok(toks, c, i):
                escape("container nested inside another type in a struct field", toks[c - 1].t)
                continue
            vis = "pub" if (c >= 2 and (toks[c - 2].t == "pub" or toks[c - 2].t == ")")) else ""
            bindings.append({"file": rel, "fn": f"struct {fi.ctx_name[i]}", "name": toks[c - 1].t, "kind": kind,
                             "origin": "field", "line": t.line, "tok": i, "vis": vis, "struct": fi.ctx_name[i]})
            continue
        # (B) fn signature
        if fi.sig_of[i] is not None:
            f = fi.fns[fi.sig_of[i]]
            if fi.after_arrow[i]:
                escape(f"returned by fn {f['name']} (callers cannot be followed)", f["name"])
                continue
            c = back_to_colon(toks, i, f["sig_start"])
            if c is None or toks[c - 1].k != "id":
                escape(f"in the signature of fn {f['name']} but not a plain parameter type")
                continue
            if not type_head_ok(toks, c, i):
                escape(f"container nested inside another type in a parameter of fn {f['name']}", toks[c - 1].t)
                continue
            # parameter position
            j = c - 1
            pos = 0
            depth = 0
            has_self = False
            k = j
            while k > f["sig_start"]:
                x = toks[k].t
                if x in (")", ">", "]"):
                    depth += 1
                elif x in ("(", "<", "["):
                    if depth == 0:
                        break
                    depth -= 1
                elif x == "," and depth == 0:
                    pos += 1
                elif x == "self" and depth == 0:
                    has_self = True
                k -= 1
            bindings.append({"file": rel, "fn": f["name"], "name": toks[c - 1].t, "kind": kind, "origin": "param",
                             "line": t.line, "tok": i, "fnidx": fi.sig_of[i], "pos": pos - (1 if has_self else 0),
                             "has_self": has_self})
            continue
        # (C) inside a body
        if fi.ctx_kind[i] in ("fn", "block", "static") or fi.fn_of[i] != "<module>":
            s = statement_start(toks, i)
            if s < 0:
                # inside ( or [ : e.g. `.collect::<HashMap<..>>()` is inside `<`, handled via let below; a ctor as an argument escapes
                s2 = -s - 1
                # walk further out to the real statement start
                s = statement_start(toks, s2)
                while s < 0:
                    s = statement_start(toks, -s - 1)
            # struct literal field init: `field: Kind::new()` directly after `{` or `,`
            c = back_to_colon(toks, i, s)
            if c is not None and toks[c - 1].k == "id" and toks[s].t != "let" and type_head_ok(toks, c, i) \
                    and i + 2 < n and toks[i + 1].t == "::" and toks[i + 2].t in CTORS \
                    and (c - 2 < 0 or toks[c - 2].t in ("{", ",")):
                bindings.append({"file": rel, "fn": fi.fn_of[i], "name": toks[c - 1].t, "kind": kind, "origin": "fieldinit",
                                 "line": t.line, "tok": i})
                continue
            if toks[s].t == "let":
                if s in seen_let:
                    continue  # second mention in the same let (type annotation + constructor)
                j = s + 1
                if toks[j].t == "mut":
                    j += 1
                if toks[j].k != "id" or toks[j + 1].t not in (":", "="):
                    escape("let with a destructuring pattern")
                    continue
                name = toks[j].t
                e = statement_end(toks, s)
                eq = next((k for k in range(j + 1, e) if toks[k].t == "=" and toks[k + 1].t != "="), None)
                ok = False
                if toks[j + 1].t == ":" and i < (eq if eq is not None else e):
                    ok = type_head_ok(toks, j + 1, i)
                    if not ok:
                        escape("container nested inside another type in a let annotation", name)
                        continue
                elif eq is not None and i > eq:
                    # initialiser head is the constructor: `= [std::collections::]Kind::ctor(..) ;`
                    if type_head_ok(toks, eq, i) and toks[i + 1].t == "::" and toks[i + 2].t in CTORS and toks[i + 3].t == "(":
                        close = match_forward(toks, i + 3)
                        ok = close is not None and close + 1 == e
                    # or the initialiser ends with `.collect::<Kind<..>>()`
                    if not ok and toks[e - 1].t == ")" and toks[e - 2].t == "(":
                        k = e - 3
                        if toks[k].t == ">":
                            depth = 0
                            while k > eq:
                                if toks[k].t == ">":
                                    depth += 1
                                elif toks[k].t == "<":
                                    depth -= 1
                                    if depth == 0:
                                        break
                                k -= 1
                            ok = toks[k - 1].t == "::" and toks[k - 2].t == "collect" and toks[k + 1].t == kind \
                                or (toks[k - 1].t == "::" and toks[k - 2].t == "collect" and i > k and type_head_ok(toks, k, i))
                if not ok:
                    escape("container constructed inside an expression the script cannot follow", name)
                    continue
                seen_let.add(s)
                bindings.append({"file": rel, "fn": fi.fn_of[i], "name": name, "kind": kind, "origin": "let",
                                 "line": toks[s].line, "tok": i, "stmt": (s, e)})
                continue
            escape("container constructed outside a let / field initialiser")
            continue
        # (D) type-level occurrence
        escape("type-level occurrence (alias, impl header, bound)")
    return bindings


def entry_followups(toks, j_close, scope_end, stmt_start):
    """What happens to the Entry produced by `map.entry(k)` whose `)` is at j_close."""
    n = len(toks)
    res = []
    if j_close + 2 < n and toks[j_close + 1].t == "." and toks[j_close + 2].k == "id":
        m = toks[j_close + 2].t
        line = toks[j_close + 2].line
        if m == "or_insert":
            res.append(("entryOrInsert", None, line))
        elif m in ("or_insert_with", "or_insert_with_key", "or_default"):
            res.append(("entryOrInsertWith", None, line))
        else:
            res.append(("entryOther", m, line))
        return res
    # bound to a variable: `let [mut] e = map.entry(k);`
    if toks[stmt_start].t == "let" and j_close + 1 < n and toks[j_close + 1].t == ";":
        j = stmt_start + 1
        if toks[j].t == "mut":
            j += 1
        if toks[j].k == "id" and toks[j + 1].t == "=":
            ev = toks[j].t
            for k in range(j_close + 2, scope_end):
                if toks[k].k == "id" and toks[k].t == ev and toks[k - 1].t not in (".", "::"):
                    line = toks[k].line
                    if toks[k + 1].t == "." and toks[k + 2].k == "id" and toks[k + 3].t == "(":
                        m = toks[k + 2].t
                        if m == "or_insert":
                            res.append(("entryOrInsert", None, line))
                        elif m in ("or_insert_with", "or_insert_with_key", "or_default"):
                            res.append(("entryOrInsertWith", None, line))
                        else:
                            res.append(("entryOther", m, line))
                    elif toks[k - 1].t == "=" and toks[k + 1].t == "{":
                        # `if let Entry::Occupied(_) = e {` — pure occupancy test when nothing is bound
                        s = statement_start(toks, k)
                        s = s if s >= 0 else -s - 1
                        pat = [x.t for x in toks[s:k - 1]]
                        if pat[:2] == ["if", "let"] and "Entry" in pat and ("Occupied" in pat or "Vacant" in pat) and "_" in pat \
                                and not any(x.k == "id" and x.t not in ("if", "let", "Entry", "Occupied", "Vacant", "_", "std",
                                                                          "collections", "hash_map", "btree_map")
                                            for x in toks[s:k - 1]):
                            res.append(("entryIsOccupied", None, line))
                        else:
                            res.append(("entryOther", "pattern-match binding the entry", line))
                    else:
                        res.append(("entryOther", "entry variable used in a way the script cannot follow", line))
            return res
    if j_close + 1 < n and toks[j_close + 1].t == ";":
        return res  # dropped
    res.append(("entryOther", "entry result used in a way the script cannot follow", toks[j_close].line))
    return res


def scan_uses(b, toks, fi, inv, crate_params, rel):
    """All uses of binding b inside tokens [lo, hi)."""
    uses = []   # (method ctor, arg or None, line)
    name = b["name"]
    n = len(toks)
    if b["origin"] == "let":
        lo = b["stmt"][1] + 1
        hi = block_end(toks, b["stmt"][0])
    elif b["origin"] == "param":
        f = fi.fns[b["fnidx"]]
        if f["body_open"] is None:
            return uses
        lo, hi = f["body_open"] + 1, f["body_close"]
    else:
        lo, hi = 0, n
    field = b["origin"] == "field"

    def esc(k, why):
        inv.escaped.append({"file": rel, "fn": fi.fn_of[k], "name": name, "line": toks[k].line, "kind": b["kind"],
                            "why": why + " :: " + text_of(toks, max(0, k - 5), min(n, k + 7), 110)})

    k = lo
    while k < hi:
        t = toks[k]
        if t.k != "id" or t.t != name:
            k += 1
            continue
        prv = toks[k - 1].t if k > 0 else ""
        nxt = toks[k + 1].t if k + 1 < n else ""
        if field:
            if prv != ".":
                k += 1
                continue
            if fi.ctx_kind[k] == "struct":
                k += 1
                continue
        else:
            if prv in (".", "::"):
                k += 1
                continue
            # shadowing: a later `let [mut] name` that is not this binding ends the scope
            if (prv == "let" or (prv == "mut" and toks[k - 2].t == "let")) and nxt in ("=", ":", ";"):
                break
            # closure / pattern parameters with the same name are not modelled: treat like shadowing for safety
        line = t.line
        if nxt == "." and k + 2 < n and toks[k + 2].k == "id":
            m = toks[k + 2].t
            is_call = k + 3 < n and (toks[k + 3].t == "(" or toks[k + 3].t == "::")
            if not is_call:
                uses.append(("other", f"field access .{m}", line))
            elif m == "entry":
                uses.append(("entry", None, line))
                open_i = k + 3
                close = match_forward(toks, open_i) if toks[open_i].t == "(" else None
                if close is None:
                    uses.append(("entryOther", "unparsed entry call", line))
                else:
                    s = statement_start(toks, k)
                    s = s if s >= 0 else -s - 1
                    for u in entry_followups(toks, close, hi, s):
                        uses.append(u)
            elif m in METHODS:
                uses.append((METHODS[m], None, line))
            elif m in HIDDEN_HASH_METHODS:
                uses.append(("other", m, line))
            else:
                uses.append(("other", m, line))
        elif nxt == "[":
            uses.append(("index", None, line))
        elif nxt == "{" and (prv == "in" or (prv == "&" and toks[k - 2].t == "in") or
                             (prv == "mut" and toks[k - 2].t == "&" and toks[k - 3].t == "in")):
            uses.append(("forIter", None, line))
        elif nxt in (",", ")") and statement_start(toks, k) < 0 or (nxt in (",", ")") and prv in ("&", "mut", "(", ",")):
            # passed as an argument: find the callee
            j = k - 1
            depth = 0
            pos = 0
            while j >= 0:
                x = toks[j].t
                if x in (")", "]", "}"):
                    depth += 1
                elif x in ("(", "[", "{"):
                    if depth == 0:
                        break
                    depth -= 1
                elif x == "," and depth == 0:
                    pos += 1
                j -= 1
            callee = toks[j - 1].t if j >= 1 and toks[j].t == "(" and toks[j - 1].k == "id" else None
            if callee is None and j >= 1 and toks[j].t == "(" and toks[j - 1].t == "!":
                callee = toks[j - 2].t + "!"
            followed = callee is not None and any(p["fn"] == callee and p["pos"] == pos for p in crate_params)
            if followed:
                uses.append(("passTo", callee, line))
            else:
                uses.append(("other", f"passed to {callee or '?'}", line))
                esc(k, f"passed to `{callee or '?'}` (argument {pos}), not an inventoried crate function parameter")
        elif prv == "return" or nxt == "}" or (nxt == ";" and prv in ("=", "return")):
            uses.append(("other", "moved / returned", line))
            esc(k, "moved or returned")
        elif nxt == "=" and toks[k + 2].t != "=":
            uses.append(("other", "reassigned", line))
        elif nxt == ":" and prv in ("{", ","):
            pass  # struct literal field name `Self { name: ... }` — the initialiser is inventoried on its own
        else:
            uses.append(("other", "unclassified use: " + text_of(toks, max(0, k - 2), min(n, k + 3), 60), line))
            esc(k, "unclassified use")
        k += 1
    return uses


# ------------------------------------------------------------------------------------------------
# driver

def lstr(s):
    return '"' + s.replace("\\", "\\\\").replace('"', '\\"').replace("\n", " ") + '"'


def method_term(ctor, arg):
    if ctor in ("passTo", "other", "entryOther"):
        return f"(.{ctor} {lstr(arg or '')})"
    return f".{ctor}"


def build_inventory(src_root):
    inv = Inventory()
    files = []
    for dp, dn, fn in os.walk(src_root):
        dn.sort()
        for f in sorted(fn):
            if f.endswith(".rs"):
                files.append(os.path.join(dp, f))
    if not files:
        die(f"no .rs files under {src_root}")
    parsed = {}
    for p in files:
        rel = os.path.relpath(p, src_root)
        toks = tokenize(open(p).read(), rel)
        toks, removed = strip_cfg_test(toks, rel)
        inv.cfg_test_removed += removed
        fi = analyse_structure(toks, rel)
        parsed[rel] = (toks, fi)
        inv.files += 1
    # pass 1: bindings, statics, ambient, hidden hash producers
    all_bindings = []
    for rel, (toks, fi) in parsed.items():
        bs = find_bindings(rel, toks, fi, inv)
        for b in bs:
            b["rel"] = rel
        all_bindings += bs
        st, cs = scan_statics(rel, toks, fi)
        inv.statics += st
        inv.consts += cs
        inv.ambient += ambient_scan(rel, toks, fi)
        for i, t in enumerate(toks):
            if t.k == "id" and t.t in HIDDEN_HASH_METHODS and i > 0 and toks[i - 1].t == "." and toks[i + 1].t in ("(", "::"):
                inv.escaped.append({"file": rel, "fn": fi.fn_of[i], "name": "<temporary>", "line": t.line, "kind": "HashMap",
                                    "why": f"`.{t.t}()` builds and returns a HashMap (itertools) :: " +
                                           text_of(toks, max(0, i - 6), min(len(toks), i + 4), 110)})
    crate_params = [{"fn": b["fn"], "pos": b["pos"], "name": b["name"]} for b in all_bindings if b["origin"] == "param"]
    # statics whose initialiser mentions a mutable/interior static are impure
    bad_statics = {s["name"] for s in inv.statics if s["cls"] in ("mutable", "interior", "threadLocal", "lazyStatic")}
    for s in inv.statics:
        if set(s["refs"]) & bad_statics:
            s["initPure"] = False
    # pass 2: uses
    for b in all_bindings:
        if b["origin"] == "fieldinit":
            continue
        toks, fi = parsed[b["rel"]]
        uses = scan_uses(b, toks, fi, inv, crate_params, b["rel"])
        if b["origin"] == "field" and b.get("vis"):
            # a visible field can be used from other files
            for rel2, (t2, f2) in parsed.items():
                if rel2 != b["rel"]:
                    uses += scan_uses(dict(b, origin="field"), t2, f2, inv, crate_params, rel2)
        merged = {}
        for ctor, arg, line in uses:
            merged.setdefault((ctor, arg), []).append(line)
        entry = {"file": b["rel"], "fn": b["fn"], "name": b["name"], "kind": b["kind"],
                 "origin": {"let": "letBinding", "field": "field", "param": "param"}[b["origin"]], "line": b["line"],
                 "uses": [{"method": c, "arg": a, "lines": sorted(set(ls))} for (c, a), ls in merged.items()]}
        inv.hash.append(entry)
    inv.hash.sort(key=lambda e: (e["file"], e["line"], e["name"]))
    return inv


def offending(inv):
    off = []
    for e in inv.hash:
        if e["kind"] in HASH_KINDS:
            bad = [u for u in e["uses"] if u["method"] not in LOOKUP_ONLY]
            for u in bad:
                off.append({"class": "hash", "file": e["file"], "fn": e["fn"], "name": e["name"], "kind": e["kind"],
                            "line": u["lines"][0], "why": u["method"] + (f"({u['arg']})" if u["arg"] else ""),
                            "lines": u["lines"]})
    for s in inv.statics:
        ok = s["cls"] in ("lazy", "plain") and s["initPure"]
        if not ok:
            off.append({"class": "statics", "file": s["file"], "fn": "<module>", "name": s["name"], "line": s["line"],
                        "why": f"static of class {s['cls']}, initPure={s['initPure']} {s.get('_impure', '')}"})
    for a in inv.ambient:
        off.append({"class": "ambient", "file": a["file"], "fn": a["fn"], "name": a["what"], "line": a["line"],
                    "why": a["what"] + ": " + a["text"]})
    for x in inv.escaped:
        off.append({"class": "escaped", "file": x["file"], "fn": x["fn"], "name": x["name"], "line": x["line"],
                    "why": x["why"]})
    return off


def emit_lean(inv, src_root):
    out = ["-- GENERATED by tools/translate_c18.py from " + src_root + " — do not edit.\n",
           "import Moyo.Model.SharedInventory\n",
           "set_option maxRecDepth 4096\n",
           "namespace Moyo.Generated.C18\nopen Moyo.Shared\n\n",
           f"def filesScanned : Nat := {inv.files}\n",
           f"def cfgTestItemsRemoved : Nat := {inv.cfg_test_removed}\n\n"]
    rows = []
    for e in inv.hash:
        sites = ", ".join(f"⟨{method_term(u['method'], u['arg'])}, [{', '.join(str(x) for x in u['lines'])}]⟩" for u in e["uses"])
        rows.append(f"  ⟨{lstr(e['file'])}, {lstr(e['fn'])}, {lstr(e['name'])}, .{KINDS[e['kind']]}, .{e['origin']}, {e['line']},\n"
                    f"    [{sites}]⟩")
    out.append("/-- every HashMap / HashSet / BTreeMap / BTreeSet binding of the non-test code with all its uses -/\n"
               "def hashUses : List HashUse := [\n" + ",\n".join(rows) + "\n]\n\n")
    rows = []
    for s in inv.statics:
        rows.append(f"  ⟨{lstr(s['file'])}, {lstr(s['name'])}, {s['line']}, .{s['cls']}, {lstr(s['ty'])}, "
                    f"{'true' if s['initPure'] else 'false'}, [{', '.join(lstr(r) for r in s['refs'])}]⟩")
    out.append("/-- every `static` item, `thread_local!`, `lazy_static!` -/\n"
               "def statics : List StaticItem := [\n" + ",\n".join(rows) + "\n]\n\n")
    rows = [f"  ⟨{lstr(a['file'])}, {lstr(a['fn'])}, {a['line']}, .{a['what']}, {lstr(a['text'])}⟩" for a in inv.ambient]
    out.append("/-- every use of RNG, clock, environment, thread id, pointer formatting, hasher state, threads, file reads, unsafe -/\n"
               "def ambient : List AmbientUse := [\n" + ",\n".join(rows) + "\n]\n\n")
    rows = [f"  ⟨{lstr(x['file'])}, {lstr(x['fn'])}, {lstr(x['name'])}, {x['line']}, {lstr(x['why'])}⟩" for x in inv.escaped]
    out.append("/-- hash containers that went where the translator cannot follow -/\n"
               "def escaped : List Escape := [\n" + ",\n".join(rows) + "\n]\n\n")
    rows = [f"  ({lstr(c['file'])}, {lstr(c['name'])}, {c['line']})" for c in inv.consts]
    out.append("/-- `const` items (compile-time values; listed for the reader) -/\n"
               "def consts : List (String × String × Nat) := [\n" + ",\n".join(rows) + "\n]\n\n")
    out.append("end Moyo.Generated.C18\n")
    return "".join(out)


def summary(inv):
    meth = {}
    for e in inv.hash:
        for u in e["uses"]:
            key = e["kind"] + "." + u["method"] + (f"({u['arg']})" if u["arg"] else "")
            meth[key] = meth.get(key, 0) + len(u["lines"])
    return {
        "files": inv.files, "cfg_test_items_removed": inv.cfg_test_removed,
        "containers": {k: sum(1 for e in inv.hash if e["kind"] == k) for k in KINDS},
        "method_sites": dict(sorted(meth.items())),
        "statics": [f"{s['file']}:{s['name']}:{s['cls']}:pure={s['initPure']}" for s in inv.statics],
        "consts": len(inv.consts), "ambient": len(inv.ambient), "escaped": len(inv.escaped),
    }


def main():
    ap = argparse.ArgumentParser()
    ap.add_argument("--src", default=os.path.join(os.environ.get("VERIF_REPO", "/repo"), "moyo", "src"))
    ap.add_argument("--out", default=OUT)
    ap.add_argument("--json", default=None)
    ap.add_argument("--print", action="store_true", help="print a readable inventory on stdout")
    args = ap.parse_args()
    inv = build_inventory(args.src)
    text = emit_lean(inv, args.src)
    old = open(args.out).read() if os.path.exists(args.out) else None
    if old != text:
        os.makedirs(os.path.dirname(args.out), exist_ok=True)
        tmp = args.out + ".tmp"
        with open(tmp, "w") as f:
            f.write(text)
        os.replace(tmp, args.out)
        print(f"translate_c18.py: wrote {args.out}", file=sys.stderr)
    off = offending(inv)
    if args.json:
        for s in inv.statics:
            s.pop("_init", None)
        with open(args.json, "w") as f:
            json.dump({"src": args.src, "hash": inv.hash, "statics": inv.statics, "ambient": inv.ambient,
                       "escaped": inv.escaped, "consts": inv.consts, "imports": inv.imports, "offending": off,
                       "summary": summary(inv)}, f, indent=1)
    if args.print:
        for e in inv.hash:
            us = "; ".join(f"{u['method']}{'(' + u['arg'] + ')' if u['arg'] else ''}@{','.join(map(str, u['lines']))}" for u in e["uses"])
            print(f"{e['kind']:9} {e['origin']:10} {e['file']}:{e['line']} fn {e['fn']} `{e['name']}`: {us}")
        for s in inv.statics:
            print(f"static    {s['cls']:10} {s['file']}:{s['line']} {s['name']} : {s['ty']} pure={s['initPure']} refs={s['refs']}")
        for a in inv.ambient:
            print(f"ambient   {a['what']:10} {a['file']}:{a['line']} fn {a['fn']}: {a['text']}")
        for x in inv.escaped:
            print(f"ESCAPED   {x['file']}:{x['line']} fn {x['fn']} `{x['name']}`: {x['why']}")
        print(json.dumps(summary(inv), indent=1))
    if inv.escaped:
        print(f"translate_c18.py: {len(inv.escaped)} hash container(s) ESCAPED the inventory — obligation "
              "`inventory_no_escape` is undischarged:", file=sys.stderr)
        for x in inv.escaped:
            print(f"  {x['file']}:{x['line']} fn {x['fn']} `{x['name']}`: {x['why']}", file=sys.stderr)
        sys.exit(3)
    sys.exit(0)


if __name__ == "__main__":
    main()
