#!/usr/bin/env python3
"""seeded_add.py <id> <name> <checks,comma> : copy a confirmed breaking change from /tmp/mut-<id>-out into /verif/seeded/<name>/."""
import json, os, shutil, sys
pid, name, checks = sys.argv[1], sys.argv[2], sys.argv[3].split(",")
src = f"/tmp/mut-{pid}-out"
dst = f"/verif/seeded/{name}"
os.makedirs(dst, exist_ok=True)
for f in os.listdir(src):
    if os.path.isfile(os.path.join(src, f)):
        shutil.copy(os.path.join(src, f), dst)
meta = json.load(open(os.path.join(dst, "meta.json")))
meta["checks_to_run"] = checks
conf = [l for l in open("/verif/.cache/work/confirm_all.log") if l.startswith(f"CONFIRM {pid}:")] if os.path.exists("/verif/.cache/work/confirm_all.log") else []
if conf:
    meta["confirmed_in_scratch_worktree"] = conf[-1].strip()
json.dump(meta, open(os.path.join(dst, "meta.json"), "w"), indent=1)
print("added", dst)
