#!/usr/bin/env python3
"""Regenerated data and *searched certificates* for the table theorems of C16 / C17.

Three outputs under /verif/lean/Moyo/Generated (rewritten only when the content changes):

* PointGroupTable.lean — translated from /repo (trusted like translate.py, fails loudly):
    identify/rotation_type.rs  `identify_rotation_type` (10 arms: (trace, det) -> rotation type),
    identify/point_group.rs    `identify_geometric_crystal_class` (10 counter slots, 32 histogram arms),
    data/point_group.rs        `from_geometric_crystal_class` (32 Hall numbers), `from_arithmetic_crystal_class`
                               (73 Hall numbers), the test helper `order` (32 orders),
    data/classification.rs     enum order of `GeometricCrystalClass`, `CrystalSystem::from_geometric_crystal_class`,
                               `LatticeSystem::from_bravais_class`, `CrystalFamily::from_{crystal,lattice}_system`.
* C16Certs.lean / C17Certs.lean — certificates.  NOT trusted: every one of them is re-checked by a
  kernel-decided theorem in Moyo/Tables/*.lean.  They are recomputed here from the regenerated tables and
  from the operation lists printed by the compiled model (`moyo_model`, commands `hall`/`mhall`):
    packed operation lists (what `traverse`/`primitive_traverse` of the model must return),
    unimodular conjugators onto the arithmetic-class representatives, invariant vectors of the 73
    representatives, proper affine conjugators between settings of one type, between the reference group
    of each magnetic entry and the Standard setting of its `number`, and set-codes for distinctness.
  A search that fails writes a zero certificate (the theorem for that row then fails and names the row).

Also (re)writes the static chunk modules Moyo/Tables/*.lean (deterministic text, fixed boundaries).
"""
import hashlib
import itertools
import json
import os
import re
import subprocess
import sys
from fractions import Fraction
from math import gcd

HERE = os.path.dirname(os.path.abspath(__file__))
sys.path.insert(0, HERE)
import translate as T  # noqa: E402

VERIF = os.path.dirname(HERE)
LEAN = os.path.join(VERIF, "lean")
GEN = os.path.join(LEAN, "Moyo", "Generated")
TABLES = os.path.join(LEAN, "Moyo", "Tables")
WORK = os.path.join(VERIF, ".cache", "work", "c16")
MODEL_BIN = os.path.join(LEAN, ".lake", "build", "bin", "moyo_model")

die = T.die

# ------------------------------------------------------------------------------------------------
# part 1: translation of the match-arm tables


def fn_body(src, header_re):
    """Text of the brace-delimited body following the first match of header_re."""
    m = re.search(header_re, src)
    if not m:
        die(f"function header not found: {header_re}")
    i = src.index("{", m.end() - 1) if src[m.end() - 1] != "{" else m.end() - 1
    depth, j = 0, i
    while True:
        c = src[j]
        if c == "{":
            depth += 1
        elif c == "}":
            depth -= 1
            if depth == 0:
                return src[i + 1:j]
        j += 1


def strip_comments(s):
    return re.sub(r"//[^\n]*", "", s)


def translate_point_group():
    out = {}
    cls = T.strip_tests(T.read("data/classification.rs"))
    m = re.search(r"pub enum GeometricCrystalClass\s*\{(.*?)\}", cls, flags=re.S)
    if not m:
        die("enum GeometricCrystalClass not found")
    names = [x.strip() for x in strip_comments(m.group(1)).split(",") if x.strip()]
    if len(names) != 32 or len(set(names)) != 32:
        die(f"GeometricCrystalClass: expected 32 distinct variants, found {len(names)}")
    out["geoNames"] = names

    # rotation types
    rt = T.strip_tests(T.read("identify/rotation_type.rs"))
    body = fn_body(rt, r"pub fn identify_rotation_type\([^)]*\)\s*->\s*RotationType\s*\{")
    arms = re.findall(r"\(\s*(-?\d+)\s*,\s*(-?\d+)\s*\)\s*=>\s*RotationType::(\w+)", body)
    if len(arms) != 10:
        die(f"identify_rotation_type: expected 10 arms, found {len(arms)}")
    if "let tr = rotation.trace();" not in body or "determinant().round() as i32" not in body:
        die("identify_rotation_type: the (trace, det) computation changed shape")
    type_of = {name: (int(a), int(b)) for a, b, name in arms}
    if len(type_of) != 10:
        die("identify_rotation_type: duplicate rotation type")

    pg = T.read("identify/point_group.rs")
    pgs = T.strip_tests(pg)
    body = fn_body(pgs, r"fn identify_geometric_crystal_class\(")
    slots = re.findall(r"RotationType::(\w+)\s*=>\s*rotation_types_count\[(\d+)\]\s*\+=\s*1", body)
    if len(slots) != 10 or sorted(int(s) for _, s in slots) != list(range(10)):
        die("identify_geometric_crystal_class: counter slots are not a bijection onto 0..9")
    slot_of = {name: int(s) for name, s in slots}
    if set(slot_of) != set(type_of):
        die("identify_geometric_crystal_class: rotation types differ from identify_rotation_type")
    out["rotTypes"] = sorted(((type_of[n][0], type_of[n][1], slot_of[n]) for n in type_of), key=lambda x: x[2])
    arms = re.findall(r"\[([\d\s,]+)\]\s*=>\s*Ok\(GeometricCrystalClass::(\w+)\)", body)
    if len(arms) != 32:
        die(f"identify_geometric_crystal_class: expected 32 histogram arms, found {len(arms)}")
    hist = {}
    for nums, name in arms:
        v = [int(x) for x in nums.split(",") if x.strip()]
        if len(v) != 10:
            die(f"histogram of {name} has {len(v)} entries")
        if name in hist:
            die(f"histogram of {name} given twice")
        hist[name] = v
    if set(hist) != set(names):
        die("identify_geometric_crystal_class: classes differ from the enum")
    out["geoHist"] = [hist[n] for n in names]

    dpg_full = T.read("data/point_group.rs")
    dpg = T.strip_tests(dpg_full)
    body = fn_body(dpg, r"pub fn from_geometric_crystal_class\(")
    arms = re.findall(r"GeometricCrystalClass::(\w+)\s*=>\s*(\d+)", strip_comments(body))
    d = dict(arms)
    if len(arms) != 32 or set(d) != set(names):
        die("from_geometric_crystal_class: expected one arm per class")
    out["geoRepHall"] = [int(d[n]) for n in names]
    body = fn_body(dpg, r"pub fn from_arithmetic_crystal_class\(")
    arms = re.findall(r"^\s*(\d+)\s*=>\s*(\d+)\s*,", strip_comments(body), flags=re.M)
    d = {int(a): int(b) for a, b in arms}
    if len(arms) != 73 or sorted(d) != list(range(1, 74)):
        die(f"from_arithmetic_crystal_class: expected arms 1..73, found {len(arms)}")
    out["arithRepHall"] = [d[k] for k in range(1, 74)]
    # test helper `order` (the only order table in the source)
    k = dpg_full.find("#[cfg(test)]")
    tests = dpg_full[k:] if k >= 0 else ""
    if "fn order(" in tests:
        body = fn_body(tests, r"fn order\(")
        arms = re.findall(r"GeometricCrystalClass::(\w+)\s*=>\s*(\d+)", strip_comments(body))
        d = dict(arms)
        if len(arms) != 32 or set(d) != set(names):
            die("test helper order(): expected one arm per class")
        out["geoOrderTest"] = [int(d[n]) for n in names]
    else:
        out["geoOrderTest"] = []

    # classification maps
    def arm_map(body, src_enum, dst_enum):
        res = {}
        for lhs, rhs in re.findall(r"((?:\s*\|?\s*" + src_enum + r"::\w+)+)\s*=>\s*\{?\s*" + dst_enum + r"::(\w+)", strip_comments(body)):
            for n in re.findall(src_enum + r"::(\w+)", lhs):
                if n in res:
                    die(f"{src_enum}::{n} mapped twice")
                res[n] = rhs
        return res
    m = re.search(r"impl CrystalSystem\s*\{", cls)
    cs = arm_map(fn_body(cls[m.start():], r"pub fn from_geometric_crystal_class\("), "GeometricCrystalClass", "CrystalSystem")
    if set(cs) != set(names):
        die("CrystalSystem::from_geometric_crystal_class does not cover the 32 classes")
    out["geoSystem"] = [cs[n] for n in names]
    m = re.search(r"pub enum BravaisClass\s*\{(.*?)\}", cls, flags=re.S)
    brav = [x.strip() for x in strip_comments(m.group(1)).split(",") if x.strip()]
    if len(brav) != 14:
        die(f"BravaisClass: expected 14 variants, found {len(brav)}")
    ls = arm_map(fn_body(cls, r"pub fn from_bravais_class\("), "BravaisClass", "LatticeSystem")
    if set(ls) != set(brav):
        die("LatticeSystem::from_bravais_class does not cover the 14 Bravais classes")
    out["bravaisNames"] = brav
    out["bravaisLattice"] = [ls[b] for b in brav]
    fam_cs = arm_map(fn_body(cls, r"pub fn from_crystal_system\("), "CrystalSystem", "CrystalFamily")
    fam_ls = arm_map(fn_body(cls, r"pub fn from_lattice_system\("), "LatticeSystem", "CrystalFamily")
    if set(fam_cs) != set(cs.values()) or set(fam_ls) != set(ls.values()):
        die("CrystalFamily maps do not cover the crystal / lattice systems")
    out["geoFamily"] = [fam_cs[cs[n]] for n in names]
    out["bravaisFamily"] = [fam_ls[ls[b]] for b in brav]
    return out


def lean_nat_list(v):
    return "[" + ", ".join(str(x) for x in v) + "]"


def lean_int(x):
    return str(x) if x >= 0 else f"({x})"


def lean_str_list(v):
    return "[" + ", ".join(T.lstr(x) for x in v) + "]"


def write_point_group(pg):
    o = [T.HEADER.replace("translate.py", "translate_c16.py"), "namespace Moyo.Generated\n\n"]
    o.append("/-- `GeometricCrystalClass` variants in enum order (data/classification.rs). -/\n")
    o.append(f"def geoNames : List String := {lean_str_list(pg['geoNames'])}\n\n")
    o.append("/-- `identify_rotation_type` joined with the counter slots of `identify_geometric_crystal_class`:\n"
             "(trace, det, slot). -/\n")
    o.append("def rotTypes : List (Int × Int × Nat) := [" +
             ", ".join(f"({lean_int(a)}, {lean_int(b)}, {c})" for a, b, c in pg["rotTypes"]) + "]\n\n")
    o.append("/-- Histogram arms of `identify_geometric_crystal_class`, in enum order of the classes. -/\n")
    o.append("def geoHist : List (List Nat) := [\n  " + ",\n  ".join(lean_nat_list(h) for h in pg["geoHist"]) + "\n]\n\n")
    o.append("/-- `PointGroupRepresentative::from_geometric_crystal_class` (Hall numbers, enum order). -/\n")
    o.append(f"def geoRepHall : List Nat := {lean_nat_list(pg['geoRepHall'])}\n\n")
    o.append("/-- `PointGroupRepresentative::from_arithmetic_crystal_class` (Hall numbers for 1..73). -/\n")
    o.append(f"def arithRepHall : List Nat := {lean_nat_list(pg['arithRepHall'])}\n\n")
    o.append("/-- The order table of the test module of data/point_group.rs (enum order; empty if absent). -/\n")
    o.append(f"def geoOrderTest : List Nat := {lean_nat_list(pg['geoOrderTest'])}\n\n")
    o.append("/-- `CrystalFamily::from_crystal_system (CrystalSystem::from_geometric_crystal_class c)`, enum order. -/\n")
    o.append(f"def geoFamily : List String := {lean_str_list(pg['geoFamily'])}\n\n")
    o.append(f"def geoSystem : List String := {lean_str_list(pg['geoSystem'])}\n\n")
    o.append(f"def bravaisNames : List String := {lean_str_list(pg['bravaisNames'])}\n\n")
    o.append("/-- `CrystalFamily::from_lattice_system (LatticeSystem::from_bravais_class b)`, enum order. -/\n")
    o.append(f"def bravaisFamily : List String := {lean_str_list(pg['bravaisFamily'])}\n\n")
    o.append(f"def bravaisLattice : List String := {lean_str_list(pg['bravaisLattice'])}\n\n")
    o.append("end Moyo.Generated\n")
    T.write("PointGroupTable.lean", "".join(o))


# ------------------------------------------------------------------------------------------------
# part 2: small exact linear algebra on tuples (row-major 3x3)

I3 = (1, 0, 0, 0, 1, 0, 0, 0, 1)


def mm(a, b):
    return tuple(sum(a[3 * i + k] * b[3 * k + j] for k in range(3)) for i in range(3) for j in range(3))


def mv(a, v):
    return tuple(sum(a[3 * i + k] * v[k] for k in range(3)) for i in range(3))


def det(m):
    return m[0] * (m[4] * m[8] - m[5] * m[7]) - m[1] * (m[3] * m[8] - m[5] * m[6]) + m[2] * (m[3] * m[7] - m[4] * m[6])


def trace(m):
    return m[0] + m[4] + m[8]


def adj(p):
    a, b, c, d, e, f, g, h, i = p
    return (e * i - f * h, c * h - b * i, b * f - c * e,
            f * g - d * i, a * i - c * g, c * d - a * f,
            d * h - e * g, b * g - a * h, a * e - b * d)


def transpose(m):
    return (m[0], m[3], m[6], m[1], m[4], m[7], m[2], m[5], m[8])


def rtype(m):
    return (trace(m), det(m))


def rot_key(m):
    k = 0
    for x in reversed(m):
        if not -1 <= x <= 1:
            raise ValueError("rotation entry outside {-1,0,1}")
        k = 3 * k + (x + 1)
    return k


def op_code(op):
    """op = (rot9, t3 (twelfths), tr) -> Nat code (Moyo.TableSpec.opCode)."""
    r, t, tr = op
    tc = (t[0] % 12) + 12 * ((t[1] % 12) + 12 * (t[2] % 12))
    return rot_key(r) + 19683 * (tc + 1728 * (1 if tr else 0))


OP_BASE = 19683 * 1728 * 2


def pack(ops):
    n = 1
    for op in reversed(ops):
        n = n * OP_BASE + op_code(op)
    return n


def pack_nats(v):
    n = 1
    for x in reversed(v):
        n = n * OP_BASE + x
    return n


def pack_ints(v):
    """Moyo.TableSpec.intsOfNat: base-65536 digits `e + 32768`, least significant first."""
    n = 0
    for x in reversed(v):
        if not -32768 <= x < 32768:
            raise ValueError("certificate entry out of range")
        n = n * 65536 + (x + 32768)
    return n


def parse_ops(s):
    s = s.strip()
    if not s:
        return []
    res = []
    for part in s.split(" | "):
        v = [int(x) for x in part.split()]
        res.append((tuple(v[:9]), tuple(v[9:12]), v[12] == 1))
    return res


def int_kernel(A, n):
    """ℤ-basis of {x ∈ ℤⁿ : A x = 0} by integer column operations."""
    A = [list(r) for r in A]
    m = len(A)
    U = [[int(i == j) for j in range(n)] for i in range(n)]
    col = 0
    for r in range(m):
        if col == n:
            break
        while True:
            nz = [j for j in range(col, n) if A[r][j] != 0]
            if not nz:
                break
            p = min(nz, key=lambda j: abs(A[r][j]))
            for M in (A, U):
                for row in M:
                    row[col], row[p] = row[p], row[col]
            done = True
            for j in range(col + 1, n):
                k = A[r][j] // A[r][col]
                if k != 0:
                    for M in (A, U):
                        for row in M:
                            row[j] -= k * row[col]
                if A[r][j] != 0:
                    done = False
            if done:
                break
        if any(A[r][j] != 0 for j in range(col, n)):
            col += 1
    return [[U[i][j] for i in range(n)] for j in range(col, n)]


def sylvester_basis(pairs):
    """ℤ-basis of {P : R·P = P·R0 for all (R, R0) in pairs} (P row-major)."""
    rows = []
    for R, R0 in pairs:
        for a in range(3):
            for b in range(3):
                row = [0] * 9
                for k in range(3):
                    row[3 * k + b] += R[3 * a + k]
                    row[3 * a + k] -= R0[3 * k + b]
                rows.append(row)
    return [tuple(v) for v in int_kernel(rows, 9)]


def small_combos(k):
    """Coefficient vectors in [-1,1]^k, then those of [-2,2]^k with a ±2 (identity-like ones first)."""
    first = sorted(itertools.product((-1, 0, 1), repeat=k), key=lambda c: sum(abs(x) for x in c))
    for c in first:
        yield c
    if k <= 6:
        for c in itertools.product((-2, -1, 0, 1, 2), repeat=k):
            if any(abs(x) == 2 for x in c):
                yield c


def linear_conjugators(src_rots, tgt_gens, tgt_rots, dets=(1, -1), limit=None):
    """Yield integer P with det in `dets` and {P⁻¹ R P : R ∈ src} = tgt (R·P = P·R0)."""
    src_set = set(src_rots)
    tgt_set = set(tgt_rots)
    if len(src_set) != len(tgt_set):
        return
    seen = set()

    def ok(P):
        d = det(P)
        if d not in dets:
            return False
        Pi = tuple(d * x for x in adj(P))
        return all(mm(mm(Pi, R), P) in tgt_set for R in src_rots)
    if ok(I3):
        seen.add(I3)
        yield I3
    gens = [g for g in tgt_gens if g != I3]
    cands = [[R for R in src_rots if rtype(R) == rtype(g)] for g in gens]
    count = 0
    for pick in itertools.product(*cands):
        basis = sylvester_basis(list(zip(pick, gens))) if gens else [tuple(int(i == j) for j in range(9)) for i in range(9)]
        if not basis:
            continue
        for coef in small_combos(len(basis)):
            P = tuple(sum(c * b[i] for c, b in zip(coef, basis)) for i in range(9))
            if P in seen:
                continue
            if det(P) in dets:
                seen.add(P)
                if ok(P):
                    yield P
                    count += 1
                    if limit and count >= limit:
                        return


def snf(A, nrows, ncols):
    """Smith normal form: returns (D, U, V) with D = U·A·V, U, V unimodular (lists of lists)."""
    A = [list(r) for r in A]
    U = [[int(i == j) for j in range(nrows)] for i in range(nrows)]
    V = [[int(i == j) for j in range(ncols)] for i in range(ncols)]

    def swap_rows(i, j):
        A[i], A[j] = A[j], A[i]
        U[i], U[j] = U[j], U[i]

    def swap_cols(i, j):
        for M in (A, V):
            for r in M:
                r[i], r[j] = r[j], r[i]

    def add_row(i, j, k):  # row_i += k row_j
        A[i] = [x + k * y for x, y in zip(A[i], A[j])]
        U[i] = [x + k * y for x, y in zip(U[i], U[j])]

    def add_col(i, j, k):  # col_i += k col_j
        for M in (A, V):
            for r in M:
                r[i] += k * r[j]
    t = 0
    while t < min(nrows, ncols):
        piv = [(abs(A[i][j]), i, j) for i in range(t, nrows) for j in range(t, ncols) if A[i][j] != 0]
        if not piv:
            break
        _, pi, pj = min(piv)
        swap_rows(t, pi)
        swap_cols(t, pj)
        dirty = False
        for i in range(t + 1, nrows):
            q = A[i][t] // A[t][t]
            if q:
                add_row(i, t, -q)
            if A[i][t] != 0:
                dirty = True
        for j in range(t + 1, ncols):
            q = A[t][j] // A[t][t]
            if q:
                add_col(j, t, -q)
            if A[t][j] != 0:
                dirty = True
        if dirty:
            continue
        bad = [(i, j) for i in range(t + 1, nrows) for j in range(t + 1, ncols) if A[i][j] % A[t][t] != 0]
        if bad:
            add_row(t, bad[0][0], 1)
            continue
        t += 1
    return A, U, V


def solve_shift(eqs):
    """eqs: list of (M (3x3 row-major int), c (3 ints, twelfths)).  Find p (Fractions) with M·p ≡ c/12 (mod 1)
    for all equations, or None."""
    rows, rhs = [], []
    for M, c in eqs:
        for i in range(3):
            rows.append([M[3 * i + j] for j in range(3)])
            rhs.append(Fraction(c[i], 12))
    n = len(rows)
    if n == 0:
        return (Fraction(0),) * 3
    D, U, V = snf(rows, n, 3)
    ub = [sum(U[i][k] * rhs[k] for k in range(n)) for i in range(n)]
    y = [Fraction(0)] * 3
    for i in range(n):
        d = D[i][i] if i < 3 else 0
        if d == 0:
            if ub[i].denominator != 1:
                return None
        else:
            y[i] = ub[i] / d
    p = tuple(sum(V[i][j] * y[j] for j in range(3)) for i in range(3))
    p = tuple(x - (x.numerator // x.denominator) for x in p)
    # verify
    for M, c in eqs:
        for i in range(3):
            v = sum(M[3 * i + j] * p[j] for j in range(3)) - Fraction(c[i], 12)
            if v.denominator != 1:
                return None
    return p


def affine_conjugator(src_ops, tgt_ops, tgt_gens, dets=(1,)):
    """Find (P, p_num, den): det P ∈ dets, and for every (R,t) in src the operation
    (P,p)⁻¹(R,t)(P,p) = (P⁻¹RP, P⁻¹(Rp + t − p)) equals an operation of tgt modulo ℤ³.
    Operations are primitive ones: (rot, trans in twelfths, tr)."""
    src_rots = [o[0] for o in src_ops]
    tgt_rots = [o[0] for o in tgt_ops]
    src_t = {o[0]: o[1] for o in src_ops}
    tgt_t = {o[0]: o[1] for o in tgt_ops}
    gens = [g[0] for g in tgt_gens]
    for P in linear_conjugators(src_rots, gens, tgt_rots, dets=dets, limit=400):
        d = det(P)
        Pi = tuple(d * x for x in adj(P))
        eqs = []
        for R in src_rots:
            R0 = mm(mm(Pi, R), P)
            t0 = tgt_t[R0]
            Pt0 = mv(P, t0)
            M = tuple(R[i] - I3[i] for i in range(9))
            # (R - 1) p ≡ P t0 - t
            eqs.append((M, tuple(Pt0[i] - src_t[R][i] for i in range(3))))
        p = solve_shift(eqs)
        if p is not None:
            den = 12
            for x in p:
                den = den * x.denominator // gcd(den, x.denominator)
            return P, tuple(int(x * den) for x in p), den
    return None


LATTICE = {"P": [(0, 0, 0)], "A": [(0, 0, 0), (0, 6, 6)], "B": [(0, 0, 0), (6, 0, 6)], "C": [(0, 0, 0), (6, 6, 0)],
           "I": [(0, 0, 0), (6, 6, 6)], "R": [(0, 0, 0), (8, 4, 4), (4, 8, 8)],
           "F": [(0, 0, 0), (0, 6, 6), (6, 0, 6), (6, 6, 0)]}


def op_mul(p, q):
    return (mm(p[0], q[0]), tuple(a + b for a, b in zip(mv(p[0], q[1]), p[1])), p[2] != q[2])


def eqv_mod(cent, p, q):
    if p[0] != q[0] or p[2] != q[2]:
        return False
    d = tuple(a - b for a, b in zip(p[1], q[1]))
    return any(all((x - l) % 12 == 0 for x, l in zip(d, lp)) for lp in LATTICE.get(cent, []))


def pack_base(v, base):
    n = 0
    for x in reversed(v):
        if not 0 <= x < base:
            raise ValueError("digit out of range")
        n = n * base + x
    return n


def closure_cert(cent, gens, ops):
    """Right-multiplication table (row-major, base 128) and parent codes (base 1024); (0, 0) if not closed."""
    n, m = len(ops), len(gens)
    if m > 8 or n > 127:
        return 0, 0
    tbl = []
    for o in ops:
        for g in gens:
            pr = op_mul(o, g)
            j = next((j for j, s in enumerate(ops) if eqv_mod(cent, pr, s)), None)
            if j is None:
                return 0, 0
            tbl.append(j)
    par = [0] * n
    for i in range(1, n):
        code = next((ip * 8 + k for ip in range(i) for k in range(m) if tbl[ip * m + k] == i), None)
        if code is None:
            return 0, 0
        par[i] = code
    return pack_base(tbl, 128), pack_base(par, 1024)


def conj_perm(src_rots, tgt_rots, P):
    d = det(P)
    Pi = tuple(d * x for x in adj(P))
    idx = {r: j for j, r in enumerate(tgt_rots)}
    perm = [idx.get(mm(mm(Pi, R), P), 127) for R in src_rots]
    return pack_base(perm, 128)


# ------------------------------------------------------------------------------------------------
# invariants of finite integer matrix groups under conjugation in GL3(Z)

def fix_count(p, els):
    c = 0
    for v in itertools.product(range(p), repeat=3):
        if all(all((x - y) % p == 0 for x, y in zip(mv(g, v), v)) for g in els):
            c += 1
    return c


def inv_vector(rots, rot_types):
    """Moyo.TableSpec.invVec: histogram (10 slots), then for p in (2,3), transpose in (no, yes),
    T in (slot 0..9, all): number of v in (Z/p)^3 fixed by every element of type T."""
    slot = {(a, b): s for a, b, s in rot_types}
    res = [sum(1 for g in rots if slot.get(rtype(g)) == s) for s in range(10)]
    for p in (2, 3):
        for tflag in (False, True):
            els = [transpose(g) for g in rots] if tflag else list(rots)
            for s in range(10):
                res.append(fix_count(p, [g for g in els if slot.get(rtype(g)) == s]))
            res.append(fix_count(p, els))
    return res


# ------------------------------------------------------------------------------------------------
# part 3: certificates

def run_model(requests):
    if not os.path.exists(MODEL_BIN):
        die("moyo_model is not built (needed to dump the model's operation lists)")
    r = subprocess.run([MODEL_BIN], input="\n".join(requests) + "\n", capture_output=True, text=True)
    lines = r.stdout.split("\n")
    if lines and lines[-1] == "":
        lines.pop()
    if len(lines) != len(requests):
        die("moyo_model answered %d lines for %d requests" % (len(lines), len(requests)))
    return lines


def model_symbol(line):
    """Parse the answer of `hall`/`mhall`: dict or None."""
    if line == "none":
        return None
    parts = line.split(" ; ")
    if len(parts) != 5:
        return None
    return {"centering": parts[0], "gens": parse_ops(parts[1]), "ops": parse_ops(parts[2]),
            "pgens": parse_ops(parts[3]), "pops": parse_ops(parts[4])}


def load_tables():
    hall = T.calls(T.read("data/hall_symbol_database.rs"), "HallSymbolEntry", 8, 530)
    hall = [{"hall": T.rint(r[0]), "number": T.rint(r[1]), "arith": T.rint(r[2]), "setting": T.rstr(r[3]),
             "symbol": T.rstr(r[4]), "centering": T.renum(r[7], "Centering")} for r in hall]
    arith = T.calls(T.read("data/arithmetic_crystal_class.rs"), "ArithmeticCrystalClassEntry", 4, 73)
    arith = [{"arith": T.rint(r[0]), "geo": T.renum(r[2], "GeometricCrystalClass"), "bravais": T.renum(r[3], "BravaisClass")}
             for r in arith]
    s = T.read("data/setting.rs")
    settings = {}
    for cname in ("SPGLIB_HALL_NUMBERS", "STANDARD_HALL_NUMBERS"):
        m = re.search(r"const\s+" + cname + r"\s*:\s*\[HallNumber;\s*(\d+)\]\s*=\s*\[(.*?)\];", s, flags=re.S)
        settings[cname] = [T.rint(x.strip()) for x in m.group(2).replace("\n", " ").split(",") if x.strip()]
    msrc = T.read("data/magnetic_space_group.rs")
    ct = {"Type1": 1, "Type2": 2, "Type3": 3, "Type4": 4}
    mt = T.calls(msrc, "MagneticSpaceGroupType", 6, 1651)
    mt = [{"uni": T.rint(r[0]), "bns": T.rstr(r[2]), "number": T.rint(r[4]), "ct": ct[T.renum(r[5], "ConstructType")]} for r in mt]
    mh = T.calls(T.read("data/magnetic_hall_symbol_database.rs"), "MagneticHallSymbolEntry", 2, 1651)
    mh = [{"symbol": T.rstr(r[0]), "uni": T.rint(r[1])} for r in mh]
    return hall, arith, settings, mt, mh


def at(lst, i, default=None):
    return lst[i] if 0 <= i < len(lst) else default


def compute_certs(pg):
    hall, arith, settings, mt, mh = load_tables()
    houts = [model_symbol(l) for l in run_model(["hall " + e["symbol"] for e in hall])]
    mouts = [model_symbol(l) for l in run_model(["mhall " + e["symbol"] for e in mh])]
    key = hashlib.sha1(json.dumps([pg, hall, arith, settings, mt, mh, [repr(x) for x in houts], [repr(x) for x in mouts],
                                   open(__file__).read()], sort_keys=True, default=str).encode()).hexdigest()[:20]
    os.makedirs(WORK, exist_ok=True)
    cache = os.path.join(WORK, f"certs_{key}.json")
    if os.path.exists(cache):
        return json.load(open(cache))
    notes = []
    c = {}
    # --- packed operation lists, closure certificates
    c["hallOps"] = [pack(o["ops"]) if o else 0 for o in houts]
    c["hallPrim"] = [pack(o["pops"]) if o else 0 for o in houts]
    c["magOps"] = [pack(o["ops"]) if o else 0 for o in mouts]
    c["magPrim"] = [pack(o["pops"]) if o else 0 for o in mouts]
    hcl = [closure_cert(o["centering"], o["gens"], o["ops"]) if o else (0, 0) for o in houts]
    mcl = [closure_cert(o["centering"], o["gens"], o["ops"]) if o else (0, 0) for o in mouts]
    c["hallMul"], c["hallPar"] = [x[0] for x in hcl], [x[1] for x in hcl]
    c["magMul"], c["magPar"] = [x[0] for x in mcl], [x[1] for x in mcl]
    for e, x in zip(hall, hcl):
        if x == (0, 0) and e["hall"] != 1:
            notes.append(f"hall {e['hall']}: operation list is not closed under the generators modulo the centring lattice")
    for e, x in zip(mh, mcl):
        if x == (0, 0) and e["uni"] != 1:
            notes.append(f"uni {e['uni']}: operation list is not closed under the generators modulo the centring lattice")
    c["magSet"] = [pack_nats(sorted(op_code(x) for x in o["pops"])) if o else 0 for o in mouts]
    # --- geometric class index of each arithmetic class
    c["arithGeo"] = [pg["geoNames"].index(a["geo"]) if a["geo"] in pg["geoNames"] else 99 for a in arith]
    c["arithBravais"] = [pg["bravaisNames"].index(a["bravais"]) if a["bravais"] in pg["bravaisNames"] else 99 for a in arith]
    # --- (e1) conjugator onto the representative of the arithmetic class
    rep = {}
    for k in range(1, 74):
        h = at(pg["arithRepHall"], k - 1)
        rep[k] = at(houts, h - 1) if h else None
    ap, aperm = [], []
    for e, o in zip(hall, houts):
        r = rep.get(e["arith"])
        P = None
        if o and r:
            P = next(linear_conjugators([x[0] for x in o["pops"]], [x[0] for x in r["pgens"]], [x[0] for x in r["pops"]],
                                        limit=1), None)
        if P is None:
            notes.append(f"hall {e['hall']}: no unimodular conjugator onto the representative of arithmetic class {e['arith']} found")
        ap.append(list(P) if P else [0] * 9)
        aperm.append(conj_perm([x[0] for x in o["pops"]], [x[0] for x in r["pops"]], P) if P else 0)
    c["arithP"] = ap
    c["arithPerm"] = aperm
    # --- (e2) invariant vectors of the 73 representatives
    c["arithInv"] = [inv_vector([x[0] for x in rep[k]["pops"]], pg["rotTypes"]) if rep[k] else [] for k in range(1, 74)]
    # --- (f) proper affine conjugator onto the first setting of the type (= Spglib setting)
    first = {}
    for e in hall:
        first.setdefault(e["number"], e["hall"])
    sc, scp = [], []
    for e, o in zip(hall, houts):
        h0 = first[e["number"]]
        o0 = houts[h0 - 1]
        res = None
        if o and o0:
            res = affine_conjugator(o["pops"], o0["pops"], o0["pgens"])
        if res is None:
            notes.append(f"hall {e['hall']}: no proper affine conjugator onto hall {h0} found")
            sc.append([0] * 9 + [0, 0, 0, 12])
            scp.append(0)
        else:
            P, p, den = res
            sc.append(list(P) + list(p) + [den])
            scp.append(conj_perm([x[0] for x in o["pops"]], [x[0] for x in o0["pops"]], P))
    c["settingConj"] = sc
    c["settingPerm"] = scp
    # --- C17: reference group of each magnetic entry onto the Standard setting of its number
    std = settings["STANDARD_HALL_NUMBERS"]
    mc, mcp = [], []
    for t, o in zip(mt, mouts):
        hs = at(std, t["number"] - 1)
        o0 = at(houts, hs - 1) if hs else None
        res = None
        if o and o0:
            if t["ct"] == 3:
                ref = [(x[0], x[1], False) for x in o["pops"]]
            else:
                ref = [x for x in o["pops"] if not x[2]]
            if len({x[0] for x in ref}) == len(ref):
                res = affine_conjugator(ref, o0["pops"], o0["pgens"])
        if res is None:
            notes.append(f"uni {t['uni']}: reference group not conjugated onto hall {hs}")
            mc.append([0] * 9 + [0, 0, 0, 12])
            mcp.append(0)
        else:
            P, p, den = res
            mc.append(list(P) + list(p) + [den])
            mcp.append(conj_perm([x[0] for x in ref], [x[0] for x in o0["pops"]], P))
    c["magRefConj"] = mc
    c["magRefPerm"] = mcp
    def weight(o):
        return len(o["ops"]) * (len(o["gens"]) + 3) + 10 if o else 10
    c["hallWeight"] = [weight(o) for o in houts]
    c["magWeight"] = [weight(o) for o in mouts]
    c["arithWeight"] = [len(rep[k]["pops"]) + 2 if rep[k] else 2 for k in range(1, 74)]
    nr, prev = 0, None
    for t in mt:
        if t["number"] != prev:
            nr, prev = nr + 1, t["number"]
    c["nRanges"] = nr
    c["notes"] = notes
    for old in os.listdir(WORK):
        if re.fullmatch(r"certs_[0-9a-f]+\.json", old):
            try:
                os.unlink(os.path.join(WORK, old))
            except OSError:
                pass
    tmp = cache + f".{os.getpid()}.tmp"
    with open(tmp, "w") as f:
        json.dump(c, f)
    os.replace(tmp, cache)
    return c


def chunk_defs(name, ty, rows, size=64):
    """`def nameChunks : List (List ty)`: rows in chunks of 64, read with `Moyo.TableSpec.chunkGet`
    (a 1651-element list built with `++` costs the kernel seconds per theorem; this costs microseconds)."""
    nch = (len(rows) + size - 1) // size
    out = [f"def {name}Chunks : List (List {ty}) := [\n"]
    out.append(",\n".join("  [\n" + ",\n".join("  " + r for r in rows[c * size:(c + 1) * size]) + "\n  ]" for c in range(nch)))
    out.append("\n]\n\n")
    return "".join(out)


def write_table_chunks(nhall, nmag):
    """Chunk lists of the tables written by translate.py (same chunk size), for `chunkGet`."""
    o = [T.HEADER.replace("translate.py", "translate_c16.py"), "import Moyo.Generated.HallTable\nimport Moyo.Generated.MagTable\n",
         "namespace Moyo.Generated\n\n"]
    for name, ty, n in (("hallTable", "HallEntry", nhall), ("magTypeTable", "MagTypeEntry", nmag), ("magHallTable", "MagHallEntry", nmag)):
        nch = (n + 63) // 64
        o.append(f"def {name}Chunks : List (List {ty}) := [" + ", ".join(f"{name}Chunk{c}" for c in range(nch)) + "]\n\n")
    o.append("end Moyo.Generated\n")
    text = "".join(o)
    # imports must come first
    lines = text.split("\n")
    imports = [l for l in lines if l.startswith("import ")]
    rest = [l for l in lines if not l.startswith("import ")]
    T.write("TableChunks.lean", "\n".join(imports + rest))


def lean_int_list(v):
    return "[" + ", ".join(lean_int(x) for x in v) + "]"


def write_certs(c):
    hdr = T.HEADER.replace("translate.py", "translate_c16.py (searched certificates, re-checked by Moyo/Tables)")
    o = [hdr, "namespace Moyo.Generated.C16\n\n"]
    o.append("/-- packed `traverse` lists of the 530 Hall symbols (`Moyo.TableSpec.unpack`). -/\n")
    o.append(chunk_defs("hallOps", "Nat", ["  " + str(x) for x in c["hallOps"]]))
    o.append("/-- packed `primitive_traverse` lists. -/\n")
    o.append(chunk_defs("hallPrim", "Nat", ["  " + str(x) for x in c["hallPrim"]]))
    o.append("/-- closure certificates: right-multiplication tables (base 128) and parent codes (base 1024). -/\n")
    o.append(chunk_defs("hallMul", "Nat", ["  " + str(x) for x in c["hallMul"]]))
    o.append(chunk_defs("hallPar", "Nat", ["  " + str(x) for x in c["hallPar"]]))
    o.append("/-- index in `geoNames` of the geometric class of each arithmetic class. -/\n")
    o.append(f"def arithGeo : List Nat := {lean_nat_list(c['arithGeo'])}\n\n")
    o.append(f"def arithBravais : List Nat := {lean_nat_list(c['arithBravais'])}\n\n")
    o.append("/-- unimodular P with P⁻¹·G_prim·P = representative group of the entry's arithmetic class\n(packed, `Moyo.TableSpec.intsOfNat 9`). -/\n")
    o.append(chunk_defs("arithP", "Nat", ["  " + str(pack_ints(x)) for x in c["arithP"]]))
    o.append("/-- position in the representative list of the conjugate of each primitive rotation (base 128). -/\n")
    o.append(chunk_defs("arithPerm", "Nat", ["  " + str(x) for x in c["arithPerm"]]))
    o.append("/-- invariant vectors of the 73 representative groups. -/\n")
    o.append("def arithInv : List (List Nat) := [\n" + ",\n".join("  " + lean_nat_list(x) for x in c["arithInv"]) + "\n]\n\n")
    o.append("/-- proper affine (P, p/den) onto the first setting of the type: 9 entries of P, 3 numerators, den\n(packed, `Moyo.TableSpec.intsOfNat 13`). -/\n")
    o.append(chunk_defs("settingConj", "Nat", ["  " + str(pack_ints(x)) for x in c["settingConj"]]))
    o.append(chunk_defs("settingPerm", "Nat", ["  " + str(x) for x in c["settingPerm"]]))
    o.append("end Moyo.Generated.C16\n")
    T.write("C16Certs.lean", "".join(o))
    o = [hdr, "namespace Moyo.Generated.C17\n\n"]
    o.append(chunk_defs("magOps", "Nat", ["  " + str(x) for x in c["magOps"]]))
    o.append(chunk_defs("magPrim", "Nat", ["  " + str(x) for x in c["magPrim"]]))
    o.append("/-- packed sorted operation codes of the primitive operations (order-independent set code). -/\n")
    o.append(chunk_defs("magSet", "Nat", ["  " + str(x) for x in c["magSet"]]))
    o.append("/-- proper affine (P, p/den) carrying the reference group onto the Standard setting of `number`. -/\n")
    o.append(chunk_defs("magRefConj", "Nat", ["  " + str(pack_ints(x)) for x in c["magRefConj"]]))
    o.append(chunk_defs("magRefPerm", "Nat", ["  " + str(x) for x in c["magRefPerm"]]))
    o.append(chunk_defs("magMul", "Nat", ["  " + str(x) for x in c["magMul"]]))
    o.append(chunk_defs("magPar", "Nat", ["  " + str(x) for x in c["magPar"]]))
    o.append("end Moyo.Generated.C17\n")
    T.write("C17Certs.lean", "".join(o))


# ------------------------------------------------------------------------------------------------
# part 4: chunk modules (kernel-decided theorems; deterministic text)

CHUNK_HEADER = ("-- GENERATED by /verif/tools/translate_c16.py — only the chunk boundaries are generated; the statement is\n"
                "-- always `<rows checker> lo n = true` for the Bool checkers of Moyo/Tables/Spec.lean.  Do not edit.\n")


def greedy_chunks(weights, target, first=1):
    """Consecutive ranges (lo, n) with total weight <= target (at least one row each)."""
    res, lo, acc, n = [], first, 0, 0
    for i, w in enumerate(weights):
        if n > 0 and acc + w > target:
            res.append((lo, n))
            lo, acc, n = first + i, 0, 0
        acc += w
        n += 1
    if n:
        res.append((lo, n))
    return res


def write_module(rel, text):
    p = os.path.join(LEAN, rel)
    os.makedirs(os.path.dirname(p), exist_ok=True)
    old = open(p).read() if os.path.exists(p) else None
    if old != text:
        with open(p, "w") as f:
            f.write(text)
        print(f"translate_c16.py: wrote {rel}")


def assemble(kind, checker, row_fn, chunks, total, first=1):
    """Module `Moyo/Tables/<Kind>All.lean`: ∀ row in [first, total], row checker = true."""
    mods = [f"Moyo.Tables.{kind}C{c:03d}" for c in range(len(chunks))]
    o = [CHUNK_HEADER, "import Moyo.Proofs.TablesBasic\n"] + [f"import {m}\n" for m in mods]
    o.append("namespace Moyo.Tables\n\n")
    o.append(f"/-- Every row `{first} ≤ i ≤ {total}` passes `{row_fn}` (assembled from the {len(chunks)} chunk theorems). -/\n")
    o.append(f"theorem {kind.lower()}_rows : ∀ i : Nat, {first} ≤ i → i ≤ {total} → {row_fn} i = true := by\n  intro i h1 h2\n")
    for c, (lo, n) in enumerate(chunks):
        last = c == len(chunks) - 1
        if not last:
            o.append(f"  by_cases c{c} : i < {lo + n}\n  · exact rows_of_all {kind.lower()}_c{c:03d} i (by omega) (by omega)\n")
        else:
            o.append(f"  exact rows_of_all {kind.lower()}_c{c:03d} i (by omega) (by omega)\n")
    o.append("\nend Moyo.Tables\n")
    text = "".join(o)
    lines = text.split("\n")
    head = [l for l in lines if l.startswith("-- ")]
    imports = [l for l in lines if l.startswith("import ")]
    rest = [l for l in lines if not l.startswith("import ") and not l.startswith("-- ")]
    write_module(f"Moyo/Tables/{kind}All.lean", "\n".join(imports + head + rest))


def write_chunk_modules(c):
    os.makedirs(TABLES, exist_ok=True)
    plan = [("Hall", "hallRowsOK", "hallRowOK", greedy_chunks(c["hallWeight"], 900), len(c["hallWeight"]), 1),
            ("Mag", "magRowsOK", "magRowOK", greedy_chunks(c["magWeight"], 900), len(c["magWeight"]), 1),
            ("Arith", "arithRowsOK", "arithRowOK", greedy_chunks(c["arithWeight"], 100), len(c["arithWeight"]), 1),
            ("Range", "magRangesOK", "magRangeOK", greedy_chunks([1] * c["nRanges"], 46), c["nRanges"], 1)]
    keep = {"Spec.lean"}
    summary = {}
    for kind, checker, row_fn, chunks, total, first in plan:
        for k, (lo, n) in enumerate(chunks):
            name = f"{kind}C{k:03d}"
            keep.add(name + ".lean")
            text = ("import Moyo.Tables.Spec\n" + CHUNK_HEADER + "set_option maxRecDepth 1000000\nnamespace Moyo.Tables\n\n"
                    f"/-- Rows {lo}..{lo + n - 1}: `{row_fn}` holds (decided by the kernel). -/\n"
                    f"theorem {kind.lower()}_c{k:03d} : {checker} {lo} {n} = true := by decide +kernel\n\nend Moyo.Tables\n")
            write_module(f"Moyo/Tables/{name}.lean", text)
        assemble(kind, checker, row_fn, chunks, total, first)
        keep.add(f"{kind}All.lean")
        summary[kind] = chunks
    keep |= {"Misc.lean"}
    for f in os.listdir(TABLES):
        if f.endswith(".lean") and f not in keep and re.fullmatch(r"(Hall|Mag|Arith|Range)C\d+\.lean", f):
            os.unlink(os.path.join(TABLES, f))
            print(f"translate_c16.py: removed stale {f}")
    with open(os.path.join(WORK, "chunks.json"), "w") as f:
        json.dump(summary, f)
    return summary


def main():
    pg = translate_point_group()
    write_point_group(pg)
    tabs = load_tables()
    write_table_chunks(len(tabs[0]), len(tabs[3]))
    if "--tables-only" in sys.argv:
        return
    c = compute_certs(pg)
    write_certs(c)
    write_chunk_modules(c)
    for n in c["notes"]:
        print("translate_c16.py: NOTE " + n)


if __name__ == "__main__":
    main()
