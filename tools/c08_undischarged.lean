import Moyo.Model.C08Discharge
/-!
Diagnostic for C08's panic-site inventory (used by checks/c08.py when `Moyo.C08.all_sites_discharged` fails):

    cd /verif/lean && lake build Moyo.Model.C08Discharge && lake env lean /verif/tools/c08_undischarged.lean

prints one line per undischarged site   `file|fn|kind|line|expr`
       one line per known-finding site  `KEY <key>|file|fn|expr`
       one line per stale record        `STALE file|fn|<matcher text>`   (a record that matches no site any more)
       one line per changed fn          `REVIEW file|fn`   (fn text differs from the fingerprint its records were reviewed against)
       and a summary                    `SUMMARY sites=<n> by_fn_record=<a> by_bulk_rule=<b> undischarged=<c> known_finding_sites=<k> stale=<s> review=<r>`
-/
open Moyo.C08Inv Moyo.C08Inv.Table Moyo.Generated.C08

def matcherText : Matcher → String
  | .exact k e n => s!"exact {k.name} x{n} {e}"
  | .pre k p => s!"prefix {k.name} {p}"
  | .cls k c ev => s!"cls {k.name} {c} {ev.getD "*"}"

#eval show IO Unit from do
  let und := undischarged sitesByFile table bulkRules
  for (file, fn, s) in und do
    IO.println s!"{file}|{fn}|{s.kind.name}|{s.line}|{s.expr}"
  let keys := knownFindingKeys sitesByFile table bulkRules
  for (k, file, fn, e) in keys do
    IO.println s!"KEY {k}|{file}|{fn}|{e}"
  let stale := staleRecords sitesByFile table
  for (file, fn, r) in stale do
    IO.println s!"STALE {file}|{fn}|{matcherText r.m}"
  let changed := changedBodies sitesByFile table
  for (file, fn) in changed do
    IO.println s!"REVIEW {file}|{fn}"
  let (a, b, c) := tally sitesByFile table bulkRules
  IO.println s!"SUMMARY sites={(allSites sitesByFile).length} by_fn_record={a} by_bulk_rule={b} undischarged={c} known_finding_sites={keys.length} stale={stale.length} review={changed.length}"
