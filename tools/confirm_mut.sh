#!/bin/bash
# Confirm a seeded change in its scratch worktree: suite passes with it, demo fails with it, demo passes without it.
# usage: confirm_mut.sh <property id>   (worktree /tmp/mut-<id>, deliverables /tmp/mut-<id>-out)
id=$1
wt=/tmp/${PFX:-mut}-$id
out=/tmp/${PFX:-mut}-$id-out
export CARGO_TARGET_DIR=/tmp/confirm-target CARGO_NET_OFFLINE=true
cd $wt || exit 2
git checkout -q -- . 2>/dev/null
git apply $out/patch.diff || { echo "CONFIRM $id: patch does not apply"; exit 2; }
mkdir -p moyo/tests; cp $out/mut_demo.rs moyo/tests/mut_demo.rs 2>/dev/null
res=$(cargo test --workspace --no-fail-fast --offline 2>&1 | grep -E "^test result|^test .* FAILED|Running|error(\[|:)" )
suite_fail=$(echo "$res" | grep "^test .* FAILED" | grep -v "mut_demo" | wc -l)
demo_with=$(cd $wt && cargo test -p moyo --offline --test mut_demo 2>&1 | grep "^test result" | head -1)
git apply -R $out/patch.diff
demo_without=$(cargo test -p moyo --offline --test mut_demo 2>&1 | grep "^test result" | head -1)
git apply $out/patch.diff
echo "CONFIRM $id: other-suite-failures-with-change=$suite_fail | demo with change: $demo_with | demo without change: $demo_without"
echo "$res" | grep "^test result" | tr '\n' ';'
echo
