#!/usr/bin/env python3
"""seeded_run.py [name ...] : for each /verif/seeded/<name>: apply patch.diff to /repo, run the listed checks
(quick tier), record exit codes / VIOLATION lines in meta.json["detection"], undo the patch (git checkout -- .)."""
import json, os, subprocess, sys, time
names = sys.argv[1:] or sorted(os.listdir("/verif/seeded"))
st = subprocess.run(["git", "-C", "/repo", "status", "--porcelain"], capture_output=True, text=True).stdout.strip()
if st:
    print("refusing: /repo working tree is not clean:\n" + st); sys.exit(2)
import shutil
# the checks rewrite /verif/evidence on every run: keep the evidence of the unchanged tree aside and put it back afterwards
if os.path.isdir("/verif/evidence"):
    shutil.rmtree("/verif/.cache/work/evidence_backup", ignore_errors=True)
    shutil.copytree("/verif/evidence", "/verif/.cache/work/evidence_backup")
for n in names:
    d = f"/verif/seeded/{n}"
    meta = json.load(open(f"{d}/meta.json"))
    r = subprocess.run(["git", "-C", "/repo", "apply", f"{d}/patch.diff"], capture_output=True, text=True)
    if r.returncode != 0:
        print(n, "patch does not apply:", r.stderr[:300]); continue
    det = {}
    try:
        for pid in meta.get("checks_to_run", [meta["property"]]):
            t = time.time()
            c = subprocess.run([sys.executable, "/verif/check.py", pid, "--tier", "quick"], capture_output=True, text=True, cwd="/verif")
            lines = [l for l in c.stdout.splitlines() if l.startswith(("VIOLATION", "KNOWN-FINDING"))]
            det[pid] = {"exit": c.returncode, "lines": [l[:300] for l in lines], "wall_s": round(time.time() - t, 1)}
            print(n, pid, "exit", c.returncode, lines[:1])
    finally:
        subprocess.run(["git", "-C", "/repo", "checkout", "--", "."], check=True)
    meta["detection"] = det
    meta["detected"] = any(v["exit"] == 1 and any(l.startswith("VIOLATION") for l in v["lines"]) for v in det.values())
    json.dump(meta, open(f"{d}/meta.json", "w"), indent=1)

if os.path.isdir("/verif/.cache/work/evidence_backup"):
    shutil.rmtree("/verif/evidence", ignore_errors=True)
    shutil.copytree("/verif/.cache/work/evidence_backup", "/verif/evidence")
