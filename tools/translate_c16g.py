#!/usr/bin/env python3
"""Certificates and chunk modules for clause (g) of C16 within an arithmetic class
(`Moyo/Props/C16Types.lean`: space-group types with different ITA numbers are not affinely conjugate).

Inputs
  * /repo tables (Hall table, SPGLIB_HALL_NUMBERS) through tools/translate_c16.py `load_tables`,
  * the primitive operation lists of the first Hall setting of each type, printed by the compiled model
    (`moyo_model`, command `hall`), exactly the lists the kernel theorems talk about,
  * tools/c16g_specs.json: for every arithmetic class a list of *counting systems* (`Moyo.TypeInvariant.Spec`)
    and of *rotation-subset systems* that were found by search (tools/typesearch/, see the README there) to separate the types
    of the class.  They are certificates: nothing about them is trusted.

Outputs (rewritten only when the content changes)
  * lean/Moyo/Generated/C16TypeSpecs.lean — the systems per class and, for every ITA number, the expected
    invariant vector (recomputed here in Python from the current tables),
  * lean/Moyo/Tables/TypesC*.lean, PrimRotC*.lean — kernel-decided chunk theorems
    `typeRowsOK lo n = true`, `primRotsRowsOK lo n = true`,
  * lean/Moyo/Tables/TypesAll.lean — assembly `types_rows`, `prim_rots_rows`, and `types_distinct`.

A wrong system / expected vector makes a chunk theorem (or `types_distinct`) fail; it cannot make a false
statement provable.  With `--tables-only`, or when the model binary is missing, nothing is written.
"""
import hashlib
import itertools
import json
import os
import re
import sys

HERE = os.path.dirname(os.path.abspath(__file__))
sys.path.insert(0, HERE)
import translate as T  # noqa: E402
import translate_c16 as C  # noqa: E402

VERIF = os.path.dirname(HERE)
LEAN = os.path.join(VERIF, "lean")
WORK = os.path.join(VERIF, ".cache", "work", "c16g")
SPECS = os.path.join(HERE, "c16g_specs.json")

I3 = (1, 0, 0, 0, 1, 0, 0, 0, 1)


def mm(a, b):
    return tuple(sum(a[3 * i + k] * b[3 * k + j] for k in range(3)) for i in range(3) for j in range(3))


def mv(a, v):
    return tuple(sum(a[3 * i + k] * v[k] for k in range(3)) for i in range(3))


def trace(a):
    return a[0] + a[4] + a[8]


def det(a):
    return a[0] * (a[4] * a[8] - a[5] * a[7]) - a[1] * (a[3] * a[8] - a[5] * a[6]) + a[2] * (a[3] * a[7] - a[4] * a[6])


def det3(u, v, w):
    return u[0] * (v[1] * w[2] - v[2] * w[1]) - v[0] * (u[1] * w[2] - u[2] * w[1]) + w[0] * (u[1] * v[2] - u[2] * v[1])


def op_mul(g, h):
    return (mm(g[0], h[0]), tuple(x + y for x, y in zip(mv(g[0], h[1]), g[1])), g[2] != h[2])


ONE = (I3, (0, 0, 0), False)


def eval_word(os_, w):
    """Value of the word on the tuple `os_` and its coefficient matrices (see Moyo.TypeInvariant.coef)."""
    acc = ONE
    coef = [[0] * 9 for _ in os_]
    for i in w:
        g = os_[i] if i < len(os_) else ONE
        if i < len(os_):
            coef[i] = [x + y for x, y in zip(coef[i], acc[0])]
        acc = op_mul(acc, g)
    return acc, coef


def type_is(tau, o):
    return trace(o[0]) == tau[0] and det(o[0]) == tau[1] and o[2] == bool(tau[2])


def compile_pair(os_, wa, wb):
    a, ca = eval_word(os_, wa)
    b, cb = eval_word(os_, wb)
    ok = a[0] == b[0] and a[2] == b[2]
    d = tuple(x - y for x, y in zip(a[1], b[1]))
    c = [tuple(x - y for x, y in zip(p, q)) for p, q in zip(ca, cb)]
    return ok, d, c


def count(spec, ops):
    """Number of solutions of the system in G/mT: same definition as `Moyo.TypeInvariant.count`."""
    m, types, eqs, dets = spec["m"], spec["types"], spec["eqs"], spec["dets"]
    r = len(types)
    vecs = list(itertools.product(range(m), repeat=3))
    reps = [[o for o in ops if type_is(t, o)] for t in types]
    total = 0
    for os_ in itertools.product(*reps):
        eqd = [compile_pair(os_, e[0], e[1]) for e in eqs]
        detd = [[compile_pair(os_, d[0], d[1]), compile_pair(os_, d[2], d[3]), compile_pair(os_, d[4], d[5]), d[6]] for d in dets]
        if not all(e[0] for e in eqd):
            continue
        if not all(p[0] and all(x % 12 == 0 for x in p[1]) for d in detd for p in d[:3]):
            continue
        mod = 12 * m
        # per equation and slot: table n -> 12 C n (mod 12 m)
        eq_tabs = [[[tuple((12 * x) % mod for x in mv(e[2][j], n)) for n in vecs] for j in range(r)] for e in eqd]
        det_tabs = [[[[mv(p[2][j], n) for n in vecs] for j in range(r)] for p in d[:3]] for d in detd]
        for idx in itertools.product(range(len(vecs)), repeat=r):
            good = True
            for e, tabs in zip(eqd, eq_tabs):
                for k in range(3):
                    s = e[1][k]
                    for j in range(r):
                        s += tabs[j][idx[j]][k]
                    if s % mod:
                        good = False
                        break
                if not good:
                    break
            if not good:
                continue
            for d, tabs in zip(detd, det_tabs):
                us = []
                for p, ptab in zip(d[:3], tabs):
                    u = [x // 12 for x in p[1]]
                    for j in range(r):
                        v = ptab[j][idx[j]]
                        u = [u[0] + v[0], u[1] + v[1], u[2] + v[2]]
                    us.append(u)
                if (det3(us[0], us[1], us[2]) - d[3]) % m:
                    good = False
                    break
            if good:
                total += 1
    return total


def sat_rots(spec, ops):
    """Linear parts of the representatives with a lift solving the one-unknown system."""
    if len(spec["types"]) != 1:
        return []
    res = []
    for o in ops:
        if not type_is(spec["types"][0], o):
            continue
        one = dict(spec)
        if count_single(one, o) > 0:
            res.append(o[0])
    return res


def count_single(spec, o):
    return count(spec, [o])


def lean_int(x):
    return str(x) if x >= 0 else f"({x})"


def lean_word(w):
    return "[" + ", ".join(str(i) for i in w) + "]"


def lean_spec(s):
    types = ", ".join(f"({lean_int(t[0])}, {lean_int(t[1])}, {'true' if t[2] else 'false'})" for t in s["types"])
    eqs = ", ".join(f"({lean_word(e[0])}, {lean_word(e[1])})" for e in s["eqs"])
    dets = ", ".join("⟨" + ", ".join(lean_word(w) for w in d[:6]) + f", {lean_int(d[6])}⟩" for d in s["dets"])
    return f"⟨{s['m']}, [{types}], [{eqs}], [{dets}]⟩"


def tuples_of(spec, ops):
    c = 1
    for t in spec["types"]:
        c *= sum(1 for o in ops if type_is(t, o)) * spec["m"] ** 3
    return c


HEADER = ("-- GENERATED by /verif/tools/translate_c16g.py from /repo (Hall table, first settings), the model's primitive\n"
          "-- operation lists and tools/c16g_specs.json.  Do not edit.\n")


def main():
    if "--tables-only" in sys.argv:
        return
    if not os.path.exists(C.MODEL_BIN):
        print("translate_c16g.py: moyo_model is not built yet; nothing written")
        return
    hall, arith, settings, mt, mh = C.load_tables()
    first = settings["SPGLIB_HALL_NUMBERS"]
    pg = C.translate_point_group()
    spec_src = open(SPECS).read()
    specs = json.loads(spec_src)
    houts = [C.model_symbol(l) for l in C.run_model(["hall " + hall[h - 1]["symbol"] for h in first])]
    key = hashlib.sha1(json.dumps([hall, first, pg["rotTypes"], [repr(x) for x in houts], spec_src, open(__file__).read()],
                                  sort_keys=True, default=str).encode()).hexdigest()[:20]
    os.makedirs(WORK, exist_ok=True)
    cache = os.path.join(WORK, f"certs_{key}.json")
    if os.path.exists(cache):
        data = json.load(open(cache))
    else:
        rows, weights = [], []
        for n, (h, ms) in enumerate(zip(first, houts), start=1):
            k = hall[h - 1]["arith"]
            if ms is None:
                rows.append([])
                weights.append(1)
                continue
            ops = [(tuple(o[0]), tuple(x % 12 for x in o[1]), bool(o[2])) for o in ms["pops"]]
            cs = specs["count"].get(str(k), [])
            rs = specs["rot"].get(str(k), [])
            vec = [count(s, ops) for s in cs]
            for s in rs:
                vec += C.inv_vector(sat_rots(s, ops), pg["rotTypes"])
            rows.append(vec)
            weights.append(200 + sum(tuples_of(s, ops) for s in cs) + 50 * len(ops) * len(rs))
        data = {"rows": rows, "weights": weights}
        with open(cache, "w") as f:
            json.dump(data, f)
    rows, weights = data["rows"], data["weights"]

    # report what the certificates separate (information only; the kernel decides)
    seen = {}
    for n, (h, v) in enumerate(zip(first, rows), start=1):
        kk = (hall[h - 1]["arith"], tuple(v))
        if kk in seen:
            print(f"translate_c16g.py: NOTE types {seen[kk]} and {n} are not separated by the systems of class {kk[0]}")
        seen.setdefault(kk, n)

    o = [HEADER, "import Moyo.Model.TypeInvariant\n",
         "namespace Moyo.Generated.C16\nopen Moyo Moyo.TypeInvariant\n\n",
         "/-- Counting systems per arithmetic class (searched certificates). -/\ndef typeSpecs : Nat → List Spec\n"]
    for k in sorted(specs["count"], key=int):
        if specs["count"][k]:
            o.append(f"  | {k} => [" + ",\n      ".join(lean_spec(s) for s in specs["count"][k]) + "]\n")
    o.append("  | _ => []\n\n")
    o.append("/-- One-unknown systems per arithmetic class whose solution set (a subset of the point group) is\n"
             "classified by its GL₃(ℤ)-invariants. -/\ndef rotSpecs : Nat → List Spec\n")
    for k in sorted(specs["rot"], key=int):
        if specs["rot"][k]:
            o.append(f"  | {k} => [" + ",\n      ".join(lean_spec(s) for s in specs["rot"][k]) + "]\n")
    o.append("  | _ => []\n\n")
    o.append("/-- Expected invariant vector of the first setting of every ITA number (row `n - 1`). -/\n")
    o.append("def typeInvCert : List (List Nat) := [\n" + ",\n".join("  [" + ", ".join(str(x) for x in v) + "]" for v in rows) + "\n]\n\n")
    o.append("end Moyo.Generated.C16\n")
    text = "".join(o)
    lines = text.split("\n")
    imports = [l for l in lines if l.startswith("import ")]
    rest = [l for l in lines if not l.startswith("import ")]
    write_module("Moyo/Generated/C16TypeSpecs.lean", "\n".join(imports + rest))

    plan = [("Types", "typeRowsOK", "typeRowOK", C.greedy_chunks(weights, 45000), len(weights)),
            ("PrimRot", "primRotsRowsOK", "primRotsOK", C.greedy_chunks([1] * len(hall), 90), len(hall))]
    keep = set()
    asm = [HEADER]
    mods = []
    for kind, checker, row_fn, chunks, total in plan:
        for c, (lo, n) in enumerate(chunks):
            name = f"{kind}C{c:03d}"
            keep.add(name + ".lean")
            mods.append(f"Moyo.Tables.{name}")
            write_module(f"Moyo/Tables/{name}.lean",
                         "import Moyo.Tables.TypeInv\n" + HEADER + "set_option maxRecDepth 1000000\nnamespace Moyo.Tables\n\n"
                         f"/-- Rows {lo}..{lo + n - 1}: `{row_fn}` holds (decided by the kernel). -/\n"
                         f"theorem {kind.lower()}_c{c:03d} : {checker} {lo} {n} = true := by decide +kernel\n\nend Moyo.Tables\n")
    body = ["namespace Moyo.Tables\n\n"]
    for kind, checker, row_fn, chunks, total in plan:
        thm = "types_rows" if kind == "Types" else "prim_rots_rows"
        body.append(f"/-- Every row `1 ≤ i ≤ {total}` passes `{row_fn}` (assembled from the {len(chunks)} chunk theorems). -/\n")
        body.append(f"theorem {thm} : ∀ i : Nat, 1 ≤ i → i ≤ {total} → {row_fn} i = true := by\n  intro i h1 h2\n")
        for c, (lo, n) in enumerate(chunks):
            if c != len(chunks) - 1:
                body.append(f"  by_cases c{c} : i < {lo + n}\n  · exact rows_of_all {kind.lower()}_c{c:03d} i (by omega) (by omega)\n")
            else:
                body.append(f"  exact rows_of_all {kind.lower()}_c{c:03d} i (by omega) (by omega)\n")
        body.append("\n")
    body.append("set_option maxRecDepth 1000000 in\n"
                "/-- The pairs (arithmetic class, invariant vector) of the 230 types are pairwise different. -/\n"
                "theorem types_distinct : typesDistinctOK = true := by decide +kernel\n\nend Moyo.Tables\n")
    write_module("Moyo/Tables/TypesAll.lean",
                 "import Moyo.Proofs.TablesBasic\n" + "".join(f"import {m}\n" for m in mods) + HEADER + "".join(body))
    keep.add("TypesAll.lean")
    tdir = os.path.join(LEAN, "Moyo", "Tables")
    for f in os.listdir(tdir):
        if re.fullmatch(r"(Types|PrimRot)C\d+\.lean", f) and f not in keep:
            os.unlink(os.path.join(tdir, f))
            print(f"translate_c16g.py: removed stale {f}")
    with open(os.path.join(WORK, "chunks.json"), "w") as f:
        json.dump({kind: chunks for kind, _, _, chunks, _ in plan}, f)


def write_module(rel, text, tag="translate_c16g.py"):
    p = os.path.join(LEAN, rel)
    os.makedirs(os.path.dirname(p), exist_ok=True)
    old = open(p).read() if os.path.exists(p) else None
    if old != text:
        with open(p, "w") as f:
            f.write(text)
        print(f"{tag}: wrote {rel}")


if __name__ == "__main__":
    main()
