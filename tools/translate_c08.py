#!/usr/bin/env python3
"""T6 — inventory of potential panic sites in moyo's non-test, non-verif code (property C08).

Reads every .rs file under <src> (default $VERIF_REPO/moyo/src, override with --src), drops the items /
statements under `#[cfg(test)]` and `#[cfg(feature = "verif")]`, and lists every place where the shipped
library can panic, purely lexically:

  kind          what
  unwrap        `.unwrap()` / `.unwrap_unchecked()` / `.unwrap_err()`
  expect        `.expect(..)` / `.expect_err(..)`
  assert        `assert!` `assert_eq!` `assert_ne!`
  debugAssert   `debug_assert!` `debug_assert_eq!` `debug_assert_ne!` (debug builds only)
  unreachable   `unreachable!`
  panic         `panic!`
  todo          `todo!` `unimplemented!`
  index         `base[ix]` (Vec, slice, array, HashMap `m[&k]`, nalgebra `m[(i, j)]`, `&s[a..b]`) — ALL of them,
                also those with literal-only indices (class `literal-index`, or `fixed-literal` when the translator
                sees the declared fixed-size type of the base and checks the literal against it)
  sub           binary `-` whose left operand is visibly unsigned: ends with `as usize|u8|u16|u32|u64`,
                `.len()`, `.count()`, `.nrows()`, `.ncols()`, or is an identifier declared `: usize`
                / bound by `let x = … .len()` / `… as usize` in the enclosing fn (underflow panics with overflow checks,
                wraps in release and then usually indexes out of range)
  div           `/`, `%`, `/=`, `%=` whose right operand is not a literal (integer division by zero panics);
                class `float-operand` when the TYPE of the divisor or of the dividend is visibly a float: the operand
                is a float literal, ends with `as f64`, ends with a float-only method call (`.sqrt()`, `.norm()`,
                `.norm_squared()`, `.powf(..)`, …), is `….parse::<f64>().unwrap()`, or is a lone identifier declared
                `: f64` in the fn (Rust has no mixed-type division, so one float operand suffices)
  call          methods / constructors that panic on bad arguments: `.remove(` `.swap(` `.swap_remove(` `.split_at(`
                `.split_at_mut(` `.chunks(` `.chunks_exact(` `.windows(` `.step_by(` `.copy_from_slice(` `.clone_from_slice(`
                `.drain(` `.split_off(` `.insert(` (2 arguments, `Vec::insert`) `.column(` `.row(` `.column_mut(` `.row_mut(`
                `.columns(` `.rows(` `.fixed_view` `.fixed_view_mut` `.view(` `.view_mut(` `.fixed_rows` `.fixed_columns`
                `.swap_rows(` `.swap_columns(` `.set_column(` `.set_row(` `.div_euclid(` `.rem_euclid(` `.pow(` `.union(` and
                `.find(<not a closure>)` (union-find, panic out of range)
                `::from_row_slice(` `::from_column_slice(` `::from_vec(` `::from_iterator(` `::from_row_iterator(`
                `::from_rows(` `::from_columns(` `::from_fn(` is total and not listed.
  NOT listed (by decision, see DESIGN §C08): `+`/`*` integer overflow (C15 covers the matrix kernels), `RefCell` borrows,
  `Lazy` deref, allocation failure, stack overflow, `slice::sort_by` comparator inconsistencies, arithmetic `abs()`/`neg` of MIN.

For each site: file (relative to moyo/src), line, fn (qualified enclosing fn as `Type::method`; `<module>` /
`<static NAME>` outside fns; the enclosing named fn for closures), kind, expr (normalised text: tokens joined by one
space; unwrap/expect/call: the receiver chain from the start of the postfix expression; index: `base [ index ]`;
macros: the call with its arguments; sub/div: `left op right`; capped at 160 characters: postfix chains keep the
first 60 and the last 96 characters around ` … `, everything else keeps the start), cls + ev (a lexical classification with its evidence, for bulk rules):

  literal-index          index made only of integer literals; ev `max=<largest literal>`
  fixed-literal          literal index AND the base is a parameter / annotated let / `let x = [v; N]` / `let x = [a, b, c]` /
                         struct field (through `self.f`) /
                         `const`/`static` whose declared type is a fixed-size nalgebra alias or array, not re-bound in
                         the fn, and every literal is within the static size; ev `<type> max=<m>`
  loopvar-literal-range  every identifier of the index is the variable of an enclosing `for v in a..b` / `a..=b` /
                         `iproduct!(a..b, …)` or closure parameter of `(a..b).map(|v| …)` (also filter/all/any/
                         for_each/flat_map/filter_map/find/position) with literal bounds, and the index is only
                         variables, commas and parentheses; ev `max=<largest value>`
  fixed-loopvar          loopvar-literal-range AND the base has a visible fixed-size type that the max fits; ev `<type> max=<m>`
  mod-literal            index (each component) is `<var|(..)> % <literal>`; ev `max=<literal-1>`
  len-guarded            the index is a single variable of an enclosing `for v in <literal>..B.len()` / `(0..B.len()).map(|v|`
                         where B is textually the index base; ev the loop header
  iter-enumerate-index   the index is the counter variable of an enclosing `for (v, _) in B.iter().enumerate()` where B is
                         textually the base; ev the loop header
  const-table-index      the base is an ALL_CAPS static/const; ev its name
  map-key                index starts with `&` (HashMap / BTreeMap `Index`); ev ""
  range-slice            the index contains `..` (slicing); ev ""
  float-operand          (div) see above
  literal-arg            (call) every argument is an integer literal (non-zero for div_euclid / rem_euclid); ev the literals
  literal-subtrahend     (sub) the right operand is an integer literal; ev why the left operand is unsigned
  insert-2-args / find-non-closure   (call) which heuristic listed the call
  debug-only             (debugAssert)
  none                   nothing recognised
The classes are hints computed lexically; `fixed-literal` / `fixed-loopvar` / `mod-literal` with a fixed type are the only ones that
establish the bound by themselves (declared type read off the source); every other class is discharged per function
in Moyo/Model/C08Discharge.lean after reading the code.

Output: Moyo/Generated/C08Sites.lean (written only when the content changed), sites grouped file → fn (kernel string
equality is slow; grouping keeps the number of comparisons small); every fn group carries `body`, a 48-bit fingerprint
(sha256) of the token text of the fn including its signature — insensitive to comments / blank lines / formatting —
which the discharge table pins to say "this is the text the justifications were written against" (`--bodies` lists them); `--json <path>` the same data for checks/c08.py;
`--out <path>` another Lean output path (experiments on modified trees).  No arguments: regenerate and print a
one-line summary.  Exit 1 (naming file:line) when a file cannot be tokenised / structured.
"""
import argparse
import hashlib
import json
import os
import re
import sys

VERIF = os.path.dirname(os.path.dirname(os.path.abspath(__file__)))
OUT = os.path.join(VERIF, "lean", "Moyo", "Generated", "C08Sites.lean")
CAP = 160


def die(msg):
    print("translate_c08.py: " + msg, file=sys.stderr)
    sys.exit(1)


# ------------------------------------------------------------------------------------------------
# tokeniser (copied from translate_c18.py)

class Tok:
    __slots__ = ("k", "t", "line")

    def __init__(self, k, t, line):
        self.k, self.t, self.line = k, t, line

    def __repr__(self):
        return f"{self.t}@{self.line}"


MULTI = ["..=", "::", "->", "=>", ".."]
IDENT_START = re.compile(r"[A-Za-z_]")
IDENT = re.compile(r"[A-Za-z_][A-Za-z0-9_]*")
NUM = re.compile(r"[0-9][0-9A-Za-z_]*(\.[0-9][0-9A-Za-z_]*)?")


def tokenize(src, path):
    toks = []
    i, n, line = 0, len(src), 1
    while i < n:
        c = src[i]
        if c == "\n":
            line += 1
            i += 1
            continue
        if c.isspace():
            i += 1
            continue
        if src.startswith("//", i):
            j = src.find("\n", i)
            i = n if j < 0 else j
            continue
        if src.startswith("/*", i):
            depth, j = 1, i + 2
            while depth and j < n:
                if src.startswith("/*", j):
                    depth += 1
                    j += 2
                elif src.startswith("*/", j):
                    depth -= 1
                    j += 2
                else:
                    if src[j] == "\n":
                        line += 1
                    j += 1
            if depth:
                die(f"{path}:{line}: unterminated block comment")
            i = j
            continue
        # raw / byte strings
        m = re.match(r"(b?r)(#*)\"", src[i:i + 40])
        if m and (i == 0 or not (src[i - 1].isalnum() or src[i - 1] == "_")):
            hashes = m.group(2)
            end = src.find('"' + hashes, i + len(m.group(0)))
            if end < 0:
                die(f"{path}:{line}: unterminated raw string")
            text = src[i:end + 1 + len(hashes)]
            toks.append(Tok("str", text, line))
            line += text.count("\n")
            i = end + 1 + len(hashes)
            continue
        if c == '"' or (c == "b" and src.startswith('b"', i)):
            j = i + (2 if c == "b" else 1)
            while j < n and src[j] != '"':
                if src[j] == "\\":
                    j += 1
                j += 1
            if j >= n:
                die(f"{path}:{line}: unterminated string")
            text = src[i:j + 1]
            toks.append(Tok("str", text, line))
            line += text.count("\n")
            i = j + 1
            continue
        if c == "'":
            # char literal or lifetime
            m = re.match(r"'(\\.[^']*|[^\\'])'", src[i:i + 14])
            if m:
                toks.append(Tok("chr", m.group(0), line))
                i += len(m.group(0))
                continue
            m = IDENT.match(src, i + 1)
            if m:
                toks.append(Tok("life", "'" + m.group(0), line))
                i = m.end()
                continue
            die(f"{path}:{line}: stray quote")
        if IDENT_START.match(c):
            m = IDENT.match(src, i)
            toks.append(Tok("id", m.group(0), line))
            i = m.end()
            continue
        if c.isdigit():
            m = NUM.match(src, i)
            text = m.group(0)
            # `0..3`: do not swallow the range dots
            if ".." in src[i:i + len(text) + 1] and "." in text:
                text = text.split(".")[0]
            toks.append(Tok("num", text, line))
            i += len(text)
            continue
        for mp in MULTI:
            if src.startswith(mp, i):
                toks.append(Tok("p", mp, line))
                i += len(mp)
                break
        else:
            toks.append(Tok("p", c, line))
            i += 1
    return toks


OPEN = {"(": ")", "[": "]", "{": "}"}
CLOSE = {")": "(", "]": "[", "}": "{"}


def match_forward(toks, i):
    """index of the token closing the bracket opened at i"""
    o = toks[i].t
    c = OPEN[o]
    depth = 0
    for j in range(i, len(toks)):
        if toks[j].k == "p":
            if toks[j].t == o:
                depth += 1
            elif toks[j].t == c:
                depth -= 1
                if depth == 0:
                    return j
    return None


def match_backward(toks, i):
    """index of the token opening the bracket closed at i"""
    c = toks[i].t
    o = CLOSE[c]
    depth = 0
    for j in range(i, -1, -1):
        if toks[j].k == "p":
            if toks[j].t == c:
                depth += 1
            elif toks[j].t == o:
                depth -= 1
                if depth == 0:
                    return j
    return None


def strip_cfg_test(toks, path):
    """Remove `#[cfg(test)]` (also cfg(all(test, ..))) and `#[cfg(feature = "verif")]` together with the item or
    statement the attribute is attached to (copied from translate_c18.py)."""
    out = []
    i = 0
    removed = 0
    while i < len(toks):
        t = toks[i]
        if t.t == "#" and i + 1 < len(toks) and toks[i + 1].t == "[":
            close = match_forward(toks, i + 1)
            if close is None:
                die(f"{path}:{t.line}: unbalanced attribute")
            inner = [x.t for x in toks[i + 2:close]]
            is_test = len(inner) >= 3 and inner[0] == "cfg" and "test" in inner and "not" not in inner
            is_hook = (len(inner) >= 5 and inner[0] == "cfg" and "feature" in inner and "not" not in inner
                       and any(x.strip('"') == "verif" for x in inner))
            is_test = is_test or is_hook
            if is_test:
                j = close + 1
                while j + 1 < len(toks) and toks[j].t == "#" and toks[j + 1].t == "[":
                    j = match_forward(toks, j + 1) + 1
                depth = 0
                while j < len(toks):
                    x = toks[j]
                    if x.k == "p":
                        if x.t in "([":
                            depth += 1
                        elif x.t in ")]":
                            depth -= 1
                        elif x.t == ";" and depth == 0:
                            j += 1
                            break
                        elif x.t == "{" and depth == 0:
                            e = match_forward(toks, j)
                            if e is None:
                                die(f"{path}:{x.line}: unbalanced braces in cfg(test) item")
                            j = e + 1
                            break
                    j += 1
                removed += 1
                i = j
                continue
        out.append(t)
        i += 1
    return out, removed


# ------------------------------------------------------------------------------------------------
# structure: enclosing fn / struct for every token (copied from translate_c18.py)

class FileInfo:
    pass


def analyse_structure(toks, path):
    n = len(toks)
    fn_of = ["<module>"] * n
    ctx_kind = [None] * n        # innermost brace context kind: fn | struct | impl | mod | static | other
    ctx_name = [None] * n
    sig_of = [None] * n          # inside a fn signature (between `fn name` and its body): index into fns
    fn_idx = [None] * n          # index into fns of the innermost enclosing fn body
    fns = []                     # dicts: name, sig_start, body_open, body_close
    stack = []                   # (kind, name, fnname, fnidx)
    pending = None               # (kind, name, depth_at_decl)
    paren = 0
    cur_sig = None
    i = 0
    while i < n:
        t = toks[i]
        top = stack[-1] if stack else ("module", None, "<module>", None)
        fn_of[i] = top[2]
        fn_idx[i] = top[3]
        ctx_kind[i], ctx_name[i] = top[0], top[1]
        sig_of[i] = cur_sig
        if t.k == "id":
            if t.t == "fn" and i + 1 < n and toks[i + 1].k == "id":
                fns.append({"name": toks[i + 1].t, "sig_start": i, "body_open": None, "body_close": None,
                            "outer": top[2], "impl": top[1] if top[0] == "impl" else None})
                pending = ("fn", toks[i + 1].t, paren)
                cur_sig = len(fns) - 1
            elif t.t in ("struct", "enum", "union") and i + 1 < n and toks[i + 1].k == "id" and pending is None:
                pending = ("struct" if t.t == "struct" else "other", toks[i + 1].t, paren)
            elif t.t == "impl" and pending is None and top[0] in ("module", "mod"):
                j = i + 1
                name = None
                depth = 0
                while j < n and not (toks[j].t == "{" and depth == 0):
                    if toks[j].t == "<":
                        depth += 1
                    elif toks[j].t == ">":
                        depth -= 1
                    elif toks[j].k == "id" and depth == 0 and toks[j].t not in ("for", "where", "dyn", "mut"):
                        name = toks[j].t
                    elif toks[j].k == "id" and depth == 0 and toks[j].t == "where":
                        break
                    j += 1
                pending = ("impl", name, paren)
            elif t.t == "mod" and i + 1 < n and toks[i + 1].k == "id" and pending is None:
                pending = ("mod", toks[i + 1].t, paren)
            elif t.t in ("static", "const") and pending is None and top[0] in ("module", "mod", "impl"):
                j = i + 1
                if j < n and toks[j].t == "mut":
                    j += 1
                if j + 1 < n and toks[j].k == "id" and toks[j].t != "fn" and toks[j + 1].t == ":":
                    pending = ("static", toks[j].t, paren)
        elif t.k == "p":
            if t.t in ("(", "["):       # brackets too: `-> [f64; 6]` has a `;` that does not end the item
                paren += 1
            elif t.t in (")", "]"):
                paren -= 1
            elif t.t == "{":
                if pending is not None and paren == pending[2]:
                    kind, name, _ = pending
                    if kind == "fn":
                        fns[cur_sig]["body_open"] = i
                        qual = f"{top[1]}::{name}" if top[0] == "impl" and top[1] else name
                        fns[cur_sig]["qual"] = qual
                        stack.append(("fn", name, qual, cur_sig))
                        cur_sig = None
                    elif kind == "static":
                        stack.append(("static", name, f"<static {name}>", None))
                    else:
                        stack.append((kind, name, top[2], top[3]))
                    pending = None
                else:
                    stack.append(("block", top[1], top[2], top[3]))
            elif t.t == "}":
                if not stack:
                    die(f"{path}:{t.line}: unbalanced closing brace")
                k, name, _, idx = stack.pop()
                if k == "fn":
                    fns[idx]["body_close"] = i
            elif t.t == ";":
                if pending is not None and paren == pending[2]:
                    if pending[0] == "fn":
                        cur_sig = None
                    pending = None
        i += 1
    if stack:
        die(f"{path}: unbalanced braces at end of file (open: {stack[-1][:3]})")
    if paren != 0:
        die(f"{path}: unbalanced parentheses at end of file")
    fi = FileInfo()
    fi.fn_of, fi.ctx_kind, fi.ctx_name, fi.sig_of, fi.fns, fi.fn_idx = fn_of, ctx_kind, ctx_name, sig_of, fns, fn_idx
    # `static X: T = Lazy::new(|| { .. });` / `const X: T = [ .. ];` without a brace at paren depth 0: name the
    # initialiser region too, so that sites inside are attributed to `<static X>`
    i = 0
    while i < n:
        t = toks[i]
        if t.k == "id" and t.t in ("static", "const") and fi.fn_of[i] == "<module>" and i + 2 < n:
            j = i + 1
            if toks[j].t == "mut":
                j += 1
            if toks[j].k == "id" and toks[j].t != "fn" and j + 1 < n and toks[j + 1].t == ":":
                name = toks[j].t
                e = j
                depth = 0
                while e < n and not (toks[e].t == ";" and depth == 0):
                    if toks[e].t in OPEN:
                        depth += 1
                    elif toks[e].t in CLOSE:
                        depth -= 1
                    e += 1
                for k in range(i, min(e + 1, n)):
                    if fi.fn_of[k] == "<module>":
                        fi.fn_of[k] = f"<static {name}>"
                i = e
        i += 1
    return fi


def text_of(toks, a, b):
    return " ".join(t.t.replace("\n", " ") for t in toks[a:b])


def cap_start(s):
    """keep the start"""
    return s if len(s) <= CAP else s[:CAP - 2].rstrip() + " …"


def cap_end(s):
    """postfix chains: keep the head (the receiver root) and the tail (the call that identifies the site)"""
    if len(s) <= CAP:
        return s
    head = s[:60].rstrip()
    tail = s[len(s) - (CAP - 64):].lstrip()
    return head + " … " + tail


# ------------------------------------------------------------------------------------------------
# expression helpers

KEYWORDS = {"as", "break", "const", "continue", "crate", "else", "enum", "extern", "fn", "for", "if", "impl", "in", "let",
            "loop", "match", "mod", "move", "mut", "pub", "ref", "return", "static", "struct", "trait", "type",
            "unsafe", "use", "where", "while", "dyn", "async", "await", "box", "yield"}
# `self`, `Self`, `super`, `true`, `false` can end / be an expression


def angle_back(toks, j):
    """toks[j] is `>`: index of the matching `<` (angle brackets only; gives None on anything odd)"""
    depth = 0
    k = j
    while k >= 0:
        x = toks[k]
        if x.k == "p":
            if x.t == ">":
                depth += 1
            elif x.t == "<":
                depth -= 1
                if depth == 0:
                    return k
            elif x.t in (";", "{", "}", "=", "=>", "&&", "||"):
                return None
        k -= 1
    return None


def postfix_start(toks, e, lo=0):
    """toks[e] is the last token of a postfix expression (`a.b(c)[d]?.e::<T>()`); index of its first token."""
    j = e
    guard = 0
    while j >= lo:
        guard += 1
        if guard > 100000:
            return j
        t = toks[j]
        if t.k == "p" and t.t in (")", "]"):
            o = match_backward(toks, j)
            if o is None or o <= lo:
                return o if o is not None else j
            p = toks[o - 1]
            if p.k == "id" and p.t not in KEYWORDS:
                j = o - 1
                continue
            if p.k == "p" and p.t in (")", "]", "?"):
                j = o - 1
                continue
            if p.k == "p" and p.t == "!" and o >= 2 and toks[o - 2].k == "id":
                j = o - 2
                continue
            if p.k == "p" and p.t == ">":
                lt = angle_back(toks, o - 1)
                if lt is not None and lt >= 2 and toks[lt - 1].t == "::" and toks[lt - 2].k == "id":
                    j = lt - 2
                    continue
            return o
        if t.k == "p" and t.t == "?":
            j -= 1
            continue
        if t.k == "p" and t.t == "}":
            o = match_backward(toks, j)
            return o if o is not None else j
        if t.k in ("id", "num", "str", "chr"):
            if t.k == "id" and t.t in KEYWORDS:
                return j + 1
            if j - 1 < lo:
                return j
            p = toks[j - 1]
            if p.k == "p" and p.t == ".":
                j -= 2
                continue
            if p.k == "p" and p.t == "::":
                q = toks[j - 2] if j >= 2 else None
                if q is not None and q.k == "id":
                    j -= 2
                    continue
                if q is not None and q.t == ">":
                    lt = angle_back(toks, j - 2)
                    if lt is not None:
                        if lt >= 2 and toks[lt - 1].t == "::" and toks[lt - 2].k == "id":
                            j = lt - 2
                            continue
                        if lt >= 1 and toks[lt - 1].k == "id" and toks[lt - 1].t not in KEYWORDS:
                            j = lt - 1      # `Vec<T>::new` (type position)
                            continue
                        return lt           # `<T as Trait>::f`
                return j
            return j
        return j + 1
    return lo


def operand_end(toks, s, hi):
    """toks[s] starts a unary/postfix operand (right operand of a binary operator); index one past its last token"""
    j = s
    while j < hi and toks[j].k == "p" and toks[j].t in ("-", "!", "*", "&"):
        j += 1
    if j < hi and toks[j].k == "id" and toks[j].t == "mut":
        j += 1
    if j >= hi:
        return j
    # primary
    if toks[j].k == "p" and toks[j].t in OPEN:
        c = match_forward(toks, j)
        j = (c if c is not None else j) + 1
    elif toks[j].k in ("id", "num", "str", "chr"):
        j += 1
    else:
        return j
    while j < hi:
        x = toks[j]
        if x.k == "p" and x.t == "::" and j + 1 < hi:
            if toks[j + 1].k == "id":
                j += 2
                continue
            if toks[j + 1].t == "<":
                depth = 0
                k = j + 1
                while k < hi:
                    if toks[k].t == "<":
                        depth += 1
                    elif toks[k].t == ">":
                        depth -= 1
                        if depth == 0:
                            break
                    k += 1
                j = k + 1
                continue
            break
        if x.k == "p" and x.t == "." and j + 1 < hi and toks[j + 1].k in ("id", "num"):
            j += 2
            continue
        if x.k == "p" and x.t in ("(", "["):
            c = match_forward(toks, j)
            if c is None:
                return j
            j = c + 1
            continue
        if x.k == "p" and x.t == "?":
            j += 1
            continue
        if x.k == "p" and x.t == "!" and j + 1 < hi and toks[j + 1].t in OPEN and toks[j - 1].k == "id":
            c = match_forward(toks, j + 1)
            j = (c if c is not None else j + 1) + 1
            continue
        if x.k == "id" and x.t == "as" and j + 1 < hi:
            # cast: `as T` / `as f64`
            j += 2
            while j + 1 < hi and toks[j].t == "::" and toks[j + 1].k == "id":
                j += 2
            continue
        break
    return j


INT_RE = re.compile(r"^[0-9][0-9_]*(usize|u8|u16|u32|u64|u128|isize|i8|i16|i32|i64|i128)?$")
FLOAT_RE = re.compile(r"^[0-9][0-9_]*(\.[0-9][0-9_]*)?([eE][+-]?[0-9]+)?(f32|f64)?$")


def is_int_lit(s):
    return bool(INT_RE.match(s))


def int_val(s):
    return int(re.sub(r"[a-z_].*$", "", s.replace("_", "")) or "0")


def is_float_lit(s):
    return bool(FLOAT_RE.match(s)) and (("." in s) or s.endswith("f64") or s.endswith("f32") or "e" in s.lower()) and not s.startswith("0x")


# ------------------------------------------------------------------------------------------------
# crate-wide lexical type knowledge

FIXED_BASE = {  # type head -> (rows, cols) ; vectors: (n, 1)
    "Matrix3": (3, 3), "Vector3": (3, 1), "Matrix4": (4, 4), "Vector4": (4, 1), "Matrix2": (2, 2), "Vector2": (2, 1),
    "RowVector3": (1, 3), "Matrix3x4": (3, 4), "Vector6": (6, 1), "Matrix6": (6, 6),
}


class Crate:
    def __init__(self):
        self.aliases = {}       # alias name -> type head it expands to (only aliases of fixed types)
        self.fields = {}        # field name -> set of type texts (struct fields crate-wide)
        self.consts = {}        # ALL_CAPS const/static name -> type text


def type_dims(ty_toks, crate):
    """(rows, cols, label) for a fixed-size type read off its tokens, else None. ty_toks: list of token texts."""
    ts = [x for x in ty_toks if x not in ("&", "mut", "pub") and not x.startswith("'")]
    if not ts:
        return None
    # strip leading path
    while len(ts) >= 2 and ts[1] == "::":
        ts = ts[2:]
    head = ts[0]
    if head == "[" and ";" in ts and ts[-1] == "]":
        # array [T; N] (one level; nested arrays give the outer length)
        depth = 0
        semi = None
        for k, x in enumerate(ts):
            if x == "[":
                depth += 1
            elif x == "]":
                depth -= 1
            elif x == ";" and depth == 1:
                semi = k
        if semi is not None and semi + 3 == len(ts) and is_int_lit(ts[semi + 1]):
            return (int_val(ts[semi + 1]), 1, " ".join(ts))
        return None
    head = crate.aliases.get(head, head)
    if head in FIXED_BASE:
        r, c = FIXED_BASE[head]
        return (r, c, ts[0] if ts[0] == head else f"{ts[0]}={head}")
    if head == "SMatrix" or head == "SVector":
        nums = [x for x in ts if is_int_lit(x)]
        if head == "SMatrix" and len(nums) == 2:
            return (int_val(nums[0]), int_val(nums[1]), " ".join(ts))
        if head == "SVector" and len(nums) == 1:
            return (int_val(nums[0]), 1, " ".join(ts))
    return None


def collect_crate_info(parsed):
    crate = Crate()
    for rel, (toks, fi) in parsed.items():
        n = len(toks)
        for i, t in enumerate(toks):
            if t.k == "id" and t.t == "type" and i + 3 < n and toks[i + 1].k == "id" and toks[i + 2].t == "=":
                e = i + 3
                while e < n and toks[e].t != ";":
                    e += 1
                ts = [x.t for x in toks[i + 3:e]]
                while len(ts) >= 2 and ts[1] == "::":
                    ts = ts[2:]
                if ts and ts[0] in FIXED_BASE:
                    crate.aliases[toks[i + 1].t] = ts[0]
    for rel, (toks, fi) in parsed.items():
        n = len(toks)
        for i, t in enumerate(toks):
            # struct fields: `name : Type ,` inside a struct body
            if t.k == "id" and fi.ctx_kind[i] == "struct" and fi.sig_of[i] is None and i + 1 < n and toks[i + 1].t == ":" \
                    and toks[i - 1].t in ("{", ",", "pub", ")"):
                e = i + 2
                depth = 0
                while e < n:
                    x = toks[e].t
                    if x in ("<", "(", "["):
                        depth += 1
                    elif x in (">", ")", "]"):
                        depth -= 1
                    elif (x == "," and depth == 0) or (x == "}" and depth <= 0):
                        break
                    if depth < 0:
                        break
                    e += 1
                crate.fields.setdefault(t.t, set()).add(" ".join(x.t for x in toks[i + 2:e]))
            if t.k == "id" and t.t in ("const", "static") and i + 2 < n and toks[i + 1].k == "id" and toks[i + 2].t == ":" \
                    and re.fullmatch(r"[A-Z][A-Z0-9_]*", toks[i + 1].t):
                e = i + 3
                depth = 0
                while e < n and not (toks[e].t in ("=", ";") and depth == 0):
                    if toks[e].t in ("<", "(", "["):
                        depth += 1
                    elif toks[e].t in (">", ")", "]"):
                        depth -= 1
                    e += 1
                crate.consts.setdefault(toks[i + 1].t, set()).add(" ".join(x.t for x in toks[i + 3:e]))
    return crate


def local_decl_type(toks, fi, i, name):
    """declared type tokens of identifier `name` visible at token i: fn parameter or annotated `let` of the enclosing
    fn; None if not declared with a type, or re-bound anywhere in the fn without the same annotation (shadowing)."""
    idx = fi.fn_idx[i]
    if idx is None:
        return None
    f = fi.fns[idx]
    found = []
    unannotated = 0
    a, b = f["sig_start"], f["body_close"] if f["body_close"] is not None else len(toks)
    k = a
    while k < b:
        t = toks[k]
        if t.k == "id" and t.t == name and toks[k - 1].t not in (".", "::"):
            prv = toks[k - 1].t
            nxt = toks[k + 1].t if k + 1 < b else ""
            in_sig = k < (f["body_open"] or a)
            is_param = in_sig and nxt == ":" and prv in ("(", ",", "mut")
            is_let = (prv == "let" or (prv == "mut" and toks[k - 2].t == "let"))
            if is_param or (is_let and nxt == ":"):
                e = k + 2
                depth = 0
                while e < b:
                    x = toks[e].t
                    if x in ("<", "(", "["):
                        depth += 1
                    elif x in (">", ")", "]"):
                        if depth == 0:
                            break
                        depth -= 1
                    elif x in (",", "=", ";") and depth == 0:
                        break
                    e += 1
                found.append([x.t for x in toks[k + 2:e]])
            elif is_let and nxt == "=" and k + 2 < b and toks[k + 2].t == "[":
                # `let name = [v; N];` / `let name = [a, b, c];`: an array of visible length
                close = match_forward(toks, k + 2)
                arr = None
                if close is not None and close + 1 < b and toks[close + 1].t == ";":
                    parts = split_top(toks, k + 3, close, ";")
                    if len(parts) == 2 and parts[1][1] - parts[1][0] == 1 and is_int_lit(toks[parts[1][0]].t):
                        arr = ["[", "_", ";", toks[parts[1][0]].t, "]"]
                    elif len(parts) == 1:
                        elems = [pq for pq in split_top(toks, k + 3, close, ",") if pq[1] > pq[0]]
                        if elems:
                            arr = ["[", "_", ";", str(len(elems)), "]"]
                if arr is not None:
                    found.append(arr)
                else:
                    unannotated += 1
            elif is_let:
                unannotated += 1
            elif prv in ("|", ",", "(", "&") and not in_sig:
                # closure parameter / pattern binding with the same name: `|name|`, `(name, x)` in a `for`/`let` pattern
                if is_pattern_binding(toks, k):
                    unannotated += 1
        k += 1
    if len(found) == 1 and unannotated == 0:
        return found[0]
    if len(found) > 1 and unannotated == 0 and all(x == found[0] for x in found):
        return found[0]
    return None


def is_pattern_binding(toks, k):
    """identifier at k sits in a closure parameter list `|..|` or in a `for <pat> in` / `let <pat> =` / `if let` pattern"""
    # closure parameters: walk back to a `|` without crossing `;{}`
    j = k - 1
    depth = 0
    while j >= 0:
        x = toks[j]
        if x.k == "p":
            if x.t in (")", "]"):
                depth += 1
            elif x.t in ("(", "["):
                if depth == 0:
                    # tuple pattern: look further left for `for` / `let` / `|`
                    j -= 1
                    continue
                depth -= 1
            elif x.t in (";", "{", "}", "=", "=>"):
                return False
            elif x.t == "|" and depth == 0:
                # is it an opening bar?  previous token is `(`, `,`, `=`, `move`, `{` ...
                p = toks[j - 1].t if j > 0 else ""
                return p in ("(", ",", "=", "move", "{", ";", "return")
        elif x.k == "id" and x.t in ("for", "let") and depth == 0:
            return True
        elif x.k == "id" and x.t == "in":
            return False
        j -= 1
    return False


# ------------------------------------------------------------------------------------------------
# loops and closures with ranges

class Binder:
    """a variable bound over a token range [lo, hi) with what is known about its values"""
    __slots__ = ("name", "lo", "hi", "kind", "max", "base", "header")

    def __init__(self, name, lo, hi, kind, mx, base, header):
        self.name, self.lo, self.hi, self.kind, self.max, self.base, self.header = name, lo, hi, kind, mx, base, header


def split_top(toks, a, b, sep=","):
    """split toks[a:b] at top-level separators; returns list of (start, end)"""
    parts = []
    depth = 0
    s = a
    for k in range(a, b):
        x = toks[k]
        if x.k == "p":
            if x.t in OPEN:
                depth += 1
            elif x.t in CLOSE:
                depth -= 1
            elif x.t == sep and depth == 0:
                parts.append((s, k))
                s = k + 1
    if s < b:
        parts.append((s, b))
    return parts


def strip_parens(toks, a, b):
    while b - a >= 2 and toks[a].t == "(" and match_forward(toks, a) == b - 1:
        a, b = a + 1, b - 1
    return a, b


def range_info(toks, a, b):
    """toks[a:b] is `lo .. hi` / `lo ..= hi` (optionally parenthesised): ("lit", max) | ("len", base_text) | None"""
    a, b = strip_parens(toks, a, b)
    depth = 0
    op = None
    for k in range(a, b):
        x = toks[k]
        if x.k == "p":
            if x.t in OPEN:
                depth += 1
            elif x.t in CLOSE:
                depth -= 1
            elif x.t in ("..", "..=") and depth == 0:
                op = k
                break
    if op is None or op == a or op + 1 >= b:
        return None
    lo_t = [x.t for x in toks[a:op]]
    hi_t = [x.t for x in toks[op + 1:b]]
    incl = toks[op].t == "..="
    if len(hi_t) == 1 and is_int_lit(hi_t[0]) and (len(lo_t) == 1 and is_int_lit(lo_t[0])):
        return ("lit", int_val(hi_t[0]) - (0 if incl else 1), None)
    if len(hi_t) == 1 and is_int_lit(hi_t[0]) and lo_t[0] != "-":
        # lower bound is an expression, upper bound literal: values < hi still (usize context)
        return ("lit", int_val(hi_t[0]) - (0 if incl else 1), None)
    if not incl and len(hi_t) >= 5 and hi_t[-4:] == [".", "len", "(", ")"] and len(lo_t) == 1 and is_int_lit(lo_t[0]):
        return ("len", None, " ".join(hi_t[:-4]))
    return None


CLOSURE_ADAPTORS = {"map", "filter", "all", "any", "for_each", "flat_map", "filter_map", "find", "position", "find_map",
                    "take_while", "skip_while", "min_by_key", "max_by_key", "sum", "fold"}


def collect_binders(toks, fi):
    binders = []
    n = len(toks)
    for i, t in enumerate(toks):
        if t.k == "id" and t.t == "for" and fi.fn_idx[i] is not None and toks[i - 1].t != "impl" and toks[i + 1].t != "<":
            # pattern .. `in` .. iterable .. `{`
            j = i + 1
            depth = 0
            kin = None
            while j < n:
                x = toks[j]
                if x.k == "p" and x.t in OPEN:
                    depth += 1
                elif x.k == "p" and x.t in CLOSE:
                    depth -= 1
                elif x.k == "id" and x.t == "in" and depth == 0:
                    kin = j
                    break
                elif x.k == "p" and x.t in (";", "{"):
                    break
                j += 1
            if kin is None:
                continue
            j = kin + 1
            depth = 0
            body = None
            while j < n:
                x = toks[j]
                if x.k == "p":
                    if x.t in ("(", "["):
                        depth += 1
                    elif x.t in (")", "]"):
                        depth -= 1
                    elif x.t == "{" and depth == 0:
                        body = j
                        break
                    elif x.t == ";" and depth == 0:
                        break
                j += 1
            if body is None:
                continue
            bend = match_forward(toks, body)
            if bend is None:
                continue
            header = text_of(toks, i, body)
            pat = [x for x in toks[i + 1:kin]]
            pvars = [x.t for x in pat if x.k == "id" and x.t not in ("mut", "ref", "_")]
            a, b = kin + 1, body
            ri = range_info(toks, a, b)
            if ri and len(pvars) == 1:
                binders.append(Binder(pvars[0], body, bend, ri[0], ri[1], ri[2], header))
                continue
            # iproduct!(r1, r2, ..) with a tuple pattern
            if toks[a].t == "iproduct" and toks[a + 1].t == "!" and toks[a + 2].t == "(" and match_forward(toks, a + 2) == b - 1:
                parts = split_top(toks, a + 3, b - 1)
                if len(parts) == len(pvars):
                    for v, (pa, pb) in zip(pvars, parts):
                        r = range_info(toks, pa, pb)
                        if r:
                            binders.append(Binder(v, body, bend, r[0], r[1], r[2], header))
                        else:
                            binders.append(Binder(v, body, bend, "unknown", None, None, header))
                    continue
            # B.iter().enumerate() with pattern (i, x)
            its = [x.t for x in toks[a:b]]
            if len(its) >= 9 and its[-8:] == [".", "iter", "(", ")", ".", "enumerate", "(", ")"] and pat and pat[0].t == "(":
                first = [x.t for x in pat[1:] if x.k == "id"]
                if first:
                    binders.append(Binder(first[0], body, bend, "enum", None, " ".join(its[:-8]).lstrip("& "), header))
                    for v in pvars:
                        if v != first[0]:
                            binders.append(Binder(v, body, bend, "unknown", None, None, header))
                    continue
            for v in pvars:
                binders.append(Binder(v, body, bend, "unknown", None, None, header))
        # closures over a range: `( a .. b ) . adaptor ( | v | body )`
        if t.k == "p" and t.t == "|" and fi.fn_idx[i] is not None and toks[i - 1].t == "(" and i >= 4 \
                and toks[i - 2].k == "id" and toks[i - 2].t in CLOSURE_ADAPTORS and toks[i - 3].t == ".":
            # closure parameter list
            j = i + 1
            while j < n and toks[j].t != "|":
                j += 1
            params = [x.t for x in toks[i + 1:j] if x.k == "id" and x.t not in ("mut", "ref", "_")]
            close = match_forward(toks, i - 1)
            if close is None or len(params) != 1:
                continue
            # receiver of the adaptor: walk back over further adaptors to find a range in parentheses
            e = i - 4
            s = postfix_start(toks, e)
            header = text_of(toks, s, j + 1)
            ri = None
            if toks[s].t == "(":
                c = match_forward(toks, s)
                # only when the range is DIRECTLY the receiver: `(a..b).map(|v| ..)`, or through value-preserving
                # adaptors filter / take_while / skip_while / rev
                between = [x.t for x in toks[c + 1:i - 3]]
                ok = True
                k = c + 1
                while k < i - 3:
                    if toks[k].t == "." and toks[k + 1].t in ("filter", "take_while", "skip_while", "rev", "into_iter", "clone") and toks[k + 2].t == "(":
                        k = match_forward(toks, k + 2) + 1
                    else:
                        ok = False
                        break
                if ok:
                    ri = range_info(toks, s, c + 1)
            if ri:
                binders.append(Binder(params[0], j + 1, close, ri[0], ri[1], ri[2], header))
            else:
                binders.append(Binder(params[0], j + 1, close, "unknown", None, None, header))
    return binders


# ------------------------------------------------------------------------------------------------
# the scan

MACROS = {
    "assert": "assert", "assert_eq": "assert", "assert_ne": "assert",
    "debug_assert": "debugAssert", "debug_assert_eq": "debugAssert", "debug_assert_ne": "debugAssert",
    "unreachable": "unreachable", "panic": "panic", "todo": "todo", "unimplemented": "todo",
}
UNWRAPS = {"unwrap": "unwrap", "unwrap_unchecked": "unwrap", "unwrap_err": "unwrap", "expect": "expect", "expect_err": "expect"}
PANICKY_METHODS = {"remove", "swap", "swap_remove", "split_at", "split_at_mut", "chunks", "chunks_exact", "windows", "step_by",
                   "copy_from_slice", "clone_from_slice", "drain", "split_off", "column", "row", "column_mut", "row_mut",
                   "columns", "rows", "fixed_view", "fixed_view_mut", "view", "view_mut", "fixed_rows", "fixed_columns",
                   "fixed_rows_mut", "fixed_columns_mut", "swap_rows", "swap_columns", "set_column", "set_row",
                   "div_euclid", "rem_euclid", "pow", "columns_mut", "rows_mut", "index", "select_rows", "select_columns",
                   "remove_row", "remove_column", "insert_row", "insert_column", "reshape_generic", "rotate_left",
                   "rotate_right", "first_chunk", "array_chunks", "rchunks", "union"}
PANICKY_CTORS = {"from_row_slice", "from_column_slice", "from_vec", "from_iterator", "from_row_iterator", "from_rows",
                 "from_columns", "from_row_slice_generic", "from_column_slice_generic", "from_iterator_generic",
                 "from_vec_generic"}
UNSIGNED = {"usize", "u8", "u16", "u32", "u64", "u128"}
LEN_METHODS = {"len", "count", "nrows", "ncols", "num_atoms", "value"}

def unsigned_idents(toks, fi, fidx):
    """identifiers of fn fidx that are visibly usize: `x: usize` parameters / lets, `let x = … .len();`, `let x = … as usize;`"""
    f = fi.fns[fidx]
    res = set()
    a = f["sig_start"]
    b = f["body_close"] if f["body_close"] is not None else len(toks)
    for k in range(a, b - 2):
        t = toks[k]
        if t.k == "id" and toks[k + 1].t == ":" and toks[k + 2].t in UNSIGNED and toks[k - 1].t not in (".", "::"):
            res.add(t.t)
        if t.k == "id" and t.t == "let":
            j = k + 1
            if toks[j].t == "mut":
                j += 1
            if toks[j].k == "id" and toks[j + 1].t == "=":
                e = j + 2
                depth = 0
                while e < b and not (toks[e].t == ";" and depth == 0):
                    if toks[e].t in OPEN:
                        depth += 1
                    elif toks[e].t in CLOSE:
                        depth -= 1
                    e += 1
                tail = [x.t for x in toks[max(j + 2, e - 4):e]]
                if tail[-2:] == ["as", "usize"] or (len(tail) == 4 and tail[0] == "." and tail[1] in LEN_METHODS and tail[2:] == ["(", ")"]):
                    res.add(toks[j].t)
    return res


FLOAT_METHODS = {"sqrt", "norm", "norm_squared", "powf", "powi", "cos", "sin", "tan", "acos", "asin", "atan", "atan2",
                 "determinant", "to_radians", "to_degrees", "ln", "exp", "cbrt", "floor", "ceil", "round", "fract", "hypot"}


def float_evidence(ts):
    """ts: token texts of ONE operand of `/` or `%`.  Evidence that the operand's TYPE is a float (so the division
    cannot panic), read off its last cast / call, else None.  Deliberately strict: a float somewhere inside is not enough."""
    while len(ts) >= 3 and ts[0] == "(" and ts[-1] == ")":
        depth = 0
        ok = True
        for k, x in enumerate(ts):
            if x in OPEN:
                depth += 1
            elif x in CLOSE:
                depth -= 1
                if depth == 0 and k != len(ts) - 1:
                    ok = False
                    break
        if not ok:
            break
        ts = ts[1:-1]
    if len(ts) == 1 and is_float_lit(ts[0]):
        return ts[0]
    if len(ts) >= 2 and ts[-2] == "as" and ts[-1] in ("f64", "f32"):
        return "as " + ts[-1]
    if len(ts) >= 2 and ts[0] in ("f64", "f32") and ts[1] == "::":
        return ts[0] + "::"
    # `<recv> . m ( .. )` with a float-only method m as the LAST call
    if ts and ts[-1] == ")":
        depth = 0
        for k in range(len(ts) - 1, -1, -1):
            if ts[k] in CLOSE:
                depth += 1
            elif ts[k] in OPEN:
                depth -= 1
                if depth == 0:
                    if k >= 2 and ts[k - 2] == "." and ts[k - 1] in FLOAT_METHODS:
                        return "." + ts[k - 1] + "()"
                    # `.. parse :: < f64 > ( ) . unwrap ( )`
                    if k >= 2 and ts[k - 1] == "unwrap" and ts[k - 2] == "." and k >= 10 \
                            and ts[k - 9:k - 2] == ["parse", "::", "<", "f64", ">", "(", ")"]:
                        return "parse::<f64>().unwrap()"
                    break
    return None


def classify_index(toks, fi, crate, binders, lb, rb, base_a):
    """lb / rb: indices of `[` and `]`; base tokens are toks[base_a:lb]. Returns (cls, ev)."""
    ix = toks[lb + 1:rb]
    ixt = [x.t for x in ix]
    base_t = [x.t for x in toks[base_a:lb]]
    base_text = " ".join(base_t)
    # declared fixed type of the base?
    dims = None
    if len(base_t) == 1 and toks[base_a].k == "id":
        nm = base_t[0]
        ty = local_decl_type(toks, fi, lb, nm)
        if ty is not None:
            dims = type_dims(ty, crate)
        elif re.fullmatch(r"[A-Z][A-Z0-9_]*", nm) and nm in crate.consts and len(crate.consts[nm]) == 1:
            dims = type_dims(list(crate.consts[nm])[0].split(" "), crate)
    elif len(base_t) == 3 and base_t[0] == "self" and base_t[1] == "." and toks[base_a + 2].k == "id":
        tys = crate.fields.get(base_t[2], set())
        if len(tys) == 1:
            dims = type_dims(list(tys)[0].split(" "), crate)

    def fits(vals):
        """vals: list of component maxima (1 component: linear index; 2: (row, col))"""
        if dims is None:
            return False
        r, c, _ = dims
        if len(vals) == 1:
            return vals[0] < r * c
        if len(vals) == 2:
            return vals[0] < r and vals[1] < c
        return False

    if ".." in ixt or "..=" in ixt:
        return "range-slice", ""
    if ixt and ixt[0] == "&":
        return "map-key", ""
    # components of a tuple index `( a , b )`
    a, b = lb + 1, rb
    comps = [(a, b)]
    if b - a >= 2 and toks[a].t == "(" and match_forward(toks, a) == b - 1:
        comps = split_top(toks, a + 1, b - 1)
    # literal
    if all(pb - pa == 1 and is_int_lit(toks[pa].t) for pa, pb in comps) and comps:
        vals = [int_val(toks[pa].t) for pa, _ in comps]
        if fits(vals):
            return "fixed-literal", f"{dims[2]} max={max(vals)}"
        return "literal-index", f"max={max(vals)}"
    # variables
    live = {}
    for bd in binders:
        if bd.lo <= lb < bd.hi:
            # innermost binder of a name wins (largest lo)
            if bd.name not in live or live[bd.name].lo < bd.lo:
                live[bd.name] = bd
    comp_max = []
    pure = True
    for pa, pb in comps:
        ts = toks[pa:pb]
        if len(ts) == 1 and ts[0].k == "id" and ts[0].t in live and live[ts[0].t].kind == "lit":
            comp_max.append(live[ts[0].t].max)
        elif len(ts) == 1 and is_int_lit(ts[0].t):
            comp_max.append(int_val(ts[0].t))
        else:
            pure = False
            break
    if pure and comp_max:
        if fits(comp_max):
            return "fixed-loopvar", f"{dims[2]} max={max(comp_max)}"
        return "loopvar-literal-range", f"max={max(comp_max)}"
    # modulo a literal
    mods = []
    for pa, pb in comps:
        ts = toks[pa:pb]
        if len(ts) >= 3 and ts[-2].t == "%" and is_int_lit(ts[-1].t) and (
                (len(ts) == 3 and ts[0].k == "id") or (ts[0].t == "(" and match_forward(toks, pa) == pb - 3)):
            mods.append(int_val(ts[-1].t) - 1)
        elif len(ts) == 1 and is_int_lit(ts[0].t):
            mods.append(int_val(ts[0].t))
        elif len(ts) == 1 and ts[0].k == "id" and ts[0].t in live and live[ts[0].t].kind == "lit":
            mods.append(live[ts[0].t].max)
        else:
            mods = None
            break
    if mods:
        if fits(mods):
            return "fixed-mod-literal", f"{dims[2]} max={max(mods)}"
        return "mod-literal", f"max={max(mods)}"
    # single variable guarded by the length of the same base / enumerate over the same base
    if len(ix) == 1 and ix[0].k == "id" and ix[0].t in live:
        bd = live[ix[0].t]
        if bd.kind == "len" and bd.base == base_text:
            return "len-guarded", bd.header
        if bd.kind == "enum" and bd.base == base_text:
            return "iter-enumerate-index", bd.header
    if len(base_t) == 1 and re.fullmatch(r"[A-Z][A-Z0-9_]*", base_t[0]):
        return "const-table-index", base_t[0]
    return "none", ""


def scan_file(rel, toks, fi, crate):
    sites = []
    n = len(toks)
    binders = collect_binders(toks, fi)
    unsigned_cache = {}

    def add(i, kind, expr, cls="none", ev=""):
        sites.append({"file": rel, "line": toks[i].line, "fn": fi.fn_of[i], "kind": kind, "expr": expr, "cls": cls, "ev": ev,
                      "tok": i})

    def stmt_lo(i):
        """a conservative lower limit for walking back from i: start of the enclosing fn body or 0"""
        idx = fi.fn_idx[i]
        if idx is not None and fi.fns[idx]["body_open"] is not None:
            return fi.fns[idx]["body_open"] + 1
        return 0

    for i, t in enumerate(toks):
        prv = toks[i - 1] if i > 0 else Tok("p", ";", 0)
        nxt = toks[i + 1] if i + 1 < n else Tok("p", ";", 0)
        # ---- macros
        if t.k == "id" and t.t in MACROS and nxt.t == "!" and i + 2 < n and toks[i + 2].t in OPEN and prv.t not in (".",):
            c = match_forward(toks, i + 2)
            if c is None:
                die(f"{rel}:{t.line}: unbalanced macro call {t.t}!")
            add(i, MACROS[t.t], cap_start(text_of(toks, i, c + 1)), "debug-only" if MACROS[t.t] == "debugAssert" else "none")
            continue
        # ---- method calls
        if t.k == "id" and prv.t == "." and nxt.t in ("(", "::"):
            if t.t in UNWRAPS or t.t in PANICKY_METHODS:
                op = i + 1
                if nxt.t == "::":
                    # turbofish
                    if toks[i + 2].t == "<":
                        depth = 0
                        k = i + 2
                        while k < n:
                            if toks[k].t == "<":
                                depth += 1
                            elif toks[k].t == ">":
                                depth -= 1
                                if depth == 0:
                                    break
                            k += 1
                        op = k + 1
                    else:
                        continue
                if op >= n or toks[op].t != "(":
                    continue
                c = match_forward(toks, op)
                if c is None:
                    die(f"{rel}:{t.line}: unbalanced call .{t.t}(")
                s = postfix_start(toks, i - 2, stmt_lo(i))
                if s is None:
                    s = i - 2
                expr = cap_end(text_of(toks, s, c + 1))
                if t.t in UNWRAPS:
                    add(i, UNWRAPS[t.t], expr)
                else:
                    if t.t == "index" and c - op != 2:
                        pass
                    args = split_top(toks, op + 1, c)
                    cls = "none"
                    ev = ""
                    if t.t in ("div_euclid", "rem_euclid", "pow") and len(args) == 1 and args[0][1] - args[0][0] == 1 \
                            and is_int_lit(toks[args[0][0]].t) and (t.t == "pow" or int_val(toks[args[0][0]].t) != 0):
                        cls, ev = "literal-arg", toks[args[0][0]].t
                    elif args and all(pb - pa == 1 and is_int_lit(toks[pa].t) for pa, pb in args):
                        cls, ev = "literal-arg", " ".join(toks[pa].t for pa, _ in args)
                    add(i, "call", expr, cls, ev)
                continue
            if t.t == "find" and nxt.t == "(" and toks[i + 2].t not in ("|", "move"):
                # `uf.find(i)` (union-find: panics out of range), not `Iterator::find(|x| ..)`
                c = match_forward(toks, i + 1)
                if c is not None:
                    s = postfix_start(toks, i - 2, stmt_lo(i))
                    add(i, "call", cap_end(text_of(toks, s, c + 1)), "find-non-closure", "")
                continue
            if t.t == "insert" and nxt.t == "(":
                c = match_forward(toks, i + 1)
                if c is not None and len(split_top(toks, i + 2, c)) == 2:
                    s = postfix_start(toks, i - 2, stmt_lo(i))
                    add(i, "call", cap_end(text_of(toks, s, c + 1)), "insert-2-args", "Vec::insert or map insert")
                continue
        # ---- constructors that panic on a wrong element count
        if t.k == "id" and prv.t == "::" and t.t in PANICKY_CTORS and nxt.t == "(":
            c = match_forward(toks, i + 1)
            if c is None:
                die(f"{rel}:{t.line}: unbalanced call ::{t.t}(")
            s = postfix_start(toks, i, stmt_lo(i))
            add(i, "call", cap_start(text_of(toks, s, c + 1)))
            continue
        # ---- indexing
        if t.k == "p" and t.t == "[" and i > 0:
            is_ix = False
            if prv.k == "id" and prv.t not in KEYWORDS:
                is_ix = True
            elif prv.k == "p" and prv.t in (")", "]", "?"):
                is_ix = True
            if prv.k == "p" and prv.t == "]":
                # attribute `#[..] [..]`?  the previous group must not be an attribute
                o = match_backward(toks, i - 1)
                if o is not None and o >= 1 and toks[o - 1].t in ("#", "!") and (toks[o - 1].t == "#" or (o >= 2 and toks[o - 2].t == "#")):
                    is_ix = False
            if prv.k == "life":
                is_ix = False
            if is_ix and fi.fn_of[i] == "<module>" and fi.ctx_kind[i] in ("struct", "other", None, "module", "mod", "impl") \
                    and fi.sig_of[i] is None and fi.fn_idx[i] is None:
                # outside any body: types such as `x: Foo[..]` do not exist in Rust; keep it (conservative)
                pass
            if is_ix and fi.sig_of[i] is not None and fi.fn_idx[i] is None:
                is_ix = True  # default argument expressions do not exist; still conservative
            if is_ix:
                rb = match_forward(toks, i)
                if rb is None:
                    die(f"{rel}:{t.line}: unbalanced `[`")
                s = postfix_start(toks, i - 1, stmt_lo(i))
                if s is None:
                    s = i - 1
                cls, ev = classify_index(toks, fi, crate, binders, i, rb, s)
                add(i, "index", cap_end(text_of(toks, s, rb + 1)), cls, ev)
            continue
        # ---- subtraction on visibly unsigned operands
        if t.k == "p" and t.t == "-" and i > 0 and nxt.t != ">":
            binary = (prv.k in ("id", "num", "str", "chr") and not (prv.k == "id" and prv.t in KEYWORDS and prv.t not in ("self",))) \
                or (prv.k == "p" and prv.t in (")", "]", "?"))
            if not binary:
                continue
            compound = nxt.t == "="
            left_unsigned = None
            if prv.k == "id" and prv.t in UNSIGNED and toks[i - 2].t == "as":
                left_unsigned = "as " + prv.t
            elif prv.t == ")" and toks[i - 2].t == "(" and toks[i - 3].k == "id" and toks[i - 3].t in LEN_METHODS and toks[i - 4].t == "." \
                    and toks[i - 3].t in ("len", "count", "nrows", "ncols", "num_atoms", "value"):
                left_unsigned = "." + toks[i - 3].t + "()"
            elif prv.k == "id" and fi.fn_idx[i] is not None and toks[i - 2].t not in (".", "::"):
                fidx = fi.fn_idx[i]
                if fidx not in unsigned_cache:
                    unsigned_cache[fidx] = unsigned_idents(toks, fi, fidx)
                if prv.t in unsigned_cache[fidx]:
                    left_unsigned = f"{prv.t}: unsigned"
            if left_unsigned is None:
                continue
            s = postfix_start(toks, i - 1, stmt_lo(i))
            # `x as usize - 1`: include the cast operand
            if prv.k == "id" and prv.t in UNSIGNED and toks[i - 2].t == "as":
                s = postfix_start(toks, i - 3, stmt_lo(i))
            e = operand_end(toks, i + (2 if compound else 1), n)
            right = [x.t for x in toks[i + (2 if compound else 1):e]]
            cls = "literal-subtrahend" if len(right) == 1 and is_int_lit(right[0]) else "none"
            add(i, "sub", cap_start(text_of(toks, s, e)), cls, left_unsigned)
            continue
        # ---- division / remainder by a non-literal
        if t.k == "p" and t.t in ("/", "%") and i > 0:
            binary = (prv.k in ("id", "num") and not (prv.k == "id" and prv.t in KEYWORDS and prv.t != "self")) \
                or (prv.k == "p" and prv.t in (")", "]", "?"))
            if not binary:
                continue
            compound = nxt.t == "="
            rs = i + (2 if compound else 1)
            e = operand_end(toks, rs, n)
            right = [x.t for x in toks[rs:e]]
            if len(right) == 1 and (is_int_lit(right[0]) or is_float_lit(right[0])):
                if is_float_lit(right[0]) or int_val(right[0]) != 0:
                    continue
            if len(right) == 3 and right[0] == "(" and right[2] == ")" and (is_float_lit(right[1])):
                continue
            s = postfix_start(toks, i - 1, stmt_lo(i))
            if prv.k == "id" and toks[i - 2].t == "as":
                s = postfix_start(toks, i - 3, stmt_lo(i))
            left = [x.t for x in toks[s:i]]
            fe = float_evidence(right) or float_evidence(left)   # either side: Rust has no mixed-type `/`
            if fe is None:
                # a lone identifier operand declared `: f64` in the enclosing fn (parameter / annotated let)
                for side in (right, left):
                    if len(side) == 1 and IDENT.fullmatch(side[0]):
                        ty = local_decl_type(toks, fi, i, side[0])
                        if ty in (["f64"], ["f32"]):
                            fe = f"{side[0]}: {ty[0]}"
                            break
            cls, ev = ("float-operand", fe) if fe else ("none", "")
            add(i, "div", cap_start(text_of(toks, s, e)), cls, ev)
            continue
    return sites


# ------------------------------------------------------------------------------------------------
# driver

def fn_table(path):
    """[(line, qualified fn name)] at every change of the enclosing fn along the file (for checks/c08.py: which fn
    does a panic location `file:line` belong to).  Works on the unstripped token stream (test code included)."""
    with open(path, encoding="utf-8") as f:
        src = f.read()
    toks = tokenize(src, path)
    fi = analyse_structure(toks, path)
    table, prev = [], None
    for t, fn in zip(toks, fi.fn_of):
        if fn != prev:
            table.append((t.line, fn))
            prev = fn
    return table


def lstr(s):
    return '"' + s.replace("\\", "\\\\").replace('"', '\\"').replace("\n", " ").replace("\r", " ").replace("\t", " ") + '"'


KIND_ORDER = ["unwrap", "expect", "assert", "debugAssert", "unreachable", "panic", "todo", "index", "sub", "div", "call"]


def build(src_root):
    files = []
    for dp, dn, fn in os.walk(src_root):
        dn.sort()
        for f in sorted(fn):
            if f.endswith(".rs"):
                files.append(os.path.join(dp, f))
    if not files:
        die(f"no .rs files under {src_root}")
    parsed = {}
    removed_total = 0
    for p in files:
        rel = os.path.relpath(p, src_root)
        try:
            text = open(p, encoding="utf-8").read()
        except Exception as ex:  # noqa
            die(f"{rel}:1: cannot read: {ex}")
        toks = tokenize(text, rel)
        toks, removed = strip_cfg_test(toks, rel)
        removed_total += removed
        fi = analyse_structure(toks, rel)
        parsed[rel] = (toks, fi)
    crate = collect_crate_info(parsed)
    sites = []
    for rel in sorted(parsed):
        toks, fi = parsed[rel]
        ss = scan_file(rel, toks, fi, crate)
        ss.sort(key=lambda s: s["tok"])
        sites += ss
    # fingerprint of the token text of every fn (static initialiser / module level) that contains a site:
    # comments, blank lines and formatting do not change it, any change of a token does
    bodies = {}
    for rel in sorted(parsed):
        toks, fi = parsed[rel]
        wanted = {s["fn"] for s in sites if s["file"] == rel}
        acc = {w: [] for w in wanted}
        for i, t in enumerate(toks):
            name = fi.fn_of[i]
            if name in acc:
                acc[name].append(t.t)
            elif fi.sig_of[i] is not None:
                f = fi.fns[fi.sig_of[i]]
                q = (f"{f['impl']}::{f['name']}" if f["impl"] else f["name"])
                if q in acc:
                    acc[q].append(t.t)      # the signature belongs to the fingerprint as well
        for w, ts in acc.items():
            h = hashlib.sha256(" ".join(ts).encode("utf-8")).digest()
            bodies[(rel, w)] = int.from_bytes(h[:6], "big")
    for s in sites:
        s["body"] = bodies[(s["file"], s["fn"])]
    # multiplicity of (kind, expr) within a fn
    cnt = {}
    for s in sites:
        key = (s["file"], s["fn"], s["kind"], s["expr"])
        cnt[key] = cnt.get(key, 0) + 1
    for s in sites:
        s["n"] = cnt[(s["file"], s["fn"], s["kind"], s["expr"])]
        del s["tok"]
    return {"files": len(files), "removed": removed_total, "sites": sites, "file_list": sorted(parsed)}


def emit_lean(inv, src_root):
    out = ["-- GENERATED by tools/translate_c08.py from /repo/moyo/src — do not edit.\n",
           "import Moyo.Model.C08Inventory\n",
           "set_option maxRecDepth 8192\n",
           "namespace Moyo.Generated.C08\nopen Moyo.C08Inv\n\n",
           f"def filesScanned : Nat := {inv['files']}\n",
           f"def cfgItemsRemoved : Nat := {inv['removed']}\n\n"]
    # group file -> fn (order of first appearance)
    groups = []
    for s in inv["sites"]:
        if not groups or groups[-1][0] != s["file"]:
            groups.append((s["file"], []))
        fg = groups[-1][1]
        for g in fg:
            if g[0] == s["fn"]:
                g[1].append(s)
                break
        else:
            fg.append((s["fn"], [s]))
    names = []
    for gi, (fname, fg) in enumerate(groups):
        fn_terms = []
        for fn, ss in fg:
            rows = ",\n".join(
                f"      ⟨.{s['kind']}, {lstr(s['expr'])}, {lstr(s['cls'])}, {lstr(s['ev'])}, {s['line']}, {s['n']}⟩" for s in ss)
            fn_terms.append(f"    ⟨{lstr(fn)}, {ss[0]['body']}, [\n{rows}]⟩")
        # chunk big files
        size = 12
        nch = (len(fn_terms) + size - 1) // size
        chunk_names = []
        for c in range(nch):
            nm = f"file{gi}Fns{c}"
            chunk_names.append(nm)
            out.append(f"def {nm} : List FnGroup := [\n" + ",\n".join(fn_terms[c * size:(c + 1) * size]) + "\n]\n\n")
        nm = f"file{gi}"
        names.append(nm)
        out.append(f"/-- {fname} -/\ndef {nm} : FileGroup := ⟨{lstr(fname)}, " + " ++ ".join(chunk_names) + "⟩\n\n")
    out.append("/-- every potential panic site of the non-test, non-verif code, grouped file → fn -/\n"
               "def sitesByFile : List FileGroup := [\n  " + ",\n  ".join(names) + "\n]\n\n")
    out.append(f"def sitesTotal : Nat := {len(inv['sites'])}\n\n")
    out.append("end Moyo.Generated.C08\n")
    return "".join(out)


def summary(inv):
    per_kind, per_file, per_cls = {}, {}, {}
    for s in inv["sites"]:
        per_kind[s["kind"]] = per_kind.get(s["kind"], 0) + 1
        per_file[s["file"]] = per_file.get(s["file"], 0) + 1
        key = s["kind"] + ":" + s["cls"]
        per_cls[key] = per_cls.get(key, 0) + 1
    return {"files": inv["files"], "cfg_items_removed": inv["removed"], "sites": len(inv["sites"]),
            "per_kind": {k: per_kind.get(k, 0) for k in KIND_ORDER}, "per_file": dict(sorted(per_file.items())),
            "per_kind_cls": dict(sorted(per_cls.items()))}


def main():
    ap = argparse.ArgumentParser()
    ap.add_argument("--src", default=os.path.join(os.environ.get("VERIF_REPO", "/repo"), "moyo", "src"))
    ap.add_argument("--out", default=OUT)
    ap.add_argument("--json", default=None)
    ap.add_argument("--print", action="store_true", help="print a readable inventory on stdout")
    ap.add_argument("--bodies", action="store_true", help="print `file|fn|fingerprint` of every fn with sites (to refresh "
                    "the reviewed fingerprints in Moyo/Model/C08Discharge.lean after re-reading a changed fn)")
    args = ap.parse_args()
    inv = build(args.src)
    text = emit_lean(inv, args.src)
    old = open(args.out, encoding="utf-8").read() if os.path.exists(args.out) else None
    wrote = False
    if old != text:
        os.makedirs(os.path.dirname(args.out), exist_ok=True)
        tmp = args.out + ".tmp"
        with open(tmp, "w", encoding="utf-8") as f:
            f.write(text)
        os.replace(tmp, args.out)
        wrote = True
    sm = summary(inv)
    if args.json:
        with open(args.json, "w", encoding="utf-8") as f:
            json.dump({"src": args.src, "sites": inv["sites"], "files": inv["file_list"], "summary": sm}, f, indent=1)
    if args.print:
        for s in inv["sites"]:
            print(f"{s['file']}:{s['line']} fn {s['fn']} [{s['kind']}/{s['cls']}{' ' + s['ev'] if s['ev'] else ''}] {s['expr']}")
    if args.bodies:
        seen = set()
        for x in inv["sites"]:
            if (x["file"], x["fn"]) not in seen:
                seen.add((x["file"], x["fn"]))
                print(f"{x['file']}|{x['fn']}|{x['body']}")
    kinds = " ".join(f"{k}={v}" for k, v in sm["per_kind"].items())
    print(f"translate_c08.py: {sm['files']} files, {sm['cfg_items_removed']} cfg(test|verif) items removed, {sm['sites']} sites "
          f"({kinds}); {'wrote' if wrote else 'unchanged'} {args.out}")
    sys.exit(0)


if __name__ == "__main__":
    main()
