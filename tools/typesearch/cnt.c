// generic count evaluator: reference implementation of the Lean model `Moyo.TypeInvariant.count`
#include <stdio.h>
#include <stdlib.h>
#include <string.h>
typedef struct { long R[9]; long t[3]; } Op;
static Op G[300][200]; static int NG[300];
static void mul(const Op*a,const Op*b,Op*c){Op r;for(int i=0;i<3;i++){for(int j=0;j<3;j++){long s=0;for(int k=0;k<3;k++)s+=a->R[3*i+k]*b->R[3*k+j];r.R[3*i+j]=s;}long s=a->t[i];for(int k=0;k<3;k++)s+=a->R[3*i+k]*b->t[k];r.t[i]=s;}*c=r;}
static const Op ID={{1,0,0,0,1,0,0,0,1},{0,0,0}};
static long tr(const Op*a){return a->R[0]+a->R[4]+a->R[8];}
static long det(const long*a){return a[0]*(a[4]*a[8]-a[5]*a[7])-a[1]*(a[3]*a[8]-a[5]*a[6])+a[2]*(a[3]*a[7]-a[4]*a[6]);}
typedef struct { int len; int w[40]; } Word;
static void evalw(const Word*w,const Op*sl,Op*out){Op c=ID;for(int i=0;i<w->len;i++)mul(&c,&sl[w->w[i]],&c);*out=c;}
static long md(long x,long m){long r=x%m;return r<0?r+m:r;}
#define MAXE 40000
static Op E[3][MAXE]; static int NE[3];
int main(int argc,char**argv){
  FILE*f=fopen(argv[1],"r"); int id,n;
  while(fscanf(f,"%d %d",&id,&n)==2){NG[id]=n;for(int i=0;i<n;i++){for(int k=0;k<9;k++)fscanf(f,"%ld",&G[id][i].R[k]);for(int k=0;k<3;k++)fscanf(f,"%ld",&G[id][i].t[k]);}}
  fclose(f);
  f=fopen(argv[2],"r");
  int m,r;
  while(fscanf(f,"%d %d",&m,&r)==2){
    long ty[3][2]; for(int i=0;i<r;i++)fscanf(f,"%ld %ld",&ty[i][0],&ty[i][1]);
    int neq; fscanf(f,"%d",&neq); Word eq[10][2];
    for(int i=0;i<neq;i++)for(int s=0;s<2;s++){fscanf(f,"%d",&eq[i][s].len);for(int k=0;k<eq[i][s].len;k++)fscanf(f,"%d",&eq[i][s].w[k]);}
    int nd; fscanf(f,"%d",&nd); Word dw[4][6]; long dc[4];
    for(int i=0;i<nd;i++){for(int s=0;s<6;s++){fscanf(f,"%d",&dw[i][s].len);for(int k=0;k<dw[i][s].len;k++)fscanf(f,"%d",&dw[i][s].w[k]);}fscanf(f,"%ld",&dc[i]);}
    int ng; fscanf(f,"%d",&ng);
    for(int gi=0;gi<ng;gi++){
      int g; fscanf(f,"%d",&g);
      for(int s=0;s<r;s++){NE[s]=0;for(int i=0;i<NG[g];i++){Op*o=&G[g][i];if(tr(o)!=ty[s][0]||det(o->R)!=ty[s][1])continue;
        for(int x=0;x<m;x++)for(int y=0;y<m;y++)for(int z=0;z<m;z++){Op e=*o;e.t[0]+=12*x;e.t[1]+=12*y;e.t[2]+=12*z;E[s][NE[s]++]=e;}}}
      long cnt=0; int idx[3]={0,0,0}; Op sl[3];
      long tot=1; for(int s=0;s<r;s++)tot*=NE[s];
      for(long it=0;it<tot;it++){
        long q=it; for(int s=r-1;s>=0;s--){idx[s]=q%NE[s];q/=NE[s];sl[s]=E[s][idx[s]];}
        int ok=1;
        for(int i=0;i<neq&&ok;i++){Op a,b;evalw(&eq[i][0],sl,&a);evalw(&eq[i][1],sl,&b);
          if(memcmp(a.R,b.R,sizeof a.R))ok=0; else for(int k=0;k<3;k++)if(md(a.t[k]-b.t[k],12*m)!=0)ok=0;}
        for(int i=0;i<nd&&ok;i++){long v[9];
          for(int c=0;c<3&&ok;c++){Op a,b;evalw(&dw[i][2*c],sl,&a);evalw(&dw[i][2*c+1],sl,&b);
            if(memcmp(a.R,b.R,sizeof a.R)){ok=0;break;}
            for(int k=0;k<3;k++){long d=a.t[k]-b.t[k];if(md(d,12)!=0){ok=0;break;}v[3*k+c]=d/12;}}
          if(ok&&md(det(v)-dc[i],m)!=0)ok=0;}
        if(ok)cnt++;
      }
      printf("%ld%c",cnt,gi==ng-1?'\n':' ');
    }
    if(ng==0)printf("\n");
  }
  return 0;}
