import sys, json
sys.path.insert(0,'/verif/tools')
import translate_c16 as C
hall, arith, settings, mt, mh = C.load_tables()
outs=[C.model_symbol(l) for l in C.run_model(["mhall "+e["symbol"] for e in mh])]
G={}
for u,(e,o) in enumerate(zip(mh,outs), start=1):
    G[u]=[(list(op[0]), [x%12 for x in op[1]], bool(op[2])) for op in o["pops"]]
json.dump(G,open('magprim.json','w'))
rng={}
for t in mt: rng.setdefault(t["number"],[]).append(t["uni"])
json.dump({"ranges":rng,"ct":{t["uni"]:t["ct"] for t in mt}},open('magranges.json','w'))
print(max(len(v) for v in rng.values()), sum(len(v)*(len(v)-1)//2 for v in rng.values()))
print(G[3], mt[2])
