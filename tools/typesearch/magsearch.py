import json, itertools, subprocess, sys, os
sys.path.insert(0,'/verif/tools')
import translate_c16 as C
W='/verif/.cache/work/c16g/'
G={int(k):[(tuple(r),tuple(t),bool(tr)) for r,t,tr in v] for k,v in json.load(open(W+'magprim.json')).items()}
RJ=json.load(open(W+'magranges.json'))
ranges={int(k):v for k,v in RJ["ranges"].items()}
pg=C.translate_point_group()
def trc(a): return a[0]+a[4]+a[8]
def det(a): return (a[0]*(a[4]*a[8]-a[5]*a[7]) - a[1]*(a[3]*a[8]-a[5]*a[6]) + a[2]*(a[3]*a[7]-a[4]*a[6]))
def typ(o): return (trc(o[0]),det(o[0]),int(o[2]))
def types(ops):
    d={}
    for o in ops: d[typ(o)]=d.get(typ(o),0)+1
    return d
def spec_line(spec, groups):
    m,tys,eqs,dets=spec
    s=[m,len(tys)]
    for t in tys: s+=list(t)
    s.append(len(eqs))
    for a,b in eqs: s+=[len(a)]+list(a)+[len(b)]+list(b)
    s.append(len(dets))
    for ws,c in dets:
        for w in ws: s+=[len(w)]+list(w)
        s.append(c)
    s.append(len(groups)); s+=groups
    return " ".join(map(str,s))
def run(specs, groups, gfile='maggroups.txt'):
    if not specs: return []
    fn=W+'mspecs_%d.txt'%os.getpid()
    open(fn,'w').write("\n".join(spec_line(s,groups) for s in specs)+"\n")
    out=subprocess.run([W+'cntm',W+gfile,fn],capture_output=True,text=True).stdout.strip().split("\n")
    return [tuple(map(int,l.split())) for l in out]
def order_of_type(t):
    return {(3,1):1,(-1,1):2,(0,1):3,(1,1):4,(2,1):6,(-3,-1):2,(1,-1):2,(0,-1):6,(-1,-1):4,(-2,-1):6}[t[:2]]
def tuples(spec, tyc):
    m,tys,eqs,dets=spec
    c=1
    for t in tys: c*=tyc.get(t,0)*m**3
    return c
LIB2 = {
 'a2': ([0,0],[]), 'a3': ([0]*3,[]), 'a4': ([0]*4,[]), 'a6': ([0]*6,[]),
 'b2': ([1,1],[]), 'b3': ([1]*3,[]), 'b4': ([1]*4,[]), 'b6': ([1]*6,[]),
 'ab2': ([0,1,0,1],[]), 'ab3': ([0,1]*3,[]), 'ab4': ([0,1]*4,[]), 'ab6': ([0,1]*6, []),
 'comm': ([0,1],[1,0]), 'a2b': ([0,0,1],[1,0,0]), 'ab2c': ([0,1,1],[1,1,0]),
 'a2ba2': ([0,0,1,0,0],[1]), 'b2ab2': ([1,1,0,1,1],[0]), 'aba': ([0,1,0],[1]), 'bab': ([1,0,1],[0]),
}
def cands1(tys):
    res=[]
    for m in (2,3,4):
        for t in tys:
            k=order_of_type(t)
            js=sorted(set([k,2*k,3*k,4*k])) if t[:2]!=(3,1) else [1,2,3,4]
            for j in js:
                if j<=24: res.append((m,[t],[([0]*j,[])],[]))
    return res
def cands2(tys, ms=(2,4,3)):
    res=[]
    for m in ms:
        for t1,t2 in itertools.combinations_with_replacement(sorted(tys),2):
            names=list(LIB2)
            for nc in (1,2):
                for cs in itertools.combinations(names,nc):
                    res.append((m,[t1,t2],[LIB2[c] for c in cs],[]))
    return res
def rotinv(spec, ops):
    # trivial rot-subset spec: rots of type tau (all have lifts when no eqs)
    t=spec[1][0]
    return tuple(C.inv_vector([o[0] for o in ops if typ(o)==t], pg["rotTypes"]))
def search_range(n, us, log):
    tyset=set()
    tycs={u:types(G[u]) for u in us}
    for u in us: tyset|=set(tycs[u])
    maxc={t:max(tycs[u].get(t,0) for u in us) for t in tyset}
    unsep=set(itertools.combinations(us,2))
    chosen=[]  # (kind, spec)
    def greedy(cands, vals, kind):
        nonlocal unsep
        while unsep:
            best=None
            for s,v in zip(cands,vals):
                sep={(a,b) for (a,b) in unsep if v[us.index(a)]!=v[us.index(b)]}
                if not sep: continue
                cost=(300+60*maxc[s[1][0]]) if kind=='rot' else max(tuples(s,maxc),1)
                score=len(sep)/cost
                if best is None or score>best[0]: best=(score,s,sep)
            if best is None: break
            chosen.append((kind,best[1])); unsep-=best[2]
    # tier H: histogram count specs (no eqs, m=2)
    c0=[(2,[t],[],[]) for t in sorted(tyset)]
    greedy(c0, run(c0,us), 'count')
    if unsep:
        c1=cands1(sorted(tyset)); greedy(c1, run(c1,us), 'count')
    if unsep:
        cr=[(2,[t],[],[]) for t in sorted(tyset)]
        vals=[tuple(rotinv(s,G[u]) for u in us) for s in cr]
        greedy(cr, vals, 'rot')
    if unsep:
        c2=cands2(sorted(tyset))
        for lim in (3e3,3e4,3e5):
            cc=[s for s in c2 if 0<tuples(s,maxc)<lim]
            greedy(cc, run(cc,us), 'count')
            if not unsep: break
    print(n, us[0], us[-1], len(chosen), 'unsep', sorted(unsep), file=log, flush=True)
    for c in chosen: print('   ', c, file=log, flush=True)
    return chosen, sorted(unsep)
if __name__=='__main__':
    lo=int(sys.argv[1]); hi=int(sys.argv[2])
    log=open(W+'magsearch_%d_%d.log'%(lo,hi),'w')
    res={}
    for n in range(lo,hi+1):
        us=ranges[n]
        ch,un=search_range(n,us,log)
        res[n]={'specs':ch,'unsep':un}
    json.dump(res,open(W+'magres_%d_%d.json'%(lo,hi),'w'))
