import sys, itertools, json, os
sys.path.insert(0, '/verif/tools')
import translate_c16 as C
hall, arith, settings, mt, mh = C.load_tables()
first = settings['SPGLIB_HALL_NUMBERS']
outs = C.run_model(["hall " + hall[h-1]["symbol"] for h in first])
G = {}
for n, (h, o) in enumerate(zip(first, outs), start=1):
    ms = C.model_symbol(o)
    ops = []
    for op in ms["pops"]:
        R, t, tr = op
        ops.append((tuple(map(tuple, R)) if not isinstance(R[0], int) else R, tuple(x % 12 for x in t)))
    G[n] = ops
json.dump({str(k): v for k, v in G.items()}, open('/verif/.cache/work/c16g/prim.json', 'w'))
print(G[2], ms["pops"][0])
cls = {}
for n, h in enumerate(first, start=1):
    cls.setdefault(hall[h-1]["arith"], []).append(n)
json.dump(cls, open('/verif/.cache/work/c16g/cls.json', 'w'))
print(sum(len(v)*(len(v)-1)//2 for v in cls.values()), [ (k,len(v)) for k,v in cls.items() if len(v)>1])
