import json, itertools, sys
from search import *
LIB2.update({'a2ba2': ([0,0,1,0,0],[1]), 'b2ab2': ([1,1,0,1,1],[0]), 'aba': ([0,1,0],[1]), 'bab': ([1,0,1],[0]),
             'a3b': ([0,0,0,1],[1,0,0,0]), 'ab3c': ([0,1,1,1],[1,1,1,0]), 'abab': ([0,1,0,1],[1,0,1,0])})
def tiers(tyc):
    yield cands1(tyc), 1e9
    yield candsChir(tyc), 1e9
    c2 = cands2(tyc)
    for lim in (3e3, 3e4, 3e5, 3e6, 3e7):
        yield [s for s in c2 if cost(s,tyc) < lim], lim
if __name__=='__main__':
    result={}
    only = [int(x) for x in sys.argv[1:]]
    for k,ns in sorted(cls.items()):
        if len(ns)<2 or (only and k not in only): continue
        tyc=types(G[ns[0]])
        unsep=set(itertools.combinations(ns,2))
        chosen=[]
        for specs, lim in tiers(tyc):
            if not unsep: break
            if not specs: continue
            vals=run(specs,ns)
            ch,unsep=greedy(ns,specs,vals,tyc,unsep)
            chosen+=ch
        result[k]={'types':ns,'specs':chosen,'unsep':sorted(unsep),'cost':sum(cost(s,tyc) for s in chosen)*len(ns)}
        print(k,ns,len(chosen),'unsep',sorted(unsep),'cost',result[k]['cost'],flush=True)
        for s in chosen: print('   ',s, flush=True)
    json.dump(result,open(W+'result%s.json' % ("_".join(map(str,only))),'w'))
