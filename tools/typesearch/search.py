import json, itertools, subprocess, sys
W='/verif/.cache/work/c16g/'
G = {int(k): [(tuple(r), tuple(t)) for r, t in v] for k, v in json.load(open(W+'prim.json')).items()}
cls = {int(k): v for k, v in json.load(open(W+'cls.json')).items()}
def trc(a): return a[0]+a[4]+a[8]
def det(a): return (a[0]*(a[4]*a[8]-a[5]*a[7]) - a[1]*(a[3]*a[8]-a[5]*a[6]) + a[2]*(a[3]*a[7]-a[4]*a[6]))
def types(ops):
    d = {}
    for R,t in ops:
        k=(trc(R),det(R)); d[k]=d.get(k,0)+1
    return d
def spec_line(spec, groups):
    m, tys, eqs, dets = spec
    s = [m, len(tys)]
    for t in tys: s += list(t)
    s.append(len(eqs))
    for a,b in eqs: s += [len(a)]+list(a)+[len(b)]+list(b)
    s.append(len(dets))
    for ws,c in dets:
        for w in ws: s += [len(w)]+list(w)
        s.append(c)
    s.append(len(groups)); s += groups
    return " ".join(map(str,s))
def run(specs, groups):
    import os
    fn = W+'specs_%d.txt' % os.getpid()
    open(fn,'w').write("\n".join(spec_line(s,groups) for s in specs)+"\n")
    out = subprocess.run([W+'cnt', W+'groups.txt', fn], capture_output=True, text=True).stdout.strip().split("\n")
    return [tuple(map(int,l.split())) for l in out]
def cost(spec, tyc):
    m, tys, eqs, dets = spec
    c = 1
    for t in tys: c *= tyc[t]*m**3
    wl = sum(len(a)+len(b) for a,b in eqs) + sum(sum(len(w) for w in ws) for ws,_ in dets)
    return c*max(wl,1)
LIB2 = {
 'a2': ([0,0],[]), 'a3': ([0]*3,[]), 'a4': ([0]*4,[]), 'a6': ([0]*6,[]),
 'b2': ([1,1],[]), 'b3': ([1]*3,[]), 'b4': ([1]*4,[]), 'b6': ([1]*6,[]),
 'ab2': ([0,1,0,1],[]), 'ab3': ([0,1]*3,[]), 'ab4': ([0,1]*4,[]), 'ab6': ([0,1]*6, []),
 'comm': ([0,1],[1,0]), 'a2b': ([0,0,1],[1,0,0]), 'ab2c': ([0,1,1],[1,1,0]),
}
def order_of_type(t):
    return {(3,1):1,(-1,1):2,(0,1):3,(1,1):4,(2,1):6,(-3,-1):2,(1,-1):2,(0,-1):6,(-1,-1):4,(-2,-1):6}[t]
def cands1(tyc):
    res=[]
    for m in (2,3,4):
        for t in tyc:
            if t==(3,1): continue
            k=order_of_type(t)
            for j in sorted(set([k,2*k,3*k,4*k])):
                if j<=24: res.append((m,[t],[([0]*j,[])],[]))
    return res
def cands2(tyc, ms=(2,4,3)):
    res=[]
    for m in ms:
        for t1,t2 in itertools.combinations_with_replacement(sorted(tyc),2):
            if (3,1) in (t1,t2): continue
            names=[n for n in LIB2 if not (n[0]=='a' and n[1:].isdigit() and int(n[1:])%order_of_type(t1)) and not (n[0]=='b' and n[1:].isdigit() and int(n[1:])%order_of_type(t2))]
            for nc in (1,2,3):
                for cs in itertools.combinations(names,nc):
                    res.append((m,[t1,t2],[LIB2[c] for c in cs],[]))
    return res
def candsChir(tyc):
    res=[]
    for t,m in (((1,1),4),((0,1),3),((2,1),3),((2,1),6)):
        if t in tyc:
            k=order_of_type(t)
            for c in range(m):
                res.append((m,[t,(3,1)],[],[(([1],[],[0,1],[0],[0]*k,[]),c)]))
    return res
def greedy(ns, specs, vals, tyc, unsep):
    chosen=[]
    unsep=set(unsep)
    while unsep:
        best=None
        for s,v in zip(specs,vals):
            sep={(a,b) for (a,b) in unsep if v[ns.index(a)]!=v[ns.index(b)]}
            if not sep: continue
            score=len(sep)/cost(s,tyc)
            if best is None or score>best[0]: best=(score,s,sep)
        if best is None: break
        chosen.append(best[1]); unsep-=best[2]
    return chosen, unsep
if __name__=='__main__':
    result={}
    for k,ns in sorted(cls.items()):
        if len(ns)<2: continue
        tyc=types(G[ns[0]])
        unsep=set(itertools.combinations(ns,2))
        chosen=[]
        for gen in (cands1, cands2, candsChir):
            if not unsep: break
            specs=gen(tyc)
            # limit cost
            specs=[s for s in specs if cost(s,tyc)<3e7]
            vals=run(specs,ns)
            ch,unsep=greedy(ns,specs,vals,tyc,unsep)
            chosen+=ch
        result[k]={'types':ns,'specs':chosen,'unsep':sorted(unsep),'cost':sum(cost(s,tyc) for s in chosen)*len(ns)}
        print(k,ns,len(chosen),'unsep',sorted(unsep),'cost',result[k]['cost'],flush=True)
        for s in chosen: print('   ',s)
    json.dump(result,open(W+'result.json','w'))
