// count evaluator with time-reversal flags; reference implementation of Moyo.TypeInvariant.count (fast algorithm)
#include <stdio.h>
#include <stdlib.h>
#include <string.h>
typedef struct { long R[9]; long t[3]; int tr; } Op;
#define MAXG 1700
static Op *G[MAXG]; static int NG[MAXG];
static void mul(const Op*a,const Op*b,Op*c){Op r;for(int i=0;i<3;i++){for(int j=0;j<3;j++){long s=0;for(int k=0;k<3;k++)s+=a->R[3*i+k]*b->R[3*k+j];r.R[3*i+j]=s;}long s=a->t[i];for(int k=0;k<3;k++)s+=a->R[3*i+k]*b->t[k];r.t[i]=s;}r.tr=a->tr^b->tr;*c=r;}
static const Op ID={{1,0,0,0,1,0,0,0,1},{0,0,0},0};
static long tr(const Op*a){return a->R[0]+a->R[4]+a->R[8];}
static long det(const long*a){return a[0]*(a[4]*a[8]-a[5]*a[7])-a[1]*(a[3]*a[8]-a[5]*a[6])+a[2]*(a[3]*a[7]-a[4]*a[6]);}
typedef struct { int len; int w[40]; } Word;
static long md(long x,long m){long r=x%m;return r<0?r+m:r;}
// evaluate word on reps; coefficient matrices C[j]
static void evalw(const Word*w,const Op*os,int r,Op*out,long C[3][9]){Op c=ID;for(int j=0;j<r;j++)for(int k=0;k<9;k++)C[j][k]=0;
  for(int i=0;i<w->len;i++){int j=w->w[i];for(int k=0;k<9;k++)C[j][k]+=c.R[k];mul(&c,&os[j],&c);}*out=c;}
typedef struct { int ok; long d[3]; long C[3][9]; } Pair;
static void compile(const Word*a,const Word*b,const Op*os,int r,Pair*p){Op x,y;long Ca[3][9],Cb[3][9];evalw(a,os,r,&x,Ca);evalw(b,os,r,&y,Cb);
  p->ok=(memcmp(x.R,y.R,sizeof x.R)==0)&&x.tr==y.tr;for(int k=0;k<3;k++)p->d[k]=x.t[k]-y.t[k];for(int j=0;j<r;j++)for(int k=0;k<9;k++)p->C[j][k]=Ca[j][k]-Cb[j][k];}
int main(int argc,char**argv){
  FILE*f=fopen(argv[1],"r"); int id,n;
  while(fscanf(f,"%d %d",&id,&n)==2){NG[id]=n;G[id]=malloc(sizeof(Op)*n);for(int i=0;i<n;i++){for(int k=0;k<9;k++)fscanf(f,"%ld",&G[id][i].R[k]);for(int k=0;k<3;k++)fscanf(f,"%ld",&G[id][i].t[k]);fscanf(f,"%d",&G[id][i].tr);}}
  fclose(f);
  f=fopen(argv[2],"r");
  int m,r;
  while(fscanf(f,"%d %d",&m,&r)==2){
    long ty[3][3]; for(int i=0;i<r;i++)fscanf(f,"%ld %ld %ld",&ty[i][0],&ty[i][1],&ty[i][2]);
    int neq; fscanf(f,"%d",&neq); Word eq[10][2];
    for(int i=0;i<neq;i++)for(int s=0;s<2;s++){fscanf(f,"%d",&eq[i][s].len);for(int k=0;k<eq[i][s].len;k++)fscanf(f,"%d",&eq[i][s].w[k]);}
    int nd; fscanf(f,"%d",&nd); Word dw[4][6]; long dc[4];
    for(int i=0;i<nd;i++){for(int s=0;s<6;s++){fscanf(f,"%d",&dw[i][s].len);for(int k=0;k<dw[i][s].len;k++)fscanf(f,"%d",&dw[i][s].w[k]);}fscanf(f,"%ld",&dc[i]);}
    int ng; fscanf(f,"%d",&ng);
    long mod=12*m; int nv=m*m*m;
    for(int gi=0;gi<ng;gi++){
      int g; fscanf(f,"%d",&g);
      int reps[3][200]; int nr[3];
      for(int s=0;s<r;s++){nr[s]=0;for(int i=0;i<NG[g];i++){Op*o=&G[g][i];if(tr(o)==ty[s][0]&&det(o->R)==ty[s][1]&&o->tr==ty[s][2])reps[s][nr[s]++]=i;}}
      long cnt=0; long tot=1; for(int s=0;s<r;s++)tot*=nr[s];
      for(long it=0;it<tot;it++){
        Op os[3]; long q=it; for(int s=r-1;s>=0;s--){os[s]=G[g][reps[s][q%nr[s]]];q/=nr[s];}
        Pair ep[10]; Pair dp[4][3]; int ok=1;
        for(int i=0;i<neq&&ok;i++){compile(&eq[i][0],&eq[i][1],os,r,&ep[i]);if(!ep[i].ok)ok=0;}
        for(int i=0;i<nd&&ok;i++)for(int c=0;c<3&&ok;c++){compile(&dw[i][2*c],&dw[i][2*c+1],os,r,&dp[i][c]);if(!dp[i][c].ok)ok=0;for(int k=0;k<3;k++)if(md(dp[i][c].d[k],12))ok=0;}
        if(!ok)continue;
        long ntot=1;for(int s=0;s<r;s++)ntot*=nv;
        for(long ni=0;ni<ntot;ni++){
          long nn[3][3]; long qq=ni; for(int s=r-1;s>=0;s--){long v=qq%nv;qq/=nv;nn[s][2]=v%m;nn[s][1]=(v/m)%m;nn[s][0]=v/(m*m);}
          int good=1;
          for(int i=0;i<neq&&good;i++)for(int k=0;k<3;k++){long s=ep[i].d[k];for(int j=0;j<r;j++)for(int c=0;c<3;c++)s+=12*ep[i].C[j][3*k+c]*nn[j][c];if(md(s,mod)){good=0;break;}}
          for(int i=0;i<nd&&good;i++){long v[9];for(int c=0;c<3;c++)for(int k=0;k<3;k++){long s=dp[i][c].d[k]/12;for(int j=0;j<r;j++)for(int cc=0;cc<3;cc++)s+=dp[i][c].C[j][3*k+cc]*nn[j][cc];v[3*k+c]=s;}
            if(md(det(v)-dc[i],m))good=0;}
          if(good)cnt++;
        }
      }
      printf("%ld%c",cnt,gi==ng-1?'\n':' ');
    }
    if(ng==0)printf("\n");
  }
  return 0;}
