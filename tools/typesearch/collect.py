import re, json, ast
from search import *
res={}
for fn in ('search2.log','search2b.log'):
    cur=None
    for line in open(fn):
        m=re.match(r'^(\d+) \[([\d, ]+)\] (\d+) unsep (\[.*?\]) cost',line)
        if m:
            cur=int(m.group(1)); res[cur]={'types':[int(x) for x in m.group(2).split(',')],'specs':[],'unsep':ast.literal_eval(m.group(4))}
        elif line.startswith('    (') and cur is not None:
            res[cur]['specs'].append(ast.literal_eval(line.strip()))
tot=0
for k,v in sorted(res.items()):
    tyc=types(G[v['types'][0]])
    t=0
    for (m,tys,eqs,dets) in v['specs']:
        c=1
        for ty in tys: c*=tyc[tuple(ty)]*m**3
        t+=c
    v['tuples']=t*len(v['types'])
    tot+=v['tuples']
    if v['tuples']>20000 or v['unsep']: print(k,len(v['types']),v['tuples'],v['unsep'])
print('total',tot, len(res))
json.dump(res,open('collected.json','w'))
