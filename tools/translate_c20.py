#!/usr/bin/env python3
"""T4 translator for C20: moyopy/src/**  ->  lean/Moyo/Generated/C20Bindings.lean

Reads the pyo3 binding sources and emits, as plain Lean data (structures of strings / naturals):
  * every `#[getter]` method and every `#[pyo3(get)]` field of every `#[pyclass]`: Python class name,
    attribute name, Rust return type, the *conversion class* of the body and the field path it reads;
  * every `#[pyo3(signature = (...))]` (and the implicit signature of the other `#[new]`/`#[pyfunction]`s)
    with keyword-only markers and defaults;
  * the `if let Some(x) = x {..} else {..}` / `if flag {..} else {..}` default branches of the constructors,
    the argument list of the call into moyo, the declared error type;
  * `impl From<PyMoyoError> for PyErr` (target exception), every pyo3 exception type mentioned anywhere,
    argument-validation branches (`if <cond> { return Err(<Exc>::new_err(<msg>)) }`), `.ok_or(..)` refusals,
    `.unwrap()` / `.expect(` sites inside constructors and functions (potential panics behind the binding);
  * module name and registered classes.

Deliberately dumb (masked-text scanning with brace matching).  Anything it cannot classify is an error:
non-zero exit naming file:line and the offending text.  The output file is rewritten only when its content changes.

usage: translate_c20.py [--repo /repo] [--out <file>] [--stdout]
"""
import os
import re
import sys

VERIF = os.path.dirname(os.path.dirname(os.path.abspath(__file__)))
OUT_DEFAULT = os.path.join(VERIF, "lean", "Moyo", "Generated", "C20Bindings.lean")


class TranslateError(Exception):
    pass


def fail(path, line, msg, text=""):
    raise TranslateError(f"translate_c20: cannot classify {path}:{line}: {msg}\n    {text.strip()[:400]}")


# ------------------------------------------------------------------------------------------------
# lexical masking: comments, string and char literals replaced by blanks of the same length

def mask(src, comments_only=False):
    out = list(src)
    i, n = 0, len(src)
    while i < n:
        c = src[i]
        if src.startswith("//", i):
            j = src.find("\n", i)
            j = n if j < 0 else j
            for k in range(i, j):
                out[k] = " "
            i = j
        elif src.startswith("/*", i):
            j = src.find("*/", i + 2)
            j = n if j < 0 else j + 2
            for k in range(i, j):
                if out[k] != "\n":
                    out[k] = " "
            i = j
        elif c == '"':
            j = i + 1
            while j < n and src[j] != '"':
                j += 2 if src[j] == "\\" else 1
            if not comments_only:
                for k in range(i + 1, min(j, n)):
                    if out[k] != "\n":
                        out[k] = " "
            i = j + 1
        elif c == "'":
            m = re.match(r"'(\\.|[^\\'])'", src[i:i + 4])
            if m:
                if not comments_only:
                    for k in range(i + 1, i + m.end() - 1):
                        out[k] = " "
                i += m.end()
            else:
                i += 1  # lifetime
        else:
            i += 1
    return "".join(out)


def match_close(masked, i, open_c="{", close_c="}"):
    """index of the bracket closing the one at masked[i]"""
    depth = 0
    for j in range(i, len(masked)):
        if masked[j] == open_c:
            depth += 1
        elif masked[j] == close_c:
            depth -= 1
            if depth == 0:
                return j
    raise TranslateError("unbalanced bracket")


def split_top(s, sep=","):
    parts, depth, cur = [], 0, []
    for ch in s:
        if ch in "([{<":
            depth += 1
        elif ch in ")]}>":
            depth -= 1
        if ch == sep and depth == 0:
            parts.append("".join(cur))
            cur = []
        else:
            cur.append(ch)
    if "".join(cur).strip():
        parts.append("".join(cur))
    return [p.strip() for p in parts]


def nows(s):
    return re.sub(r"\s+", "", s)


def onesp(s):
    return re.sub(r"\s+", " ", s).strip()


def line_of(src, idx):
    return src.count("\n", 0, idx) + 1


def strip_tests(src, masked):
    """blank out `#[cfg(test)] mod tests { ... }`"""
    for m in list(re.finditer(r"#\[cfg\(test\)\]\s*mod\s+\w+\s*\{", masked)):
        a = m.start()
        b = match_close(masked, m.end() - 1)
        blank = "".join(ch if ch == "\n" else " " for ch in masked[a:b + 1])
        masked = masked[:a] + blank + masked[b + 1:]
        src = src[:a] + blank + src[b + 1:]
    return src, masked


# ------------------------------------------------------------------------------------------------
# conversion classes of getter bodies

PRIM_COPY = {"i32", "f64", "usize", "bool", "&str", "HallNumber", "Number", "ArithmeticNumber", "UNINumber"}
PATH = r"[A-Za-z_0-9]+(?:\.[A-Za-z_0-9]+)*"


def classify_elem(var, expr, path, line, raw):
    """conversion of one element inside `.iter().map(|var| expr)`; returns (conv, subpath)"""
    v = re.escape(var)
    m = re.fullmatch(rf"\*{v}\.({PATH})\.transpose\(\)\.as_ref\(\)", expr)
    if m:
        return "deref_transpose_as_ref", m.group(1)
    m = re.fullmatch(rf"\*{v}\.({PATH})\.as_ref\(\)", expr)
    if m:
        return "deref_as_ref", m.group(1)
    m = re.fullmatch(rf"{v}\.({PATH})\.transpose\(\)\.into\(\)", expr)
    if m:
        return "transpose_into", m.group(1)
    m = re.fullmatch(rf"{v}\.({PATH})\.into\(\)", expr)
    if m:
        return "into", m.group(1)
    if expr == f"[{var}.x,{var}.y,{var}.z]":
        return "xyz", ""
    m = re.fullmatch(rf"\[{v}\.({PATH})\[0\],{v}\.({PATH})\[1\],{v}\.({PATH})\[2\]\]", expr)
    if m and m.group(1) == m.group(2):
        return "idx012", m.group(1)
    m = re.fullmatch(rf"{v}\.({PATH})", expr)
    if m:
        return "copy", m.group(1)
    fail(path, line, "element conversion of a getter", raw)


def classify_getter(body, ret, path, line):
    """returns (conv, fieldpath).  `body` is the getter body, `ret` its return type."""
    b = nows(body)
    r = onesp(ret)
    m = re.fullmatch(rf"self\.({PATH})\.transpose\(\)\.into\(\)", b)
    if m:
        return "transpose_into", m.group(1)
    m = re.fullmatch(rf"\*self\.({PATH})\.transpose\(\)\.as_ref\(\)", b)
    if m:
        return "deref_transpose_as_ref", m.group(1)
    m = re.fullmatch(rf"\*self\.({PATH})\.as_ref\(\)", b)
    if m:
        return "deref_as_ref", m.group(1)
    m = re.fullmatch(rf"self\.({PATH})\.clone\(\)\.into\(\)", b)
    if m:
        return "wrap", m.group(1)
    m = re.fullmatch(rf"self\.({PATH})\.into\(\)", b)
    if m:
        if r.startswith("Py"):
            return "wrap", m.group(1)
        if re.fullmatch(r"\[(f64|i32); 3\]", r):
            return "vec_into", m.group(1)
        if re.fullmatch(r"\[\[(f64|i32); 3\]; 3\]", r):
            return "into", m.group(1)      # column-major reinterpretation WITHOUT transpose
        fail(path, line, f"`.into()` getter with return type {r}", body)
    m = re.fullmatch(rf"self\.({PATH})\.clone\(\)", b)
    if m:
        return "clone", m.group(1)
    m = re.fullmatch(rf"self\.({PATH})\.to_string\(\)", b)
    if m:
        return "to_string", m.group(1)
    m = re.fullmatch(rf"self\.({PATH})\.(num_atoms|len)\(\)", b)
    if m:
        return "call_" + m.group(2), m.group(1)
    m = re.fullmatch(rf"self\.({PATH})\.iter\(\)\.map\(\|(\w+)\|(.+)\)\.collect\(\)", b)
    if m:
        conv, sub = classify_elem(m.group(2), m.group(3), path, line, body)
        return "map_" + conv, m.group(1) + "[]" + ("." + sub if sub else "")
    m = re.fullmatch(rf"ifletAngleTolerance::Radian\((\w+)\)=self\.({PATH})\{{Some\((\w+)\)\}}else\{{None\}}", b)
    if m and m.group(1) == m.group(3):
        return "angle_radian_option", m.group(2)
    m = re.fullmatch(rf"matchself\.({PATH})\{{(.*)\}}", b)
    if m:
        arms = [a for a in m.group(2).split(",") if a]
        pairs = []
        for a in arms:
            am = re.fullmatch(r"(\w+)::Type(\d)=>(\d)", a)
            if not am:
                fail(path, line, "match arm of a getter", body)
            pairs.append(f"{am.group(1)}::Type{am.group(2)}={am.group(3)}")
        return "match[" + ";".join(pairs) + "]", m.group(1)
    m = re.fullmatch(rf"self\.({PATH})", b)
    if m:
        if r in PRIM_COPY:
            return "copy", m.group(1)
        fail(path, line, f"plain field getter with non-Copy return type {r}", body)
    fail(path, line, "getter body", body)


# ------------------------------------------------------------------------------------------------
# scanning one file

class Out:
    def __init__(self):
        self.classes = []        # (rust, py, file, line)
        self.getters = []        # dict
        self.signatures = []     # dict(cls, func, kind, params=[(name, kwonly, default)], err, file, line)
        self.opt_branches = []   # (cls, func, param, some, none)
        self.bool_branches = []  # (cls, func, param, tvalue, fvalue)
        self.calls = []          # (cls, func, callee, [args])
        self.validations = []    # (cls, func, cond, exc, msg)
        self.refusals = []       # (cls, func, expr, err)     `.ok_or(<err>)`
        self.unwraps = []        # (cls, func, expr, file, line)
        self.err_from = []       # (from, to, exc, msgexpr)
        self.exc_types = []      # (name, file, line)
        self.module_name = None
        self.registered = []
        self.functions = []


def parse_attrs(text):
    """attributes `#[...]` in `text` (masked, between two items) -> list of strings without whitespace"""
    res = []
    i = 0
    while True:
        i = text.find("#[", i)
        if i < 0:
            return res
        j = match_close(text, i + 1, "[", "]")
        res.append(nows(text[i + 2:j]))
        i = j + 1


def parse_signature_attr(attrs_raw, path, line):
    """`pyo3(signature=(a,*,b=1e-4,c=None))` -> [(name, kwonly, default)] or None"""
    for a in attrs_raw:
        m = re.fullmatch(r"pyo3\(signature=\((.*)\)\)", a)
        if m:
            kw = False
            params = []
            for p in split_top(m.group(1)):
                if p == "*":
                    kw = True
                    continue
                if p.startswith("*") or p.startswith("/"):
                    fail(path, line, "signature element", a)
                if "=" in p:
                    nm, d = p.split("=", 1)
                    params.append((nm, kw, d))
                else:
                    params.append((p, kw, ""))
            return params
    return None


def parse_params(paramtext):
    ps = []
    for p in split_top(paramtext):
        p = onesp(p)
        if not p or p in ("&self", "self", "&mut self"):
            continue
        nm, ty = p.split(":", 1)
        ps.append((nm.strip(), onesp(ty)))
    return ps


def scan_fn(src, masked, start, end):
    """functions at nesting depth 0 of masked[start:end]; yields dict(name, attrs, params, ret, body, line, b0, b1)"""
    i = start
    last_item_end = start
    depth = 0
    pos = start
    while pos < end:
        ch = masked[pos]
        if ch == "{":
            depth += 1
        elif ch == "}":
            depth -= 1
            if depth == 0:
                last_item_end = pos + 1
        elif ch == ";" and depth == 0:
            last_item_end = pos + 1
        elif depth == 0 and masked.startswith("fn ", pos) and (pos == 0 or not (masked[pos - 1].isalnum() or masked[pos - 1] == "_")):
            m = re.match(r"fn\s+(\w+)\s*(<[^>]*>)?\s*\(", masked[pos:])
            if m:
                p0 = pos + m.end() - 1
                p1 = match_close(masked, p0, "(", ")")
                # first `{` or `;` outside brackets after the parameter list (`[[f64; 3]; 3]` contains `;`)
                b0, semi, d = -1, -1, 0
                for q in range(p1 + 1, end):
                    cq = masked[q]
                    if cq in "([<":
                        d += 1
                    elif cq in ")]>" and not (cq == ">" and masked[q - 1] == "-"):
                        d -= 1
                    elif cq == "{" and d == 0:
                        b0 = q
                        break
                    elif cq == ";" and d == 0:
                        semi = q
                        break
                if b0 < 0:
                    pos = (semi if semi >= 0 else end) + 1
                    last_item_end = pos
                    continue
                b1 = match_close(masked, b0)
                rettext = masked[p1 + 1:b0]
                rm = re.match(r"\s*->\s*(.*)", rettext, flags=re.S)
                attrs = parse_attrs(masked[last_item_end:pos])
                yield {"name": m.group(1), "attrs": attrs, "params": parse_params(src[p0 + 1:p1] if True else ""),
                       "params_masked": parse_params(masked[p0 + 1:p1]),
                       "ret": onesp(rm.group(1)) if rm else "", "body": src[b0 + 1:b1], "body_masked": masked[b0 + 1:b1],
                       "line": line_of(src, pos), "b0": b0, "b1": b1, "body_line": line_of(src, b0 + 1)}
                pos = b1 + 1
                last_item_end = pos
                continue
        pos += 1


def analyse_callable(o, rel, cls, fn, kind):
    """constructor / pyfunction / classmethod: signature, default branches, validation, moyo call"""
    path, line = rel, fn["line"]
    sig = parse_signature_attr(fn["attrs"], path, line)
    rust_params = [p for p in fn["params_masked"] if not p[0].startswith("_")]   # `_cls`
    if sig is None:
        sig = [(nm, False, "") for nm, _ in rust_params]
    if [s[0] for s in sig] != [p[0] for p in rust_params]:
        fail(path, line, f"signature {sig} does not list the Rust parameters {rust_params}", "")
    types = dict(rust_params)
    err = ""
    rm = re.fullmatch(r"Result<\s*(.+),\s*(\w+)\s*>", fn["ret"])
    if rm:
        err = rm.group(2)
    elif fn["ret"].startswith("PyResult<"):
        err = "PyErr"
    o.signatures.append({"cls": cls, "func": fn["name"], "kind": kind, "params": [(n, k, d, types[n]) for n, k, d in sig],
                         "ret": fn["ret"], "err": err, "file": rel, "line": line})
    body, bm = fn["body"], fn["body_masked"]
    accounted = set()
    # let X = if let Some(Y) = Z { A } else { B };
    for m in re.finditer(r"let\s+(\w+)\s*=\s*if\s+let\s+Some\((\w+)\)\s*=\s*(\w+)\s*\{", bm):
        a0 = m.end() - 1
        a1 = match_close(bm, a0)
        em = re.match(r"\s*else\s*\{", bm[a1 + 1:])
        if not em:
            fail(path, line, "if-let without else", body[m.start():a1 + 1])
        e0 = a1 + 1 + em.end() - 1
        e1 = match_close(bm, e0)
        o.opt_branches.append((cls, fn["name"], m.group(3), nows(body[a0 + 1:a1]), nows(body[e0 + 1:e1])))
        accounted.add(m.group(3))
    # let X = if FLAG { A } else { B };
    for m in re.finditer(r"let\s+(\w+)\s*=\s*if\s+(\w+)\s*\{", bm):
        a0 = m.end() - 1
        a1 = match_close(bm, a0)
        em = re.match(r"\s*else\s*\{", bm[a1 + 1:])
        if not em:
            fail(path, line, "if without else", body[m.start():a1 + 1])
        e0 = a1 + 1 + em.end() - 1
        e1 = match_close(bm, e0)
        o.bool_branches.append((cls, fn["name"], m.group(2), nows(body[a0 + 1:a1]), nows(body[e0 + 1:e1])))
        accounted.add(m.group(2))
    # if COND { return Err(EXC::new_err(MSG)); }
    for m in re.finditer(r"(?<![\w=])if\s+([^{}=]*?(?:[!=]=)[^{}]*?)\{", bm):
        a0 = m.end() - 1
        a1 = match_close(bm, a0)
        inner = nows(body[a0 + 1:a1])
        im = re.fullmatch(r"returnErr\((\w+)::new_err\((.*)\),?\);?", inner)
        if not im:
            fail(path, line_of(body, m.start()) + fn["body_line"] - 1, "conditional that is not an argument validation", body[m.start():a1 + 1])
        o.validations.append((cls, fn["name"], nows(m.group(1)), im.group(1), onesp(body[a0 + 1:a1]).split("new_err(", 1)[1].rsplit(")", 2)[0].strip().strip(",").strip()))
        for nm in types:
            if re.search(rf"\b{re.escape(nm)}\b", m.group(1)):
                accounted.add(nm)
    # `.ok_or(ERR)` refusals
    for m in re.finditer(r"\.ok_or\(", bm):
        p0 = m.end() - 1
        p1 = match_close(bm, p0, "(", ")")
        # the expression the ok_or is applied to: back to the previous `=` or `;` or `{`
        s0 = max(bm.rfind("=", 0, m.start()), bm.rfind(";", 0, m.start()), bm.rfind("{", 0, m.start())) + 1
        errtxt = nows(body[p0 + 1:p1])
        em = re.match(r"(\w+)::new_err\(", errtxt)
        if em:
            errtxt = em.group(1) + "::new_err"
        elif not re.fullmatch(r"MoyoError::\w+", errtxt):
            fail(path, line_of(body, m.start()) + fn["body_line"] - 1, "error value of `.ok_or(..)`", body[s0:p1 + 1])
        o.refusals.append((cls, fn["name"], nows(body[s0:m.start()]).lstrip(">").lstrip("*"), errtxt))
        for nm in types:
            if re.search(rf"\b{re.escape(nm)}\b", bm[s0:m.start()]):
                accounted.add(nm)
    # unwrap / expect sites
    for m in re.finditer(r"\.(unwrap\(\)|expect\()", bm):
        s0 = max(bm.rfind("=", 0, m.start()), bm.rfind(";", 0, m.start()), bm.rfind("{", 0, m.start())) + 1
        o.unwraps.append((cls, fn["name"], nows(body[s0:m.start()]) + "." + m.group(1).rstrip("("), rel, line_of(body, m.start()) + fn["body_line"] - 1))
    # call into moyo: `Name::new(args)` of a moyo dataset / cell, or a table lookup
    for m in re.finditer(r"\b(MoyoDataset|MoyoMagneticDataset|Cell|MagneticCell|Lattice)::(new|from_basis)\s*\(", bm):
        p0 = m.end() - 1
        p1 = match_close(bm, p0, "(", ")")
        args = [nows(a) for a in split_top(body[p0 + 1:p1])]
        o.calls.append((cls, fn["name"], m.group(1) + "::" + m.group(2), args))
        for nm in types:
            if any(re.search(rf"\b{re.escape(nm)}\b", a) for a in args):
                accounted.add(nm)
    for m in re.finditer(r"\b(hall_symbol_entry|get_magnetic_space_group_type|arithmetic_crystal_class_entry)\s*\(|\.(hall_number|hall_numbers)\s*\(", bm):
        p0 = m.end() - 1
        p1 = match_close(bm, p0, "(", ")")
        args = [nows(a) for a in split_top(body[p0 + 1:p1])]
        o.calls.append((cls, fn["name"], m.group(1) or ("Setting." + m.group(2)), args))
        for nm in types:
            if any(re.search(rf"\b{re.escape(nm)}\b", a) for a in args):
                accounted.add(nm)
    # variables derived by simple iteration over a parameter (positions.iter().map..): count as used by the call
    for nm in types:
        if nm in accounted:
            continue
        if re.search(rf"let\s+{re.escape(nm)}\s*=\s*{re.escape(nm)}\s*\.iter\(\)", bm) or re.search(rf"\b{re.escape(nm)}\s*\.(0|iter\(\)|len\(\))", bm) \
                or re.search(rf"Self\s*\(\s*Setting::\w+\(\s*{re.escape(nm)}\s*\)\s*\)", bm) or re.search(rf"\.get\(\s*\(\s*{re.escape(nm)}\b", bm) \
                or re.search(rf"Self\s*\{{[^}}]*\b{re.escape(nm)}\b", bm):
            accounted.add(nm)
    missing = [nm for nm in types if nm not in accounted]
    if missing:
        fail(path, line, f"parameters {missing} of {cls}.{fn['name']} are not accounted for by any recognised statement", body)


def scan_file(o, root, rel):
    src = mask(open(os.path.join(root, rel)).read(), comments_only=True)   # comments blanked, strings kept
    masked = mask(src)
    src, masked = strip_tests(src, masked)
    # exception types
    for m in re.finditer(r"\bPy([A-Z]\w*Error)\b", masked):
        name = "Py" + m.group(1)
        if name == "PyMoyoError":
            continue
        ctx = masked[max(0, m.start() - 40):m.start()]
        if re.search(r"use\s+pyo3::exceptions::\{?[\w, ]*$", ctx):
            continue
        o.exc_types.append((name, rel, line_of(src, m.start())))
    # module
    m = re.search(r"#\[pymodule\]\s*#\[pyo3\(name\s*=\s*\"(\w+)\"\)\]", src)
    if m:
        o.module_name = m.group(1)
    for m in re.finditer(r"m\.add_class::<(\w+)>\(\)", masked):
        o.registered.append(m.group(1))
    for m in re.finditer(r"wrap_pyfunction!\((\w+)\)", masked):
        o.functions.append(m.group(1))
    # From<PyMoyoError> for PyErr
    for m in re.finditer(r"impl\s+From<(\w+)>\s+for\s+(PyErr)\s*\{", masked):
        b1 = match_close(masked, m.end() - 1)
        inner = src[m.end():b1]
        im = re.search(r"(\w+)::new_err\((.*?)\)\s*\}", inner, flags=re.S)
        if not im:
            fail(rel, line_of(src, m.start()), "From<..> for PyErr body", inner)
        o.err_from.append((m.group(1), m.group(2), im.group(1), nows(im.group(2))))
    # pyclasses
    classes = {}
    for m in re.finditer(r"#\[pyclass(?:\(([^\]]*)\))?\]", masked):
        args = src[m.start():m.end()]
        sm = re.match(r"(?:\s*#\[[^\]]*\])*\s*pub\s+struct\s+(\w+)", masked[m.end():])
        if not sm:
            fail(rel, line_of(src, m.start()), "#[pyclass] not followed by a struct", src[m.start():m.end() + 200])
        rust = sm.group(1)
        nm = re.search(r"name\s*=\s*\"(\w+)\"", args)
        py = nm.group(1) if nm else rust
        classes[rust] = py
        o.classes.append((rust, py, rel, line_of(src, m.start())))
        # #[pyo3(get)] fields of a braced struct
        s_end = m.end() + sm.end()
        rest = masked[s_end:]
        bm = re.match(r"\s*\{", rest)
        if bm:
            b0 = s_end + bm.end() - 1
            b1 = match_close(masked, b0)
            fields = split_top(masked[b0 + 1:b1])
            offs = b0 + 1
            for ftxt in fields:
                fm = re.search(r"(\w+)\s*:\s*(.+)$", ftxt.strip(), flags=re.S)
                if not fm:
                    continue
                attrs = parse_attrs(ftxt)
                nmm = re.search(rf"\b{fm.group(1)}\s*:", masked[offs:b1])
                idx = offs + nmm.start() if nmm else -1
                offs = idx + 1 if idx >= 0 else offs
                if any(a == "pyo3(get)" for a in attrs):
                    o.getters.append({"cls": py, "rust": rust, "attr": fm.group(1), "ret": onesp(fm.group(2)), "conv": "field_get",
                                      "path": fm.group(1), "file": rel, "line": line_of(src, idx if idx >= 0 else b0)})
                elif any(a.startswith("pyo3(") for a in attrs):
                    fail(rel, line_of(src, b0), "field attribute", ftxt)
    # #[pymethods] impl blocks
    for m in re.finditer(r"#\[pymethods\]\s*impl\s+(\w+)\s*\{", masked):
        rust = m.group(1)
        if rust not in classes:
            fail(rel, line_of(src, m.start()), f"#[pymethods] for {rust}, which is not a #[pyclass] of this file", "")
        py = classes[rust]
        b0 = m.end() - 1
        b1 = match_close(masked, b0)
        for fn in scan_fn(src, masked, b0 + 1, b1):
            attrs = fn["attrs"]
            known = [a for a in attrs if a in ("new", "getter", "classmethod", "staticmethod") or a.startswith("pyo3(signature=") or a.startswith("getter(")
                     or a.startswith("allow(") or a.startswith("doc")]
            if len(known) != len(attrs):
                fail(rel, fn["line"], f"attributes {attrs} of {rust}::{fn['name']}", "")
            getter = [a for a in attrs if a == "getter" or a.startswith("getter(")]
            if getter:
                attr = fn["name"]
                gm = re.fullmatch(r"getter\((\w+)\)", getter[0])
                if gm:
                    attr = gm.group(1)
                conv, fpath = classify_getter(fn["body"], fn["ret"], rel, fn["line"])
                o.getters.append({"cls": py, "rust": rust, "attr": attr, "ret": fn["ret"], "conv": conv, "path": fpath,
                                  "file": rel, "line": fn["line"]})
            elif "new" in attrs:
                analyse_callable(o, rel, py, fn, "new")
            elif "classmethod" in attrs or "staticmethod" in attrs:
                if fn["name"] in ("deserialize_json", "from_dict"):
                    continue   # serialisation: property C19
                analyse_callable(o, rel, py, fn, "classmethod")
            else:
                if fn["name"] in ("serialize_json", "as_dict", "__repr__", "__str__"):
                    continue   # serialisation / printing: property C19
                if fn["name"] == "__len__":
                    body = nows(fn["body"])
                    if body != "self.num_operations()":
                        fail(rel, fn["line"], "__len__ body", fn["body"])
                    o.getters.append({"cls": py, "rust": rust, "attr": "__len__", "ret": fn["ret"], "conv": "alias_num_operations", "path": "",
                                      "file": rel, "line": fn["line"]})
                    continue
                fail(rel, fn["line"], f"method {rust}::{fn['name']} is neither getter, constructor nor a known special method", "")
    # #[pyfunction]
    for m in re.finditer(r"#\[pyfunction\]", masked):
        end = len(masked)
        fns = list(scan_fn(src, masked, m.start(), end))
        if not fns:
            fail(rel, line_of(src, m.start()), "#[pyfunction] without fn", "")
        fn = fns[0]
        fn["attrs"] = [a for a in fn["attrs"] if a != "pyfunction"]
        analyse_callable(o, rel, "", fn, "function")


# ------------------------------------------------------------------------------------------------
# Lean output

def lstr(s):
    return '"' + s.replace("\\", "\\\\").replace('"', '\\"').replace("\n", " ") + '"'


def llist(items, indent="  "):
    if not items:
        return "[]"
    return "[\n" + ",\n".join(indent + it for it in items) + "\n]"


def emit(o, repo):
    L = []
    L.append("/- GENERATED by /verif/tools/translate_c20.py from " + repo + "/moyopy/src/** — do not edit. -/")
    L.append("namespace Moyo.Generated.C20")
    L.append("")
    L.append("structure PyClass where\n  rust : String\n  py : String\n  file : String\n  line : Nat\nderiving DecidableEq, Repr")
    L.append("structure Getter where\n  cls : String\n  attr : String\n  ret : String\n  conv : String\n  path : String\n  file : String\n  line : Nat\nderiving DecidableEq, Repr")
    L.append("structure Param where\n  name : String\n  kwOnly : Bool\n  default : String\n  ty : String\nderiving DecidableEq, Repr")
    L.append("structure Signature where\n  cls : String\n  func : String\n  kind : String\n  params : List Param\n  errType : String\n  file : String\n  line : Nat\nderiving DecidableEq, Repr")
    L.append("structure OptBranch where\n  cls : String\n  func : String\n  param : String\n  someValue : String\n  noneValue : String\nderiving DecidableEq, Repr")
    L.append("structure BoolBranch where\n  cls : String\n  func : String\n  param : String\n  trueValue : String\n  falseValue : String\nderiving DecidableEq, Repr")
    L.append("structure Call where\n  cls : String\n  func : String\n  callee : String\n  args : List String\nderiving DecidableEq, Repr")
    L.append("structure Validation where\n  cls : String\n  func : String\n  cond : String\n  exc : String\n  msg : String\nderiving DecidableEq, Repr")
    L.append("structure Refusal where\n  cls : String\n  func : String\n  expr : String\n  err : String\nderiving DecidableEq, Repr")
    L.append("structure Unwrap where\n  cls : String\n  func : String\n  expr : String\n  file : String\n  line : Nat\nderiving DecidableEq, Repr")
    L.append("structure ErrFrom where\n  src : String\n  dst : String\n  exc : String\n  msg : String\nderiving DecidableEq, Repr")
    L.append("structure ExcUse where\n  exc : String\n  file : String\n  line : Nat\nderiving DecidableEq, Repr")
    L.append("")
    L.append(f"def moduleName : String := {lstr(o.module_name or '')}")
    L.append("def registeredClasses : List String := " + llist([lstr(c) for c in o.registered]))
    L.append("def registeredFunctions : List String := " + llist([lstr(c) for c in o.functions]))
    L.append("def pyClasses : List PyClass := " + llist([f"⟨{lstr(r)}, {lstr(p)}, {lstr(f)}, {ln}⟩" for r, p, f, ln in o.classes]))
    L.append("def getters : List Getter := " + llist(
        [f"⟨{lstr(g['cls'])}, {lstr(g['attr'])}, {lstr(g['ret'])}, {lstr(g['conv'])}, {lstr(g['path'])}, {lstr(g['file'])}, {g['line']}⟩" for g in o.getters]))
    sigs = []
    for s in o.signatures:
        ps = ", ".join(f"⟨{lstr(n)}, {'true' if k else 'false'}, {lstr(d)}, {lstr(t)}⟩" for n, k, d, t in s["params"])
        sigs.append(f"⟨{lstr(s['cls'])}, {lstr(s['func'])}, {lstr(s['kind'])}, [{ps}], {lstr(s['err'])}, {lstr(s['file'])}, {s['line']}⟩")
    L.append("def signatures : List Signature := " + llist(sigs))
    L.append("def optBranches : List OptBranch := " + llist([f"⟨{', '.join(lstr(x) for x in b)}⟩" for b in o.opt_branches]))
    L.append("def boolBranches : List BoolBranch := " + llist([f"⟨{', '.join(lstr(x) for x in b)}⟩" for b in o.bool_branches]))
    L.append("def calls : List Call := " + llist([f"⟨{lstr(c)}, {lstr(f)}, {lstr(cal)}, [{', '.join(lstr(a) for a in args)}]⟩" for c, f, cal, args in o.calls]))
    L.append("def validations : List Validation := " + llist([f"⟨{', '.join(lstr(x) for x in v)}⟩" for v in o.validations]))
    L.append("def refusals : List Refusal := " + llist([f"⟨{', '.join(lstr(x) for x in v)}⟩" for v in o.refusals]))
    L.append("def unwraps : List Unwrap := " + llist([f"⟨{lstr(c)}, {lstr(f)}, {lstr(e)}, {lstr(fl)}, {ln}⟩" for c, f, e, fl, ln in o.unwraps]))
    L.append("def errFrom : List ErrFrom := " + llist([f"⟨{', '.join(lstr(x) for x in v)}⟩" for v in o.err_from]))
    L.append("def excUses : List ExcUse := " + llist([f"⟨{lstr(e)}, {lstr(f)}, {ln}⟩" for e, f, ln in o.exc_types]))
    L.append("")
    L.append("end Moyo.Generated.C20")
    return "\n".join(L) + "\n"


def translate(repo):
    root = os.path.join(repo, "moyopy", "src")
    files = []
    for d, _, fs in os.walk(root):
        for f in fs:
            if f.endswith(".rs"):
                files.append(os.path.relpath(os.path.join(d, f), repo))
    files.sort()
    if not files:
        raise TranslateError("translate_c20: no sources under " + root)
    o = Out()
    for rel in files:
        scan_file(o, repo, rel)
    if not o.getters or not o.signatures or not o.err_from:
        raise TranslateError("translate_c20: found no getters / signatures / error conversion — source layout changed")
    # every pymethods class must be registered in the module
    return emit(o, repo), o


def main():
    repo = "/repo"
    out = OUT_DEFAULT
    to_stdout = False
    a = sys.argv[1:]
    while a:
        x = a.pop(0)
        if x == "--repo":
            repo = a.pop(0)
        elif x == "--out":
            out = a.pop(0)
        elif x == "--stdout":
            to_stdout = True
        else:
            print(__doc__)
            return 2
    try:
        text, o = translate(repo)
    except TranslateError as e:
        print(str(e), file=sys.stderr)
        return 1
    if to_stdout:
        sys.stdout.write(text)
        return 0
    old = open(out).read() if os.path.exists(out) else None
    if old != text:
        os.makedirs(os.path.dirname(out), exist_ok=True)
        tmp = out + ".tmp"
        with open(tmp, "w") as f:
            f.write(text)
        os.replace(tmp, out)
        print(f"translate_c20: wrote {out} ({len(o.getters)} getters, {len(o.signatures)} signatures)")
    else:
        print(f"translate_c20: {out} unchanged ({len(o.getters)} getters, {len(o.signatures)} signatures)")
    return 0


if __name__ == "__main__":
    sys.exit(main())
