#!/usr/bin/env python3
"""T3: regenerate /verif/lean/Moyo/Generated/C19Schema.lean from /repo's current sources.

Reads every struct/enum of moyo/src (non-test code) together with its attributes, resolves type
aliases and generic parameters (a parameter bounded by a trait is instantiated with every type that
implements the trait), walks the types reachable from the roots
    Cell, MagneticCell<M>, MoyoDataset, MoyoMagneticDataset<M>
and from the Python wrapper classes of moyopy/src that wrap one of them, and emits
  * one `Ty` (Moyo/Model/Json.lean) per reachable monomorphic type: field names in declaration order,
    field types (nalgebra `Matrix3<T>` = `.matrix 3 3`, `Vector3<T>` = `.matrix 3 1`, both serialised
    by nalgebra as one flat column-major sequence),
  * `typeInfos`: per source item whether `Serialize` and `Deserialize` are both derived, and every
    `#[serde(...)]` attribute of the container, its fields and its variants (key + verbatim text).
Deliberately dumb and loud: anything it does not understand (tuples, references, Option, maps,
struct variants, generic parameters without a trait bound, hand-written `impl Serialize`, ...) is a
non-zero exit naming the span.  `--json` prints the extracted schema as JSON (used by checks/c19.py
to compare with the keys of the JSON the running code emits).
"""
import json
import os
import re
import sys

REPO = os.environ.get("VERIF_REPO", "/repo")
MOYO_SRC = os.path.join(REPO, "moyo", "src")
MOYOPY_SRC = os.path.join(REPO, "moyopy", "src")
OUT = os.path.join(os.path.dirname(os.path.dirname(os.path.abspath(__file__))), "lean", "Moyo", "Generated", "C19Schema.lean")

ROOTS = ["Cell", "MagneticCell", "MoyoDataset", "MoyoMagneticDataset"]

INT_RANGES = {
    "i8": (-2**7, 2**7 - 1), "i16": (-2**15, 2**15 - 1), "i32": (-2**31, 2**31 - 1), "i64": (-2**63, 2**63 - 1),
    "isize": (-2**63, 2**63 - 1),
    "u8": (0, 2**8 - 1), "u16": (0, 2**16 - 1), "u32": (0, 2**32 - 1), "u64": (0, 2**64 - 1), "usize": (0, 2**64 - 1),
}
# serde attributes that change neither the representation nor its symmetry; everything else is reported
# by the table theorem `schema_symmetric` (the list itself is restated in Lean, this one is documentation)
HARMLESS = ["deny_unknown_fields", "bound", "crate", "expecting"]


class Unparsed(Exception):
    pass


def die(msg):
    print("translate_c19.py: " + msg, file=sys.stderr)
    sys.exit(1)


# ------------------------------------------------------------------------------------------------
# lexing

def strip_comments(src, path):
    """Replace comments by spaces (newlines kept), leave string/char literals intact."""
    out = []
    i, n = 0, len(src)
    while i < n:
        c = src[i]
        if c == "/" and i + 1 < n and src[i + 1] == "/":
            j = src.find("\n", i)
            j = n if j < 0 else j
            out.append(" " * (j - i))
            i = j
        elif c == "/" and i + 1 < n and src[i + 1] == "*":
            depth, j = 1, i + 2
            while j < n and depth:
                if src.startswith("/*", j):
                    depth += 1
                    j += 2
                elif src.startswith("*/", j):
                    depth -= 1
                    j += 2
                else:
                    j += 1
            out.append("".join(ch if ch == "\n" else " " for ch in src[i:j]))
            i = j
        elif c == '"':
            j = i + 1
            while j < n and src[j] != '"':
                j += 2 if src[j] == "\\" else 1
            out.append(src[i:j + 1])
            i = j + 1
        elif c == "r" and re.match(r'r#*"', src[i:i + 8]) and (i == 0 or not (src[i - 1].isalnum() or src[i - 1] == "_")):
            m = re.match(r'r(#*)"', src[i:])
            close = '"' + m.group(1)
            j = src.find(close, i + len(m.group(0)))
            if j < 0:
                raise Unparsed(f"{path}: unterminated raw string")
            out.append(src[i:j + len(close)])
            i = j + len(close)
        elif c == "'":
            if i + 1 < n and src[i + 1] == "\\":
                j = src.find("'", i + 2)
                out.append(src[i:j + 1])
                i = j + 1
            elif i + 2 < n and src[i + 2] == "'":
                out.append(src[i:i + 3])
                i += 3
            else:
                out.append(c)
                i += 1
        else:
            out.append(c)
            i += 1
    return "".join(out)


TOKEN = re.compile(r"""
    (?P<ws>\s+)
  | (?P<str>r\#*"(?:.|\n)*?"\#* | b?"(?:[^"\\]|\\.|\n)*")
  | (?P<chr>b?'(?:[^'\\]|\\.[^']*)')
  | (?P<life>'[A-Za-z_]\w*)
  | (?P<id>[A-Za-z_]\w*)
  | (?P<num>\d[\w.]*)
  | (?P<p2>::|->|=>|\.\.=|\.\.|&&|\|\||==|!=|<=|>=)
  | (?P<p1>.)
""", re.X)


def tokenize(src):
    """List of (text, kind, line)."""
    toks = []
    line = 1
    for m in TOKEN.finditer(src):
        kind = m.lastgroup
        text = m.group(0)
        if kind != "ws":
            toks.append((text, kind, line))
        line += text.count("\n")
    return toks


OPEN = {"(": ")", "[": "]", "{": "}"}


def match_close(toks, i):
    """Index of the bracket closing toks[i] (one of ( [ { )."""
    stack = []
    j = i
    while j < len(toks):
        t = toks[j][0]
        if toks[j][1] in ("p1",):
            if t in OPEN:
                stack.append(OPEN[t])
            elif t in (")", "]", "}"):
                if not stack or stack.pop() != t:
                    raise Unparsed(f"unbalanced bracket at line {toks[j][2]}")
                if not stack:
                    return j
        j += 1
    raise Unparsed(f"unclosed bracket at line {toks[i][2]}")


def match_angle(toks, i):
    """Index of the `>` closing the `<` at toks[i] (generics; `->` is one token so it does not count)."""
    depth = 0
    j = i
    while j < len(toks):
        t = toks[j][0]
        if t == "<":
            depth += 1
        elif t == ">":
            depth -= 1
            if depth == 0:
                return j
        elif t in OPEN and toks[j][1] == "p1":
            j = match_close(toks, j)
        elif t in (";", "{"):
            break
        j += 1
    raise Unparsed(f"unclosed generic list at line {toks[i][2]}")


def split_top(toks, sep=","):
    """Split a token list on top-level separators (brackets and generic angles respected)."""
    parts, cur = [], []
    depth = 0
    i = 0
    while i < len(toks):
        t, k, _ = toks[i]
        if k == "p1" and t in OPEN:
            j = match_close(toks, i)
            cur += toks[i:j + 1]
            i = j + 1
            continue
        if t == "<":
            depth += 1
        elif t == ">":
            depth -= 1
        if t == sep and depth == 0:
            parts.append(cur)
            cur = []
        else:
            cur.append(toks[i])
        i += 1
    if cur:
        parts.append(cur)
    return parts


def text_of(toks):
    out = ""
    for t, k, _ in toks:
        if out and (out[-1].isalnum() or out[-1] in '_"') and (t[0].isalnum() or t[0] in '_"'):
            out += " "
        out += t
    return out


# ------------------------------------------------------------------------------------------------
# parsing items

def parse_type(toks, where):
    """Type expression -> ('path', name, [args]) | ('array', elem, n)."""
    if not toks:
        raise Unparsed(f"{where}: empty type")
    t0 = toks[0][0]
    if t0 == "[":
        j = match_close(toks, 0)
        if j != len(toks) - 1:
            raise Unparsed(f"{where}: trailing tokens after array type: {text_of(toks)}")
        inner = split_top(toks[1:j], ";")
        if len(inner) != 2 or len(inner[1]) != 1 or not inner[1][0][0].isdigit():
            raise Unparsed(f"{where}: unsupported slice/array type {text_of(toks)}")
        return ("array", parse_type(inner[0], where), int(inner[1][0][0].replace("usize", "")))
    if t0 in ("&", "(", "*", "dyn", "impl", "fn") or toks[0][1] == "life":
        raise Unparsed(f"{where}: unsupported type {text_of(toks)}")
    # path: seg (:: seg)* [<args>]
    i = 0
    name = None
    while i < len(toks):
        if toks[i][1] != "id":
            raise Unparsed(f"{where}: unsupported type {text_of(toks)}")
        name = toks[i][0]
        i += 1
        if i < len(toks) and toks[i][0] == "::":
            i += 1
            continue
        break
    args = []
    if i < len(toks) and toks[i][0] == "<":
        j = match_angle(toks, i)
        args = [parse_type(a, where) for a in split_top(toks[i + 1:j])]
        i = j + 1
    if i != len(toks):
        raise Unparsed(f"{where}: unsupported type {text_of(toks)}")
    return ("path", name, args)


def parse_attr(toks):
    """`#[ ... ]` content -> (name, inner token list or None)."""
    if not toks or toks[0][1] != "id":
        return ("?", toks)
    name = toks[0][0]
    if len(toks) > 1 and toks[1][0] == "(":
        j = match_close(toks, 1)
        return (name, toks[2:j])
    return (name, toks[1:])


def serde_attrs(attrs):
    """All serde attributes of an attribute list as (key, verbatim text)."""
    res = []
    for name, inner in attrs:
        if name == "serde":
            for part in split_top(inner):
                key = part[0][0] if part else "?"
                res.append((key, text_of(part)))
        elif name == "cfg_attr":
            txt = text_of(inner)
            if "serde" in txt or "Serialize" in txt or "Deserialize" in txt:
                res.append(("cfg_attr", txt))
    return res


def derives(attrs):
    d = []
    for name, inner in attrs:
        if name == "derive":
            for part in split_top(inner):
                if part:
                    d.append(part[-1][0])
    return d


def take_attrs(toks, i):
    attrs = []
    while i + 1 < len(toks) and toks[i][0] == "#" and toks[i + 1][0] == "[":
        j = match_close(toks, i + 1)
        attrs.append(parse_attr(toks[i + 2:j]))
        i = j + 1
    return attrs, i


def skip_vis(toks, i):
    if i < len(toks) and toks[i][0] == "pub":
        i += 1
        if i < len(toks) and toks[i][0] == "(":
            i = match_close(toks, i) + 1
    return i


def parse_generics(toks, where):
    """`<M: Trait, const N: usize, 'a>` -> list of (param, [bound trait names])."""
    params = []
    for part in split_top(toks):
        if not part:
            continue
        if part[0][1] == "life" or part[0][0] == "const":
            raise Unparsed(f"{where}: unsupported generic parameter {text_of(part)}")
        name = part[0][0]
        bounds = []
        if len(part) > 1:
            if part[1][0] != ":":
                raise Unparsed(f"{where}: unsupported generic parameter {text_of(part)}")
            for b in split_top(part[2:], "+"):
                if b and b[-1][1] == "id":
                    bounds.append(b[-1][0])
        params.append((name, bounds))
    return params


def parse_fields(toks, where, named):
    fields = []
    for part in split_top(toks):
        if not part:
            continue
        attrs, i = take_attrs(part, 0)
        i = skip_vis(part, i)
        if named:
            if i + 1 >= len(part) or part[i][1] != "id" or part[i + 1][0] != ":":
                raise Unparsed(f"{where}: cannot parse field `{text_of(part)}`")
            fname = part[i][0]
            ty = parse_type(part[i + 2:], f"{where}.{fname}")
        else:
            fname = str(len(fields))
            ty = parse_type(part[i:], f"{where}.{fname}")
        fields.append({"name": fname, "type": ty, "attrs": serde_attrs(attrs), "line": part[0][2]})
    return fields


def parse_items(path, rel):
    """All struct/enum items, type aliases, trait impls of one file (test modules removed)."""
    src = strip_comments(open(path).read(), rel)
    toks = tokenize(src)
    items, aliases, impls, manual = [], {}, [], []
    i, n = 0, len(toks)
    pending = []
    while i < n:
        t, k, line = toks[i]
        if t == "#" and i + 1 < n and toks[i + 1][0] == "[":
            j = match_close(toks, i + 1)
            pending.append(parse_attr(toks[i + 2:j]))
            i = j + 1
            continue
        if t == "#" and i + 2 < n and toks[i + 1][0] == "!" and toks[i + 2][0] == "[":
            i = match_close(toks, i + 2) + 1
            continue
        if t == "pub":
            i = skip_vis(toks, i)
            continue
        is_test = any(a[0] == "cfg" and text_of(a[1]) == "test" for a in pending)
        if t == "mod" and is_test:
            # skip `#[cfg(test)] mod x { ... }`
            j = i
            while toks[j][0] not in ("{", ";"):
                j += 1
            i = (match_close(toks, j) if toks[j][0] == "{" else j) + 1
            pending = []
            continue
        if t == "type" and k == "id" and i + 2 < n and toks[i + 1][1] == "id" and toks[i + 2][0] == "=":
            j = i + 3
            while toks[j][0] != ";":
                j += 1
            aliases[toks[i + 1][0]] = (parse_type(toks[i + 3:j], f"{rel}:{line} type {toks[i+1][0]}"), f"{rel}:{line}")
            i = j + 1
            pending = []
            continue
        if t == "impl" and k == "id":
            # impl [<..>] Trait [<..>] for Type [<..>] {   (inherent impls have no `for`)
            j = i + 1
            if toks[j][0] == "<":
                j = match_angle(toks, j) + 1
            hdr = []
            while toks[j][0] not in ("{", ";"):
                hdr.append(toks[j])
                j += 1
            names = [x[0] for x in hdr]
            if "for" in names:
                f = names.index("for")
                # trait name = last identifier of the path, before its generics
                tn = None
                for x in hdr[:f]:
                    if x[0] == "<":
                        break
                    if x[1] == "id":
                        tn = x[0]
                tyname = None
                for x in hdr[f + 1:]:
                    if x[0] == "<":
                        break
                    if x[1] == "id" and x[0] != "where":
                        tyname = x[0]
                    if x[0] == "where":
                        break
                impls.append((tn, tyname, f"{rel}:{line}"))
                if tn in ("Serialize", "Deserialize"):
                    manual.append((tn, tyname, f"{rel}:{line}"))
            i = j  # do not skip the body: items inside fn bodies are rare but legal
            pending = []
            if toks[i][0] == "{":
                i += 1
            continue
        if t in ("struct", "enum", "union") and k == "id" and i + 1 < n and toks[i + 1][1] == "id":
            name = toks[i + 1][0]
            where = f"{rel}:{line} {t} {name}"
            j = i + 2
            generics = []
            generics_error = None
            if toks[j][0] == "<":
                e = match_angle(toks, j)
                try:
                    generics = parse_generics(toks[j + 1:e], where)
                except Unparsed as ex:
                    generics_error = str(ex)
                j = e + 1
            if toks[j][0] == "where":
                while toks[j][0] not in ("{", ";", "("):
                    j += 1
            item = {"name": name, "kw": t, "generics": generics, "file": rel, "line": line, "derives": derives(pending),
                    "attrs": serde_attrs(pending), "all_attrs": [a[0] for a in pending],
                    "attr_texts": {a[0]: text_of(a[1]) for a in pending}, "error": None}
            try:
                if generics_error:
                    raise Unparsed(generics_error)
                if t == "union":
                    raise Unparsed(f"{where}: union")
                if toks[j][0] == "{":
                    e = match_close(toks, j)
                    body = toks[j + 1:e]
                    if t == "struct":
                        item["kind"] = "struct"
                        item["fields"] = parse_fields(body, where, True)
                    else:
                        item["kind"] = "enum"
                        item["variants"] = []
                        for part in split_top(body):
                            if not part:
                                continue
                            vattrs, q = take_attrs(part, 0)
                            if part[q][1] != "id":
                                raise Unparsed(f"{where}: cannot parse variant `{text_of(part)}`")
                            vname = part[q][0]
                            payload = None
                            rest = part[q + 1:]
                            if rest and rest[0][0] == "(":
                                c = match_close(rest, 0)
                                fl = parse_fields(rest[1:c], f"{where}::{vname}", False)
                                if len(fl) != 1:
                                    raise Unparsed(f"{where}::{vname}: tuple variant with {len(fl)} fields is not modelled")
                                payload = fl[0]
                                rest = rest[c + 1:]
                            elif rest and rest[0][0] == "{":
                                raise Unparsed(f"{where}::{vname}: struct variant is not modelled")
                            if rest and rest[0][0] != "=":
                                raise Unparsed(f"{where}::{vname}: cannot parse variant `{text_of(part)}`")
                            item["variants"].append({"name": vname, "payload": payload, "attrs": serde_attrs(vattrs) +
                                                     (payload["attrs"] if payload else []), "line": part[0][2]})
                    j = e + 1
                elif toks[j][0] == "(":
                    e = match_close(toks, j)
                    fl = parse_fields(toks[j + 1:e], where, False)
                    if len(fl) != 1:
                        raise Unparsed(f"{where}: tuple struct with {len(fl)} fields is not modelled")
                    item["kind"] = "newtype"
                    item["fields"] = fl
                    j = e + 1
                else:
                    raise Unparsed(f"{where}: unit struct is not modelled")
            except Unparsed as ex:
                # only fatal if the item turns out to be reachable
                item["kind"] = "unparsed"
                item["error"] = str(ex)
                if toks[j][0] in ("{", "("):
                    j = match_close(toks, j) + 1
            items.append(item)
            i = j
            pending = []
            continue
        pending = []
        i += 1
    return items, aliases, impls, manual


def rust_files(root):
    res = []
    for d, _, fs in os.walk(root):
        for f in sorted(fs):
            if f.endswith(".rs"):
                res.append(os.path.join(d, f))
    return sorted(res)


# ------------------------------------------------------------------------------------------------
# resolution

class Schema:
    def __init__(self):
        self.items = {}      # name -> item
        self.aliases = {}    # name -> (type, where)
        self.impls = {}      # trait -> [type names]
        self.manual = []
        self.mono = {}       # monomorphic name -> lean Ty expression (dict form)
        self.order = []      # monomorphic names in dependency order
        self.used_items = []  # item names reachable

    def load(self, root, prefix):
        for p in rust_files(root):
            rel = prefix + os.path.relpath(p, root)
            try:
                items, aliases, impls, manual = parse_items(p, rel)
            except Unparsed as ex:
                die(f"cannot lex {rel}: {ex}")
            for it in items:
                if it["name"] in self.items:
                    other = self.items[it["name"]]
                    it["duplicate"] = f"{other['file']}:{other['line']}"
                    other["duplicate"] = f"{it['file']}:{it['line']}"
                    continue
                self.items[it["name"]] = it
            for k, v in aliases.items():
                if k in self.aliases and text_ty(self.aliases[k][0]) != text_ty(v[0]):
                    self.aliases[k] = (("ambiguous", k, [self.aliases[k][1], v[1]]), v[1])
                else:
                    self.aliases.setdefault(k, v)
            for tr, ty, w in impls:
                self.impls.setdefault(tr, [])
                if ty not in self.impls[tr]:
                    self.impls[tr].append(ty)
            self.manual += manual

    def mono_name(self, name, args):
        return name if not args else name + "<" + ",".join(args) + ">"

    def resolve(self, ty, env, where):
        """Type AST -> schema node {'k': ...}; registers reachable items."""
        if ty[0] == "array":
            return {"k": "array", "n": ty[2], "t": self.resolve(ty[1], env, where)}
        if ty[0] == "ambiguous":
            die(f"{where}: type alias {ty[1]} is defined differently at {ty[2]}")
        _, name, args = ty
        if name in env and not args:
            return self.resolve(env[name], {}, where)
        if name in INT_RANGES and not args:
            lo, hi = INT_RANGES[name]
            return {"k": "int", "lo": lo, "hi": hi, "rust": name}
        if name in ("f64", "f32") and not args:
            return {"k": "float", "rust": name}
        if name == "bool" and not args:
            return {"k": "bool"}
        if name == "char" and not args:
            return {"k": "char"}
        if name == "String" and not args:
            return {"k": "string"}
        if name == "Vec" and len(args) == 1:
            return {"k": "seq", "t": self.resolve(args[0], env, where)}
        if name == "Matrix3" and len(args) == 1:
            return {"k": "matrix", "r": 3, "c": 3, "t": self.resolve(args[0], env, where)}
        if name == "Vector3" and len(args) == 1:
            return {"k": "matrix", "r": 3, "c": 1, "t": self.resolve(args[0], env, where)}
        if name in self.aliases and not args:
            return self.resolve(self.aliases[name][0], {}, f"{where} (alias {name} at {self.aliases[name][1]})")
        if name in self.items:
            it = self.items[name]
            if "duplicate" in it:
                die(f"{where}: type name {name} is declared twice ({it['file']}:{it['line']} and {it['duplicate']})")
            if len(args) != len(it["generics"]):
                die(f"{where}: {name} used with {len(args)} type arguments, declared with {len(it['generics'])}")
            conc = []
            for a in args:
                if a[0] == "path" and a[1] in env and not a[2]:
                    a = env[a[1]]
                conc.append(a)
            return {"k": "ref", "name": self.instantiate(name, conc)}
        die(f"{where}: type `{text_ty(ty)}` is not modelled (not a known primitive, nalgebra Matrix3/Vector3, Vec, alias, "
            f"struct or enum of moyo/src)")

    def instantiate(self, name, args):
        it = self.items[name]
        argnames = [text_ty(a) for a in args]
        mname = self.mono_name(name, argnames)
        if mname in self.mono:
            return mname
        where = f"{it['file']}:{it['line']} {name}"
        if it["kind"] == "unparsed":
            die(it["error"])
        self.mono[mname] = None  # recursion guard
        env = {p: a for (p, _), a in zip(it["generics"], args)}
        if name not in self.used_items:
            self.used_items.append(name)
        if it["kind"] == "struct":
            node = {"k": "struct", "fields": [(f["name"], self.resolve(f["type"], env, f"{where}.{f['name']}")) for f in it["fields"]]}
        elif it["kind"] == "newtype":
            node = {"k": "newtype", "t": self.resolve(it["fields"][0]["type"], env, f"{where}.0")}
        else:
            node = {"k": "enum", "variants": [(v["name"], self.resolve(v["payload"]["type"], env, f"{where}::{v['name']}")
                                               if v["payload"] else None) for v in it["variants"]]}
        if self.mono[mname] is not None:
            die(f"{where}: recursive type")
        self.mono[mname] = node
        self.order.append(mname)
        return mname

    def instantiations(self, name):
        """All monomorphic instances of a (possibly generic) item: parameters range over trait implementors."""
        it = self.items.get(name)
        if it is None:
            die(f"root type {name} not found in moyo/src")
        combos = [[]]
        for p, bounds in it["generics"]:
            cands = None
            for b in bounds:
                impl = self.impls.get(b)
                if impl:
                    cands = impl if cands is None else [c for c in cands if c in impl]
            if not cands:
                die(f"{it['file']}:{it['line']} {name}: generic parameter {p} has no trait bound with implementors in moyo/src")
            combos = [c + [("path", x, [])] for c in combos for x in cands]
        return [self.instantiate(name, c) for c in combos]


def text_ty(ty):
    if ty[0] == "array":
        return f"[{text_ty(ty[1])};{ty[2]}]"
    if ty[0] == "ambiguous":
        return "?" + ty[1]
    return ty[1] + ("<" + ",".join(text_ty(a) for a in ty[2]) + ">" if ty[2] else "")


# ------------------------------------------------------------------------------------------------
# emission

def lstr(s):
    return '"' + s.replace("\\", "\\\\").replace('"', '\\"') + '"'


def lean_ident(mname):
    return "ty" + re.sub(r"\W+", "_", mname).strip("_")


def lint(i):
    return f"({i})" if i < 0 else str(i)


def lean_ty(node):
    k = node["k"]
    if k == "int":
        return f"(.int {lint(node['lo'])} {lint(node['hi'])})"
    if k in ("float", "bool", "char", "string"):
        return "." + k
    if k == "seq":
        return f"(.seq {lean_ty(node['t'])})"
    if k == "array":
        return f"(.array {node['n']} {lean_ty(node['t'])})"
    if k == "matrix":
        return f"(.matrix {node['r']} {node['c']} {lean_ty(node['t'])})"
    if k == "ref":
        return lean_ident(node["name"])
    if k == "newtype":
        return f"(.newtype {lean_ty(node['t'])})"
    if k == "struct":
        return ".struct [\n    " + ",\n    ".join(f"({lstr(n)}, {lean_ty(t)})" for n, t in node["fields"]) + "]"
    if k == "enum":
        return ".enum [\n    " + ",\n    ".join(f"({lstr(n)}, {'none' if t is None else 'some ' + lean_ty(t)})" for n, t in node["variants"]) + "]"
    raise AssertionError(k)


def build():
    sc = Schema()
    sc.load(MOYO_SRC, "moyo/src/")
    roots = []
    for r in ROOTS:
        roots += sc.instantiations(r)
    # Python wrapper classes: newtype pyclass structs of moyopy/src around a root type
    py = Schema()
    py.load(MOYOPY_SRC, "moyopy/src/")
    pyroots = []
    for name, it in sorted(py.items.items(), key=lambda kv: (kv[1]["file"], kv[1]["line"])):
        if "pyclass" not in it["all_attrs"]:
            continue
        if it["kind"] == "unparsed":
            continue
        if it["kind"] != "newtype":
            continue
        ty = it["fields"][0]["type"]
        if ty[0] != "path" or ty[1] not in ROOTS:
            continue
        inner = sc.resolve(ty, {}, f"{it['file']}:{it['line']} {name}.0")
        m = re.search(r'name\s*=\s*"([^"]+)"', it["attr_texts"].get("pyclass", ""))
        pyname = m.group(1) if m else name
        mname = "py:" + pyname
        sc.mono[mname] = {"k": "newtype", "t": inner}
        sc.order.append(mname)
        it = dict(it)
        it["pyname"] = pyname
        it["inner"] = inner["name"]
        sc.items["py:" + name] = it
        sc.used_items.append("py:" + name)
        pyroots.append(mname)
    if len(pyroots) == 0:
        die("no Python wrapper class around Cell/MagneticCell/MoyoDataset/MoyoMagneticDataset found in moyopy/src")
    # hand-written impls of the serde traits for reachable types are not modelled
    for tr, ty, w in sc.manual + py.manual:
        if ty in sc.used_items or ("py:" + str(ty)) in sc.used_items:
            die(f"{w}: hand-written `impl {tr} for {ty}` — the derived representation is no longer what the code uses")
    infos = []
    for name in sc.used_items:
        it = sc.items[name]
        attrs = [("", k, t) for k, t in it["attrs"]]
        members = []
        if it["kind"] in ("struct", "newtype"):
            for f in it["fields"]:
                members.append(f["name"])
                attrs += [(f["name"], k, t) for k, t in f["attrs"]]
        else:
            for v in it["variants"]:
                members.append(v["name"])
                attrs += [(v["name"], k, t) for k, t in v["attrs"]]
        infos.append({"name": it["name"], "source": it["file"], "line": it["line"], "kind": it["kind"],
                      "serialize": "Serialize" in it["derives"], "deserialize": "Deserialize" in it["derives"],
                      "attrs": attrs, "members": members})
    return sc, roots, pyroots, infos


def emit(sc, roots, pyroots, infos):
    L = []
    L.append("import Moyo.Model.Json")
    L.append("/-! GENERATED by /verif/tools/translate_c19.py from /repo (moyo/src, moyopy/src) — do not edit.")
    L.append("Serde schema of every type reachable from Cell, MagneticCell<M>, MoyoDataset, MoyoMagneticDataset<M>")
    L.append("and of the Python wrapper classes around them. -/")
    L.append("namespace Moyo.Generated.C19")
    L.append("open Moyo.Json")
    L.append("")
    for m in sc.order:
        L.append(f"/-- `{m}` -/")
        L.append(f"def {lean_ident(m)} : Ty := {lean_ty(sc.mono[m])}")
        L.append("")
    L.append("/-- every reachable monomorphic type with its schema -/")
    L.append("def schema : List (String × Ty) := [\n  " + ",\n  ".join(f"({lstr(m)}, {lean_ident(m)})" for m in sc.order) + "]")
    L.append("")
    L.append("def roots : List String := [" + ", ".join(lstr(r) for r in roots) + "]")
    L.append("def pyRoots : List String := [" + ", ".join(lstr(r) for r in pyroots) + "]")
    L.append("")
    L.append("/-- One source item (struct/enum): which serde traits it derives and every `#[serde(..)]` attribute")
    L.append("on the container (`\"\"`), a field or a variant, as (member, attribute key, verbatim text). -/")
    L.append("structure TypeInfo where")
    L.append("  name : String")
    L.append("  source : String")
    L.append("  kind : String")
    L.append("  serialize : Bool")
    L.append("  deserialize : Bool")
    L.append("  attrs : List (String × String × String)")
    L.append("  members : List String")
    L.append("")
    L.append("def typeInfos : List TypeInfo := [")
    rows = []
    for t in infos:
        attrs = "[" + ", ".join(f"({lstr(a)}, {lstr(b)}, {lstr(c)})" for a, b, c in t["attrs"]) + "]"
        rows.append(f"  {{ name := {lstr(t['name'])}, source := {lstr(t['source'])}, kind := {lstr(t['kind'])}, "
                    f"serialize := {'true' if t['serialize'] else 'false'}, deserialize := {'true' if t['deserialize'] else 'false'},\n"
                    f"    attrs := {attrs},\n    members := [" + ", ".join(lstr(m) for m in t["members"]) + "] }")
    L.append(",\n".join(rows) + "]")
    L.append("")
    L.append("end Moyo.Generated.C19")
    return "\n".join(L) + "\n"


def main():
    sc, roots, pyroots, infos = build()
    if "--json" in sys.argv:
        json.dump({"schema": {m: sc.mono[m] for m in sc.order}, "roots": roots, "py_roots": pyroots, "type_infos": infos},
                  sys.stdout, indent=1)
        return
    text = emit(sc, roots, pyroots, infos)
    old = open(OUT).read() if os.path.exists(OUT) else None
    if old != text:
        os.makedirs(os.path.dirname(OUT), exist_ok=True)
        tmp = OUT + ".tmp"
        with open(tmp, "w") as f:
            f.write(text)
        os.replace(tmp, OUT)
        print(f"wrote {OUT} ({len(sc.order)} types, {len(infos)} source items)")
    else:
        print(f"unchanged {OUT} ({len(sc.order)} types, {len(infos)} source items)")


if __name__ == "__main__":
    main()
