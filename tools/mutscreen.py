#!/usr/bin/env python3
"""Pre-screen a seeded change without touching /repo.

usage: mutscreen.py <patch.diff | directory containing patch.diff> <check id> [<check id> ...]
A private copy of /repo's current working tree (incl. uncommitted hook edits) gets the patch applied; a private copy of
the harness (path dependency rewritten to that copy) with its own cargo target and work directory is used.  Screening aid
only; the record in /verif/seeded/<name>/meta.json comes from applying the patch to /repo itself (tools/seeded_run.py).
"""
import os, shutil, subprocess, sys
src = os.path.abspath(sys.argv[1])
patch = src if os.path.isfile(src) else os.path.join(src, "patch.diff")
ids = sys.argv[2:]
name = os.path.basename(os.path.dirname(patch)) if os.path.isfile(src) else os.path.basename(src.rstrip("/"))
base = f"/verif/.cache/mutscreen/{name}"
repo = os.path.join(base, "repo")
if os.path.exists(repo):
    shutil.rmtree(repo)
os.makedirs(base, exist_ok=True)
shutil.copytree(os.environ.get("MUT_BASE", "/repo"), repo, ignore=shutil.ignore_patterns("target", ".git"), symlinks=True)
r = subprocess.run(["patch", "-p1", "-i", patch], cwd=repo, capture_output=True, text=True)
if r.returncode != 0:
    print("patch failed:", r.stdout[-500:], r.stderr[-500:]); sys.exit(2)
h = os.path.join(base, "harness")
if os.path.exists(h):
    shutil.rmtree(h)
shutil.copytree("/verif/harness", h, ignore=shutil.ignore_patterns("target"))
ct = open(os.path.join(h, "Cargo.toml")).read().replace('path = "/repo/moyo"', f'path = "{repo}/moyo"')
open(os.path.join(h, "Cargo.toml"), "w").write(ct)
cfg = open(os.path.join(h, ".cargo/config.toml")).read().replace("/verif/.cache/target", os.path.join(base, "target"))
open(os.path.join(h, ".cargo/config.toml"), "w").write(cfg)
env = dict(os.environ, VERIF_REPO=repo, VERIF_HARNESS=h, VERIF_TARGET=os.path.join(base, "target"), VERIF_WORK=os.path.join(base, "work"))
os.makedirs(env["VERIF_WORK"], exist_ok=True)
for pid in ids:
    r = subprocess.run([sys.executable, "/verif/check.py", pid, "--tier", "quick"], env=env, capture_output=True, text=True)
    lines = [l for l in r.stdout.splitlines() if l.startswith(("VIOLATION", "KNOWN", "[" + pid))]
    print(f"== {pid} rc={r.returncode}")
    for l in lines:
        print("  ", l[:300])
    if r.returncode not in (0, 1):
        print(r.stderr[-1500:])
