#!/usr/bin/env python3
"""Pre-screen a seeded change without touching /repo: run checks against a scratch worktree.

usage: mutscreen.py <worktree with the change applied> <check id> [<check id> ...]
A private copy of the harness (path dependency rewritten to the worktree) with its own cargo target and
work directory is used.  This is only a screening aid; the record in /verif/seeded/<id>/meta.json comes
from applying the patch to /repo itself as the brief prescribes.
"""
import os, shutil, subprocess, sys
wt = os.path.abspath(sys.argv[1])
ids = sys.argv[2:]
name = os.path.basename(wt)
base = f"/verif/.cache/mutscreen/{name}"
h = os.path.join(base, "harness")
if os.path.exists(h):
    shutil.rmtree(h)
shutil.copytree("/verif/harness", h, ignore=shutil.ignore_patterns("target"))
ct = open(os.path.join(h, "Cargo.toml")).read().replace('path = "/repo/moyo"', f'path = "{wt}/moyo"')
open(os.path.join(h, "Cargo.toml"), "w").write(ct)
cfg = open(os.path.join(h, ".cargo/config.toml")).read().replace("/verif/.cache/target", os.path.join(base, "target"))
open(os.path.join(h, ".cargo/config.toml"), "w").write(cfg)
env = dict(os.environ, VERIF_REPO=wt, VERIF_HARNESS=h, VERIF_TARGET=os.path.join(base, "target"), VERIF_WORK=os.path.join(base, "work"))
os.makedirs(env["VERIF_WORK"], exist_ok=True)
rc = 0
for pid in ids:
    r = subprocess.run([sys.executable, "/verif/check.py", pid, "--tier", "quick"], env=env, capture_output=True, text=True)
    lines = [l for l in r.stdout.splitlines() if l.startswith(("VIOLATION", "KNOWN", "[" + pid))]
    print(f"== {pid} rc={r.returncode}")
    for l in lines:
        print("  ", l[:300])
    if r.returncode not in (0, 1):
        print(r.stderr[-1500:])
