"""Shared driver for the magnetic pipeline properties C11, C12, C13.

Magnetic crystals generated from the 1651 tabulated magnetic space groups (harness `mag-gen`, G-mag of
DESIGN §2.6) go through `MoyoMagneticDataset::<Collinear|NonCollinear>::new`; every returned dataset is
dumped with exact floats together with the generator's ground truth and judged by the Lean oracles
(`mds` command of moyo_model, Moyo/Model/MagOracle.lean) in exact rational arithmetic.  A failed
clause tagged with the property id is a violation; the case is regenerated from (tier, seed, tag) for
replay.  C11, C12 and C13 share the generated cases and the oracle answers through a cache keyed by
the content hash of everything the answers depend on (as checks/pipe.py).
"""
import hashlib
import json
import os
import re
import subprocess
import time

import vlib
from vlib import log
from checks import pipe

PLAN = ("for each selected UNI number one generic magnetic crystal per (moment kind, action) combination (non-collinear/collinear x "
        "axial/polar): one magnetic species with a generic moment on a generic orbit of the generating magnetic group, plus one "
        "non-magnetic species when the group is small; variants: own conventional cell; re-described cell (random unimodular "
        "re-basing with entries up to 6, origin shift, rigid rotation with the moments rotated along, atom permutation, added "
        "lattice vectors); all moments reversed; all moments zero; weakly canted moments (about half of the moments perturbed by "
        "6 mag_symprec .. 0.3 sqrt(mag_symprec), mag_symprec in {1e-5, 1e-4}: the symmetry is then an unknown subgroup, these cases "
        "are judged by the truth-independent clauses of C11 only - every reported operation maps moments within 4 mag_symprec, "
        "group axioms, index); noise well inside the tolerances (atoms and lattice 5 % of symprec, moments 5 % of mag_symprec, "
        "judged by all clauses: the standardized cell must still come out exactly symmetric); supercell by a random HNF of index 2..3 (thorough 2..4); "
        "symprec 1e-4, mag_symprec in {None, 1e-4, 3e-4, 1e-3}.  "
        "quick: UNI numbers with (uni+seed) mod 3 == 0 plus the first entry of every construct type x centering class, one "
        "combination chosen by (uni+seed) mod 4, always a re-described case, the other variants for a seed-dependent 1/3..1/6 "
        "of the numbers; groups with >= 192 conventional operations: a single re-described case for one number in four.  "
        "thorough: all 1651 numbers, all four combinations, each with a re-described case and one of own / reversed / zero / "
        "supercell (so every number sees every variant); groups with >= 192 operations: one combination, own + re-described")


def run_cases(tier, seed, key):
    """Returns (request lines, answer lines, skipped premises, cache_hit)."""
    cdir = os.path.join(vlib.WORK, "magcache", key)
    os.makedirs(cdir, exist_ok=True)
    cases = os.path.join(cdir, f"mag_{tier}_{seed}.cases")
    outs = os.path.join(cdir, f"mag_{tier}_{seed}.out")
    with vlib.Lock(f"mag_{tier}_{seed}"):
        hit = False
        if os.path.exists(outs) and os.path.exists(cases):
            lines = [l.rstrip("\n") for l in open(cases)]
            ans = [l.rstrip("\n") for l in open(outs)]
            reqs = [l for l in lines if l.startswith("mds ")]
            if len(reqs) == len(ans):
                hit = True
        if not hit:
            t = time.time()
            nparts = max(1, min(vlib.NCPU, 12))
            env = dict(vlib.ENV)
            env["VERIF_SEED"] = str(seed)
            procs = []
            for p in range(nparts):
                part = os.path.join(cdir, f"part{p}.cases")
                procs.append((part, subprocess.Popen([vlib.HARNESS_BIN, "mag-gen", tier, part, str(p), str(nparts)], env=env,
                                                     stdout=subprocess.DEVNULL, stderr=subprocess.PIPE, text=True)))
            lines = []
            for part, pr in procs:
                _, err = pr.communicate()
                if pr.returncode != 0:
                    raise RuntimeError(f"mag-gen failed: {err[-2000:]}")
                lines += [l.rstrip("\n") for l in open(part)]
                os.unlink(part)
            with open(cases, "w") as f:
                f.write("\n".join(lines) + "\n")
            reqs = [l for l in lines if l.startswith("mds ")]
            tg = time.time() - t
            ans = vlib.run_model(reqs)
            with open(outs, "w") as f:
                f.write("\n".join(ans) + "\n")
            log(f"[magpipe] {len(reqs)} cases: generation {tg:.1f}s, oracle {time.time()-t-tg:.1f}s")
            root = os.path.join(vlib.WORK, "magcache")
            for k in os.listdir(root):
                if k != key:
                    for f in os.listdir(os.path.join(root, k)):
                        try:
                            os.unlink(os.path.join(root, k, f))
                        except OSError:
                            pass
                    try:
                        os.rmdir(os.path.join(root, k))
                    except OSError:
                        pass
        skips = [l.split(" ", 1)[1] for l in lines if l.startswith("mskip ")]
        return reqs, ans, skips, hit


seg = pipe.seg
parse_answer = pipe.parse_answer


CANT_OK = re.compile(r"C11\[(det|pos|mom|identity|dup|closure|inverse|index)\]|C08:")


def own_fails(pid, line, p):
    """Failed clauses of this property; weakly canted cases (`tvariant cant`: the generating group is only an upper bound
    of the symmetry) are judged by the truth-independent clauses of C11 alone."""
    mine = [f for f in p["fails"] if f.startswith(pid) or f.startswith("C08:")]
    if seg(line, "tvariant") == "cant":
        mine = [f for f in mine if CANT_OK.match(f)]
    return mine


def clause_code(f):
    m = re.match(r"(C\d\d\[[^\]]*\])", f)
    return m.group(1) if m else f.split(":")[0]


def short_case(line):
    return {"tag": line.split(" ")[1], "atoms": seg(line, "n"), "kind": seg(line, "kind"), "action": seg(line, "action"),
            "symprec": str(float(vlib.parse_num(seg(line, "symprec")))),
            "mag_symprec": (lambda s: s if s == "none" else str(float(vlib.parse_num(s))))(seg(line, "magsymprec")),
            "uni": seg(line, "tuni"), "construct_type": seg(line, "tctype"), "centering": seg(line, "tcentering"),
            "P": seg(line, "tP"), "variant": seg(line, "tvariant"), "steps": seg(line, "tsteps"),
            "out": seg(line, "out"), "uni_returned": seg(line, "uni"), "nops": seg(line, "nops")}


def run_property(pid, tier, seed, props, rule, nontrivial, classify=None, trusted=None, stages=None):
    """`classify(line, parsed, mine)` -> stable key (or None) for known-findings matching."""
    run = vlib.Run(pid, tier, seed, "proof")
    cov = run.coverage
    ok, err = vlib.build_harness()
    if not ok:
        run.violation("harness_build.txt", "harness/moyo failed to build with hooks on:\n" + err, no_input=True)
        cov.update({"obligations": 0, "discharged": 0, "checker_cmd": "lake build", "trusted_base": []})
        return run.finish()
    okt, terr = vlib.translate()
    ob = vlib.proof_obligations(props)
    okm, out = vlib.lake_build(["moyo_model"])
    if not okt:
        ob["failures"].append("translator failed: " + terr[-1500:])
    if not okm:
        ob["failures"].append("moyo_model failed to build: " + out[-1500:])
    cov["obligations"] = ob["obligations"]
    cov["discharged"] = ob["discharged"]
    cov["theorems"] = ob["names"]
    cov["checker_cmd"] = "cd /verif/lean && lake build " + " ".join(m for m, _ in props) + " ; #print axioms on every theorem (vlib.axiom_audit)"
    cov["trusted_base"] = vlib.TRUSTED_COMMON + (trusted or [])
    key = pipe.tree_key()
    try:
        reqs, ans, skips, hit = run_cases(tier, seed, key)
    except RuntimeError as e:
        run.violation("gen_mag.txt", str(e), no_input=True)
        return run.finish()
    failing, known = [], []
    distinct, nontriv = set(), 0
    outcomes, unis, ctypes, cents, combos, variants, errkinds, clause_hist = {}, set(), {}, {}, {}, {}, {}, {}
    redraws = 0
    for line, a in zip(reqs, ans):
        p = parse_answer(a)
        if p is None:
            failing.append((line, f"oracle could not judge the case: {a[:200]}", None))
            continue
        outcomes[p["outcome"]] = outcomes.get(p["outcome"], 0) + 1
        if p["outcome"].startswith("err:"):
            errkinds[p["outcome"][4:]] = errkinds.get(p["outcome"][4:], 0) + 1
        unis.add(seg(line, "tuni"))
        for dct, k in ((ctypes, seg(line, "tctype")), (cents, seg(line, "tcentering")),
                       (combos, f"{seg(line, 'kind')}/{seg(line, 'action')}"), (variants, seg(line, "tvariant"))):
            dct[k] = dct.get(k, 0) + 1
        redraws += int(seg(line, "tredraws") or 0)
        sig = hashlib.sha1(line.split(" ; out ")[0].encode()).hexdigest()
        if sig not in distinct:
            distinct.add(sig)
            if nontrivial(p, line):
                nontriv += 1
        mine = own_fails(pid, line, p)
        if mine:
            for f in mine:
                c = clause_code(f)
                clause_hist[c] = clause_hist.get(c, 0) + 1
            k = classify(line, p, mine) if classify else None
            failing.append((line, " || ".join(mine), k))
    cov["evaluations"] = len(reqs)
    cov["distinct_nontrivial"] = nontriv
    cov["rule"] = rule
    cov["samples"] = [short_case(reqs[i]) for i in sorted({0, len(reqs) // 3, (2 * len(reqs)) // 3}) if i < len(reqs)]
    cov["plan"] = PLAN
    cov["outcomes"] = outcomes
    cov["error_kinds"] = errkinds
    cov["uni_numbers_hit"] = len(unis)
    cov["construct_types"] = ctypes
    cov["centerings"] = cents
    cov["moment_kind_action"] = combos
    cov["variants"] = variants
    cov["premise_skipped"] = skips
    cov["premise_redraws"] = redraws
    cov["failed_clauses"] = clause_hist
    cov["oracle_cache_hit"] = hit
    cov["tree_key"] = key
    cov["exhaustive"] = False
    # violations: every failing case whose key is not a listed finding
    new = []
    keyhist = {}
    for line, why, k in failing:
        keyhist[str(k)] = keyhist.get(str(k), 0) + 1
        if k is not None and any(kf["key"] == k for kf in run.known):
            run.violation("unused", "", key=k)   # records the known finding (no file is written for a listed key)
            known.append((line, why, k))
        else:
            new.append((line, why, k))
    cov["failure_keys"] = keyhist
    # stage correspondence of the magnetic stage models (checks/stages_mag.py), as `stages=` of checks/pipe.py
    stage_bad = []
    if stages:
        from checks import stages_magid as stages_mag
        try:
            nst, stage_bad, sstats = stages_mag.run_stages(stages, tier, seed, key)
            cov["stage_cases_compared"] = nst
            cov["stage_model_impl_disagreements"] = len(stage_bad)
            cov["stages"] = stages
            cov["stage_stats"] = sstats
            for h in (sstats or {}).get("failing_inputs_" + pid, []):
                new.append((h["case"], h["clauses"], None))
        except RuntimeError as e:
            stage_bad = [("mag-stage-gen", str(e))]
    if new:
        line, why, k = new[0]
        tag = line.split(" ")[1]
        run.violation("failing_input.json", {
            "property": pid, "tier": tier, "seed": seed, "tag": tag, "key": k, "failed_clauses": why,
            "how_to_replay": f"python3 check.py {pid} --replay <this file>  (regenerates the case with the same seed against the current tree and re-runs the Lean oracle)",
            "summary": short_case(line),
            "others": [{"tag": l.split(' ')[1], "key": kk, "clauses": w[:300]} for l, w, kk in new[1:40]],
            "case": line})
    elif ob["failures"] or stage_bad:
        txt = ""
        if ob["failures"]:
            txt += "proof obligations that no longer check:\n" + "\n".join("  " + f for f in ob["failures"]) + "\n"
        if stage_bad:
            txt += f"stage correspondence (model vs implementation) broken on {len(stage_bad)} magnetic stage cases; first:\n"
            for q, m in stage_bad[:5]:
                txt += f"  {q[:300]}\n    -> {m}\n"
        run.violation("unchecked.txt", txt + f"the Lean oracles hold on all {len(reqs)} explored magnetic datasets (seed {seed})", no_input=True)
    return run.finish()


def replay(pid, path, classify=None):
    d = json.load(open(path))
    vlib.build_harness()
    vlib.lake_build(["moyo_model"])
    r = vlib.harness(["mag-one", d["tier"], d["tag"]], seed=d["seed"])
    line = r.stdout.strip()
    if not line:
        print("could not regenerate the case; using the recorded case line")
        line = d["case"]
    a = vlib.run_model([line])[0]
    print("oracle:", a[:3000])
    p = parse_answer(a)
    mine = own_fails(pid, line, p) if p else ["unparsed"]
    if mine:
        k = classify(line, p, mine) if (classify and p) else None
        if k is not None and any(kf["property"] == pid and kf["key"] == k for kf in vlib.load_known()):
            print(f"KNOWN-FINDING: property={pid} {k}")
            return 0
        print(f"VIOLATION property={pid} replay={path}")
        return 1
    print("no violation on the current tree")
    return 0
