"""C15 — integer normal forms are exact decompositions.

Proof: theorems of Moyo/Props/C15.lean about the Lean model `hnf`/`snf` (all m, n, all matrices).
Tie to the code: exact equality of every factor between the model and `HNF::new`/`SNF::new` on
an exhaustive 3x3 box plus random/harvested matrices of the shapes the library uses.
On disagreement the Lean oracle (`hnfcheck`/`snfcheck`, Moyo/Model/NFSpec.lean) is run on the
implementation's own outputs to find a failing input.
"""
import os
import vlib
from vlib import log

PROPS = [("Moyo.Props.C15", "Moyo/Props/C15.lean")]


def oracle_request(req, exp):
    """Build the oracle request for an implementation output line."""
    kind, rest = req.split(" ", 1)
    parts = rest.split(" ")
    m, n = parts[0], parts[1]
    a = " ".join(parts[2:])
    if exp.startswith("PANIC"):
        return None
    fields = [f.strip() for f in exp.split(";")]
    if kind == "hnf":
        return f"hnfcheck {m} {n} {a} ; {fields[0]} ; {fields[1]}"
    return f"snfcheck {m} {n} {a} ; {fields[0]} ; {fields[1]} ; {fields[2]} ; {fields[3]}"


def run(tier, seed):
    run = vlib.Run("C15", tier, seed, "proof")
    cov = run.coverage
    ok, err = vlib.build_harness()
    if not ok:
        run.violation("harness_build.txt", "harness/moyo failed to build with hooks on:\n" + err, no_input=True)
        cov.update({"obligations": 0, "discharged": 0, "checker_cmd": "lake build Moyo.Props.C15", "trusted_base": []})
        return run.finish()
    ob = vlib.proof_obligations(PROPS)
    okm, out = vlib.lake_build(["moyo_model"])
    cov["obligations"] = ob["obligations"]
    cov["discharged"] = ob["discharged"]
    cov["theorems"] = ob["names"]
    cov["checker_cmd"] = "cd /verif/lean && lake build Moyo.Props.C15 && #print axioms on every theorem (vlib.axiom_audit)"
    cov["trusted_base"] = vlib.TRUSTED_COMMON + [
        "i32 arithmetic of the Rust code is modelled by unbounded Int; absence of wrap-around is observed through exact output equality, not proved",
        "rank over Q in the oracle is computed by unverified Gauss-Jordan elimination (certificates are checked only for unimodularity)",
    ]
    proof_broken = bool(ob["failures"]) or not okm
    if not okm:
        ob["failures"].append("moyo_model failed to build: " + out[-2000:])

    # ---- correspondence
    cases = os.path.join(vlib.WORK, f"c15_{tier}_{seed}.cases")
    r = vlib.harness(["c15-gen", tier, cases], seed=seed)
    if r.returncode != 0:
        run.violation("harness_run.txt", "c15-gen failed:\n" + r.stderr[-3000:], no_input=True)
        return run.finish()
    reqs, exps = vlib.read_cases(cases)
    outs = vlib.run_model(reqs) if okm else ["MODEL-UNAVAILABLE"] * len(reqs)
    mism = [i for i in range(len(reqs)) if outs[i] != exps[i]]
    distinct = len(set(reqs))
    shapes = {}
    nontrivial = 0
    seen = set()
    for q in reqs:
        p = q.split(" ")
        shapes[f"{p[0]} {p[1]}x{p[2]}"] = shapes.get(f"{p[0]} {p[1]}x{p[2]}", 0) + 1
        if q not in seen:
            seen.add(q)
            ent = [int(x) for x in p[3:]]
            if sum(1 for e in ent if e != 0) >= 3:
                nontrivial += 1
    cov["evaluations"] = len(reqs)
    cov["distinct_nontrivial"] = nontrivial
    cov["rule"] = ("every 3x3 integer matrix with entries in [-1,1] (quick) / [-2,2] (thorough), random dense/sparse/low-rank "
                   "matrices of shapes 3xn, 5x7, 7x5, 9kx9, 3kx3 with entries up to 8, and Sylvester / origin-shift / "
                   "translation-lattice systems built from the 73 arithmetic classes; hnf and snf each; a case counts as "
                   "non-trivial when distinct and with at least 3 non-zero entries")
    cov["shapes"] = shapes
    cov["samples"] = [reqs[i] + " => " + outs[i] for i in (0, len(reqs) // 2, len(reqs) - 1)]
    cov["model_impl_disagreements"] = len(mism)
    cov["exhaustive"] = False

    # ---- i64 predicate on the implementation over a whole box (exploration support)
    box = 4 if tier == "thorough" else 3
    rb = vlib.harness(["c15-box", str(box), str(vlib.NCPU)])
    box_fail = []
    for line in rb.stdout.splitlines():
        if line.startswith("box "):
            cov["box_predicate"] = line
        if line.startswith("fail "):
            box_fail.append(line[5:])
    if rb.returncode != 0:
        run.violation("box_crash.txt", "c15-box crashed:\n" + rb.stderr[-2000:], no_input=True)

    # ---- last sentence of C15: Transformation::transform_cell generates det(M) pairwise distinct cosets (judged on the
    # implementation's own output: site count and pairwise difference modulo the new lattice), whole box of 3x3 matrices
    cb = 3 if tier == "thorough" else 2
    rc_ = vlib.harness(["c15-cosets", str(cb), str(vlib.NCPU), "64"])
    coset_fail = []
    for line in rc_.stdout.splitlines():
        if line.startswith("cosets "):
            cov["supercell_cosets_box"] = line
        if line.startswith("cfail "):
            coset_fail.append(line[6:])
    if rc_.returncode != 0:
        run.violation("cosets_crash.txt", "c15-cosets crashed:\n" + rc_.stderr[-2000:], no_input=True)

    # ---- decide
    failing = []
    for cf in coset_fail:
        mat, why = cf.split(" : ", 1)
        failing.append((f"cosets {mat}", why, "Transformation::transform_cell with this supercell matrix on a one-atom cell"))
    # inputs where the implementation panicked
    for i in range(len(reqs)):
        if exps[i].startswith("PANIC"):
            failing.append((reqs[i], exps[i], "implementation panicked"))
    # oracle on disagreeing inputs and box failures
    cand = [(reqs[i], exps[i]) for i in mism[:2000] if not exps[i].startswith("PANIC")]
    for bf in box_fail:
        mat = bf.split(" : ")[0]
        for kind in ("hnf", "snf"):
            rr = vlib.harness(["c15-one", kind] + mat.split(" "))
            cand.append((f"{kind} {mat}", rr.stdout.strip()))
    oreqs = [oracle_request(q, e) for q, e in cand]
    if okm and oreqs:
        overd = vlib.run_model([o for o in oreqs if o])
        k = 0
        for (q, e), o in zip(cand, oreqs):
            if o is None:
                continue
            v = overd[k]
            k += 1
            if v != "holds":
                failing.append((q, e, "oracle: " + v))
    if failing:
        q, e, why = failing[0]
        run.violation("failing_input.txt",
                      f"request: {q}\nimplementation output: {e}\nverdict: {why}\n"
                      f"(replay: python3 check.py C15 --replay <this file>)\nall failing ({len(failing)}):\n" +
                      "\n".join(f"{a} | {b} | {c}" for a, b, c in failing[:50]))
    elif mism or proof_broken:
        lines = []
        if ob["failures"]:
            lines.append("proof obligations that no longer check (Moyo/Props/C15.lean):")
            lines += ["  " + f for f in ob["failures"]]
        if mism:
            lines.append(f"model/implementation correspondence broken on {len(mism)} of {len(reqs)} cases; first:")
            for i in mism[:10]:
                lines.append(f"  request: {reqs[i]}\n    impl : {exps[i]}\n    model: {outs[i]}")
            lines.append("the C15 oracle holds on the implementation's outputs for all disagreeing inputs and on the whole box "
                         + cov.get("box_predicate", ""))
        run.violation("unchecked.txt", "\n".join(lines), no_input=True)
    return run.finish()


def replay(path):
    txt = open(path).read()
    okb, err = vlib.build_harness()
    vlib.lake_build(["moyo_model"])
    rc = 0
    for line in txt.splitlines():
        if line.startswith("request: "):
            q = line[len("request: "):].strip()
            kind, rest = q.split(" ", 1)
            if kind == "cosets":
                rr = vlib.harness(["c15-coset-one"] + rest.split(" "))
                print("request:", q)
                print("implementation:", rr.stdout.strip())
                if rr.stdout.strip() != "distinct":
                    rc = 1
                continue
            rr = vlib.harness(["c15-one", kind] + rest.split(" "))
            e = rr.stdout.strip()
            print("request:", q)
            print("implementation:", e)
            print("model:", vlib.run_model([q])[0])
            o = oracle_request(q, e)
            if o is None:
                print("verdict: implementation panicked")
                rc = 1
            else:
                v = vlib.run_model([o])[0]
                print("oracle:", v)
                if v != "holds":
                    rc = 1
    if rc:
        print(f"VIOLATION property=C15 replay={path}")
    return rc
