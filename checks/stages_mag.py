"""Stage correspondence for the magnetic stages S8m, S9m, S4m, S10m (harness `mag-stage-gen`, harness/src/magstages.rs;
Lean models Moyo/Model/StageMag.lean, driver Moyo/Model/DriverMagStage.lean).

  s8m   PrimitiveMagneticCell::new.  The model gets the magnetic cell and the translations / permutations of the non-magnetic
        stage S1; oracle parameter `impllinear` (the implementation's `linear`, from which the model recovers the Minkowski
        matrix of the primitive magnetic cell and checks that it is unimodular).
  s9m   PrimitiveMagneticSymmetrySearch::new.  The model gets the primitive magnetic cell and the candidate operations of the
        non-magnetic search and computes permutations, time-reversal flags, the emptiness test and check_closure itself.
  s4m   magnetic_operations_in_magnetic_cell.
  s10m  glue of MoyoMagneticDataset::new + dataflow: expected output = what the real pipeline returned for the same input
        (`skip retry n` when it needed tolerance retries: counted, not compared).
Comparison: integers / flags / permutations exact, floats to 1e-9 literally (positions of the primitive magnetic cell and the
`% 1.0` translations of s4m / s10m modulo 1); cases in which a moment comparison is within 4e-9 of `mag_symprec` are tagged
fragile by the model and not compared.
"""
import collections
import os
from fractions import Fraction

import vlib

TOL = Fraction(1, 10 ** 9)
KINDS = ("s8m", "s9m", "s4m", "s10m")
STATS = collections.Counter()


def segs(line):
    d = {}
    parts = line.split(" ; ")
    d["_head"] = parts[0].split()
    for p in parts:
        t = p.split()
        if t:
            d.setdefault(t[0], t[1:])
    return d


def request(kind, req, exp):
    if kind == "s8m" and exp.startswith("ok"):
        e = segs(exp)
        if "linear" in e:
            return req + " ; impllinear " + " ".join(e["linear"])
    return req


def cmp_exact(names, e, o):
    for name in names:
        if e.get(name) != o.get(name):
            return f"{name}: model {' '.join(o.get(name, ['<missing>']))[:100]} vs implementation {' '.join(e.get(name, ['<missing>']))[:100]}"
    return None


def cmp_floats(name, e, o, mod1=False, rel_to_max=False):
    if name not in e or name not in o or len(e[name]) != len(o[name]):
        return f"{name}: length {len(o.get(name, []))} vs {len(e.get(name, []))}"
    x = [vlib.parse_num(t) for t in e[name]]
    y = [vlib.parse_num(t) for t in o[name]]
    scale = max([abs(v) for v in x] + [Fraction(1)]) if rel_to_max else None
    for k, (a, b) in enumerate(zip(x, y)):
        d = a - b
        if mod1:
            d -= round(d)
        s = scale if scale is not None else max(Fraction(1), abs(a), abs(b))
        if abs(d) > TOL * s:
            return f"{name}[{k}]: model {float(b)!r} vs implementation {float(a)!r}"
    return None


def mops_equal(et, ot, mod1):
    """13 tokens per magnetic operation: 9 rotation entries, 3 translation components, time-reversal flag."""
    if len(et) != len(ot) or len(et) % 13 != 0:
        return f"length {len(ot)} vs {len(et)}"
    for k in range(0, len(et), 13):
        if et[k:k + 9] != ot[k:k + 9] or et[k + 12] != ot[k + 12]:
            return f"operation {k // 13}: rotation/time reversal {ot[k:k+9]} {ot[k+12]} vs {et[k:k+9]} {et[k+12]}"
        for a, b in zip(et[k + 9:k + 12], ot[k + 9:k + 12]):
            d = vlib.parse_num(a) - vlib.parse_num(b)
            if mod1:
                d -= round(d)
            if abs(d) > TOL:
                return f"operation {k // 13}: translation {float(vlib.parse_num(b))} vs {float(vlib.parse_num(a))}"
    return None


def head_outcome(kind, e, o, out, stats):
    """Common part: model failure, fragile, outcome kinds. Returns (done, message)."""
    eh, oh = e["_head"], o["_head"]
    if not oh or oh[0] in ("bad-case", "bad-op", "MODEL-CRASH"):
        return True, f"model could not answer: {out[:200]}"
    if oh[0] == "MISMATCH":
        return True, "model rejects an oracle parameter: " + " ".join(oh[1:])
    if o.get("fragile") == ["1"]:
        stats[kind + "_fragile"] += 1
        return True, None
    stats[kind + "_compared"] += 1
    if eh[0] != oh[0]:
        return True, f"outcome: model {' '.join(oh)[:100]} vs implementation {' '.join(eh)[:100]}"
    if eh[0] == "err":
        stats[kind + "_err:" + " ".join(eh[1:2])] += 1
        return True, (None if eh[1:2] == oh[1:2] else f"error kind: model {oh[1:2]} vs implementation {eh[1:2]}")
    if eh[0] == "PANIC":
        stats[kind + "_panic"] += 1
        return True, None
    return False, None


def compare(kind, exp, out, stats, req=None):
    for k in KINDS:
        stats[k + "_compared"] += 0
    stats["s10m_skipped_retry"] += 0
    e, o = segs(exp), segs(out)
    if kind == "s4m":
        stats["s4m_compared"] += 1
        m = cmp_exact(["nout"], e, o)
        return m or mops_equal(e.get("out", []), o.get("out", []), mod1=True)
    if kind == "s8m":
        done, m = head_outcome(kind, e, o, out, stats)
        if done:
            return m
        m = cmp_exact(["pn", "pnum", "linear", "sitemap", "ntrans", "perms"], e, o)
        if m:
            return m
        for name, mod1, rel in (("plat", False, True), ("ppos", True, False), ("pmom", False, False), ("trans", False, False)):
            m = cmp_floats(name, e, o, mod1, rel)
            if m:
                return m
        if req is not None:
            r = segs(req)
            if r.get("s1") == ["ok"] and r.get("ntrans") != e.get("ntrans"):
                stats["s8m_translations_dropped"] += 1
            if int(e["ntrans"][0]) > 1:
                stats["s8m_nonprimitive"] += 1
        return None
    if kind == "s9m":
        done, m = head_outcome(kind, e, o, out, stats)
        if done:
            return m
        m = cmp_exact(["nops", "perms"], e, o)
        if m:
            return m
        m = mops_equal(e.get("mops", []), o.get("mops", []), mod1=False)
        if m:
            return "magnetic operations: " + m
        if req is not None:
            r = segs(req)
            nc, no = int(r.get("ncand", ["0"])[0]), int(e["nops"][0])
            stats["s9m_candidates"] += nc
            stats["s9m_kept"] += no
            if no > nc:
                stats["s9m_grey"] += 1
            if no < nc:
                stats["s9m_candidates_dropped"] += 1
            if any(e["mops"][k + 12] == "1" for k in range(0, len(e["mops"]), 13)):
                stats["s9m_with_time_reversal"] += 1
        return None
    if kind == "s10m":
        if exp.startswith("skip retry"):
            stats["s10m_skipped_retry"] += 1
            return None
        if not out.startswith("out "):
            return f"model could not answer: {out[:200]}"
        stats["s10m_compared"] += 1
        if e.get("out") != o.get("out"):
            return f"outcome: stages+glue model `{out[:120]}` vs real pipeline `{exp[:120]}` (dataflow)"
        if e["out"] != ["ok"]:
            return None
        m = cmp_exact(["uni", "nops", "orbits", "stdn", "stdnum", "primn", "primnum", "mapping"], e, o)
        if m:
            return m
        m = mops_equal(e.get("mops", []), o.get("mops", []), mod1=True)
        if m:
            return "magnetic operations: " + m
        for name in ("stdlat", "stdpos", "stdmom", "stdlinear", "stdshift", "stdrot", "primlat", "primpos", "primmom", "primlinear",
                     "primshift", "osymprec", "omagsymprec"):
            m = cmp_floats(name, e, o)
            if m:
                return m
        if e.get("oangtol", [])[:1] != o.get("oangtol", [])[:1]:
            return f"angle_tolerance: model {o.get('oangtol')} vs implementation {e.get('oangtol')}"
        if req is not None:
            r = segs(req)
            if r.get("s7orbits") != e.get("orbits"):
                return f"orbits: separately called orbits_in_cell {r.get('s7orbits')} vs pipeline {e.get('orbits')}"
        return None
    return f"unknown stage kind {kind}"


def run_stages(kinds, tier, seed, key):
    """Harness `mag-stage-gen` dumps each magnetic stage's inputs/outputs; the Lean stage models answer the same requests.
    Returns (number of stage cases compared, list of (request, message), stats)."""
    cdir = os.path.join(vlib.WORK, "magcache", key)
    os.makedirs(cdir, exist_ok=True)
    cases = os.path.join(cdir, f"magstages_{tier}_{seed}.cases")
    with vlib.Lock(f"magstages_{tier}_{seed}"):
        if not os.path.exists(cases):
            r = vlib.harness(["mag-stage-gen", tier, cases + ".tmp"], seed=seed)
            if r.returncode != 0:
                raise RuntimeError("mag-stage-gen failed: " + r.stderr[-2000:])
            os.replace(cases + ".tmp", cases)
        reqs, exps = vlib.read_cases(cases)
        sel = [i for i, q in enumerate(reqs) if q.split(" ", 1)[0] in kinds]
        ocache = os.path.join(cdir, f"magstageout_{'_'.join(sorted(set(kinds)))}_{tier}_{seed}.out")
        outs = [l.rstrip("\n") for l in open(ocache)] if os.path.exists(ocache) else []
        if len(outs) != len(sel) or any(o.startswith("MODEL-CRASH") for o in outs):
            outs = vlib.run_model([request(reqs[i].split(" ", 1)[0], reqs[i], exps[i]) for i in sel])
            with open(ocache + f".{os.getpid()}.tmp", "w") as f:
                f.write("\n".join(outs) + "\n")
            os.replace(ocache + f".{os.getpid()}.tmp", ocache)
    STATS.clear()
    bad = []
    for i, o in zip(sel, outs):
        m = compare(reqs[i].split(" ", 1)[0], exps[i], o, STATS, req=reqs[i])
        if m:
            bad.append((reqs[i], m))
    return len(sel), bad, dict(STATS)
