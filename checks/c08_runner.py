"""Isolated, parallel evaluation of request lines against the implementation (used by checks/c08.py).

Every worker feeds its share of the requests to `moyo_harness eval <in> <out> <start>` child processes that run
under `ulimit -v` (address space) and are watched from outside: the child appends `i ||| START` before and
`i ||| <answer>` after each request; a request whose answer does not arrive within the deadline is a `HANG` (the child
is killed), a child that dies on a request gives `CRASH(rc=..)` for it (allocation failure under the limit aborts with
SIGABRT, rc=-6).  The worker then restarts after the offending request.  No Python code runs between fork and exec
(the limit is set by the shell), so threads are safe here.
"""
import os
import subprocess
import threading
import time

import vlib


class _Worker(threading.Thread):
    def __init__(self, wid, name, items, deadline, mem_kb, results, lock):
        super().__init__(daemon=True)
        self.wid, self.items, self.deadline, self.mem_kb = wid, items, deadline, mem_kb
        self.results, self.lock = results, lock
        self.inf = os.path.join(vlib.WORK, f"{name}.w{wid}.req")
        self.outf = os.path.join(vlib.WORK, f"{name}.w{wid}.out")
        self.walls = {}

    def run(self):
        items = self.items
        with open(self.inf, "w") as f:
            f.write("\n".join(r for _, r in items) + "\n")
        start = 0
        while start < len(items):
            if os.path.exists(self.outf):
                os.unlink(self.outf)
            cmd = f"ulimit -v {self.mem_kb}; exec {vlib.HARNESS_BIN} eval {self.inf} {self.outf} {start}"
            p = subprocess.Popen(["bash", "-c", cmd], env=vlib.ENV, stdout=subprocess.DEVNULL, stderr=subprocess.DEVNULL)
            pos = 0
            buf = ""
            cur, cur_t0 = None, time.time()
            done_upto = start - 1
            verdict = None
            while True:
                rc = p.poll()
                if os.path.exists(self.outf):
                    with open(self.outf, errors="replace") as f:
                        f.seek(pos)
                        chunk = f.read()
                        pos = f.tell()
                    buf += chunk
                    while "\n" in buf:
                        line, buf = buf.split("\n", 1)
                        if " ||| " not in line:
                            continue
                        i, r = line.split(" ||| ", 1)
                        try:
                            i = int(i)
                        except ValueError:
                            continue
                        if r == "START":
                            cur, cur_t0 = i, time.time()
                        else:
                            self.results[items[i][0]] = r
                            done_upto = max(done_upto, i)
                            if cur == i:
                                cur = None
                                cur_t0 = time.time()
                if rc is not None:
                    if rc != 0 or done_upto < len(items) - 1:
                        verdict = f"CRASH(rc={rc})"
                    break
                if time.time() - cur_t0 > self.deadline:
                    p.kill()
                    p.wait()
                    verdict = "HANG"
                    break
                time.sleep(0.02)
            if verdict is None:
                break
            stuck = cur if cur is not None else done_upto + 1
            if stuck < len(items) and self.results[items[stuck][0]] is None:
                self.results[items[stuck][0]] = verdict
            start = max(stuck, done_upto) + 1
        for f in (self.inf, self.outf):
            try:
                os.unlink(f)
            except OSError:
                pass


def eval_isolated(requests, name, deadline=10.0, mem_gb=4, workers=None):
    """Returns the list of answers (same order).  `HANG`, `CRASH(rc=..)` mark requests that stalled / killed the child."""
    os.makedirs(vlib.WORK, exist_ok=True)
    n = len(requests)
    if n == 0:
        return []
    # 12 rather than 16: a stalled request may hold up to `mem_gb` each
    workers = max(1, min(workers or min(vlib.NCPU, 12), n))
    results = [None] * n
    lock = threading.Lock()
    ws = []
    for w in range(workers):
        items = [(i, requests[i]) for i in range(w, n, workers)]
        t = _Worker(w, name, items, deadline, mem_gb << 20, results, lock)
        t.start()
        ws.append(t)
    for t in ws:
        t.join()
    return [r if r is not None else "NOT-EVALUATED" for r in results]
