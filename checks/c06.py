"""C06 — pipeline property decided by the Lean oracle on generated crystals (see checks/pipe.py)."""
from checks import pipe

PROPS = [("Moyo.Props.C06", "Moyo/Props/C06.lean"), ("Moyo.Props.C06Stages", "Moyo/Props/C06Stages.lean")]


def nontrivial(p, line):
    return bool(p['outcome']=='ok' and pipe.seg(line,'thall')!='1')


def run(tier, seed):
    return pipe.run_property("C06", tier, seed, ['hall', 'noise', 'hallreq', 'lowsym'], PROPS,
                             {"rule": 'every Hall setting in both conventions, noisy twins (<= 5% symprec), and every requested Hall setting; non-trivial when a dataset was returned and the setting is not P1'},
                             nontrivial, stages=["s6", "s7"],
                             trusted=["premise validation of the generator (the generated crystal has exactly the generating group, symmetry gap >= 0.2 A) is a brute-force search in Rust, independent of moyo",
                                      "f64 rounding inside moyo is not modelled: the oracle judges the returned values in exact rational arithmetic",
                                      "the oracle's float code only orders candidate sites; every verdict is an exact test (Proofs/OracleSite.lean)"])


def replay(path):
    return pipe.replay("C06", path)
