"""C06 — pipeline property decided by the Lean oracle on generated crystals (see checks/pipe.py)."""
from checks import pipe

PROPS = [("Moyo.Props.C06", "Moyo/Props/C06.lean"), ("Moyo.Props.C06Stages", "Moyo/Props/C06Stages.lean")]


def nontrivial(p, line):
    return bool(p['outcome']=='ok' and pipe.seg(line,'thall')!='1')


def family(number):
    for hi, f in ((2, "a"), (15, "m"), (74, "o"), (142, "t"), (194, "h"), (230, "c")):
        if number <= hi:
            return f


def bravais_independent(number, symbol):
    """Bravais class from the ITA number (crystal family) and the lattice letter of the Hall symbol only - independent of the
    arithmetic-crystal-class table the implementation (and the Lean oracle's table lookup) reads it from."""
    f = family(number)
    letter = symbol.lstrip("-")[0]
    if number in (146, 148, 155, 160, 161, 166, 167):
        return "hR"   # the seven rhombohedral types: lattice letter R on hexagonal axes, P on rhombohedral axes
    if f == "m":
        letter = "P" if letter == "P" else "C"
    elif f == "o" and letter in "ABC":
        letter = "S"
    return f + letter


def pearson_independent(per_mode):
    """Last clause of C06 with an expectation that does not come from moyo's own class table."""
    import vlib
    from checks.c04 import parse_summary
    fails, todo = [], []
    for mode, (reqs, ans) in per_mode.items():
        for line, a in zip(reqs, ans):
            p = pipe.parse_answer(a)
            if p is None or p["outcome"] != "ok":
                continue
            try:
                S = parse_summary(p["summary"])
            except Exception:
                continue
            todo.append((mode, line, S))
    halls = sorted({S["hall"] for _, _, S in todo})
    entries = dict(zip(halls, vlib.run_model([f"hallentry {h}" for h in halls])))
    for mode, line, S in todo:
        e = entries[S["hall"]].split("|")
        symbol = e[2] if len(e) > 2 else ""
        if not symbol:
            continue
        exp = bravais_independent(S["number"], symbol)
        m = __import__("re").match(r"([a-zA-Z]+)(\d+)$", S["pearson"])
        if not m or m.group(1) != exp:
            fails.append((mode, line, f"C06: Pearson symbol {S['pearson']}: the Bravais class of No. {S['number']} with Hall symbol '{symbol}' is {exp} "
                                      "(crystal family from the ITA number, lattice letter from the Hall symbol)"))
    return fails


def run(tier, seed):
    return pipe.run_property("C06", tier, seed, ['hall', 'noise', 'hallreq', 'lowsym'], PROPS,
                             {"rule": 'every Hall setting in both conventions, noisy twins (<= 5% symprec), and every requested Hall setting; non-trivial when a dataset was returned and the setting is not P1; '
                                      'the Pearson symbol is also compared with a Bravais class derived from the ITA number and the lattice letter of the Hall symbol alone'},
                             nontrivial, stages=["s6", "s7"], extra=pearson_independent,
                             trusted=["premise validation of the generator (the generated crystal has exactly the generating group, symmetry gap >= 0.2 A) is a brute-force search in Rust, independent of moyo",
                                      "f64 rounding inside moyo is not modelled: the oracle judges the returned values in exact rational arithmetic",
                                      "the oracle's float code only orders candidate sites; every verdict is an exact test (Proofs/OracleSite.lean)"])


def replay(path):
    return pipe.replay("C06", path, extra=pearson_independent)
