"""C17 — magnetic space-group tables are mutually consistent.

Same machinery as C16 (see checks/c16.py): regenerated tables + searched certificates, kernel-decided
chunk theorems `Moyo/Tables/MagC*.lean` (one Boolean row checker per UNI number: parse, traverse,
closure, construct type, reference group = Standard setting of `number` up to an origin shift, numbering,
BNS prefix, operation-set code) and `RangeC*.lean` (the 230 UNI ranges of the model of
`ITA_NUMBER_TO_UNI_NUMBERS`), lifted to the statements of `Moyo/Props/C17.lean`; exhaustive
correspondence of the magnetic Hall-symbol parser on all 1651 strings, of both magnetic tables row by
row, and of `uni_number_range` on -2..233; every row re-evaluated natively through the driver
(`c17row`, `c17range`) to name a failing row and clause.
"""
from checks import c16


def run(tier, seed):
    return c16.run_tables("C17", tier, seed)


def replay(path):
    return c16.replay_tables("C17", path)
