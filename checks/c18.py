"""C18 — results are deterministic and independent of threads, process and history.

Three parts (DESIGN §3 C18; evidence level `other`, explained in coverage.explanation):

1. Proof (Moyo/Props/C18.lean): `lookup_only_map_order_free` (a hash map used only through the lookup-only
   interface has observations that do not depend on the iteration order, whatever order an adversary picks
   after every step), its negative twin for `iter().next()`, and `lazy_schedule_free` (k threads racing on a
   `Lazy` with a pure initialiser all read `init ()` under every schedule).
2. Inventory (tools/translate_c18.py -> Moyo/Generated/C18Inventory.lean, regenerated on every run): every
   static / Lazy / thread_local / hash container with every method called on it, every use of RNG, clock,
   environment, thread id, pointer formatting in non-test code.  Table theorems (by `decide`) say that the
   pinned tree stays inside the hypotheses of the theorems of part 1.
3. Exploration (harness c18.rs): serde_json of MoyoDataset / MoyoMagneticDataset compared byte-for-byte
   repeated in-process, after random histories, from 16 threads (first touch of the lazies under contention),
   and across fresh processes (independent RandomState seeds).

Break -> search -> verdict: when an inventory theorem stops holding, the multi-process exploration is run
with a larger budget focused on the inputs that reach the offending function; a difference is a violation
with that input + mode as replay, otherwise `no-failing-input-found` naming the inventory entry.
"""
import json
import os
import re
import shutil
import subprocess
import sys
import time
from concurrent.futures import ThreadPoolExecutor

import vlib
from vlib import log

PROPS = [("Moyo.Props.C18", "Moyo/Props/C18.lean")]
TRANSLATOR = os.path.join(vlib.VERIF, "tools", "translate_c18.py")
INVENTORY_JSON = os.path.join(vlib.WORK, "c18_inventory.json")

# theorem of Props/C18.lean -> what its failure means
INVENTORY_THEOREMS = {
    "Moyo.C18.inventory_hash_lookup_only": "hash",
    "Moyo.C18.inventory_no_escape": "escaped",
    "Moyo.C18.inventory_statics_lazy_pure": "statics",
    "Moyo.C18.inventory_no_ambient": "ambient",
}


# ------------------------------------------------------------------------------------------------
# exploration

def _proc(args, seed, timeout):
    env = dict(vlib.ENV)
    env["VERIF_SEED"] = str(seed)
    try:
        r = subprocess.run([vlib.HARNESS_BIN] + args, capture_output=True, text=True, timeout=timeout, env=env)
        return r.returncode, r.stderr[-2000:]
    except subprocess.TimeoutExpired:
        return -9, "python-side timeout"


def explore(seed, count, focus, nproc, nhist, nthreadruns, nfirst, tag, budget_s):
    """Runs the reference process and all comparison processes.  Returns a dict with `mismatches` (list of
    dicts), `problems` (harness failures), counts and samples."""
    os.makedirs(vlib.WORK, exist_ok=True)
    base = os.path.join(vlib.WORK, f"c18_{tag}")
    for f in os.listdir(vlib.WORK):
        if f.startswith(f"c18_{tag}."):
            try:
                os.unlink(os.path.join(vlib.WORK, f))
            except OSError:
                pass
    ref = base + ".ref"
    res = {"mismatches": [], "problems": [], "evaluations": 0, "inputs": 0, "distinct_nontrivial": 0,
           "processes": 0, "modes": {}, "timeouts_in_reference": 0, "ref": ref}
    t0 = time.time()
    # ---- reference process (resumed after an input that exceeds 20 s: that is C08's business, not C18's)
    start = 0
    for _ in range(50):
        rc, err = _proc(["c18-run", "ref", str(count), focus, ref, base + ".ref.rep", str(start)], seed, budget_s)
        if rc == 3:
            res["timeouts_in_reference"] += 1
            last = -1
            with open(ref) as f:
                for line in f:
                    try:
                        last = max(last, int(line.split("\t", 1)[0]))
                    except ValueError:
                        pass
            start = last + 1
            continue
        if rc != 0:
            res["problems"].append(f"reference process failed rc={rc}: {err}")
            return res
        break
    res["processes"] += 1
    summ = open(base + ".ref.rep").read().strip().split("\t")
    for kv in summ:
        if kv.startswith("inputs="):
            res["inputs"] = int(kv[7:])
        if kv.startswith("distinct_nontrivial="):
            res["distinct_nontrivial"] = int(kv[len("distinct_nontrivial="):])
        if kv.startswith("kinds="):
            res["kinds"] = kv[6:]
        if kv.startswith("outcomes="):
            res["outcomes"] = kv[9:]
    res["evaluations"] += res["inputs"]
    # ---- comparison processes: every one is a fresh process with fresh hash seeds
    jobs = []
    for k in range(nproc):
        jobs.append(("proc", seed + k, 0))
    jobs.append(("repeat", seed, 0))
    for k in range(nhist):
        jobs.append(("history", seed + 1000 + k, 0))
    for k in range(nthreadruns):
        jobs.append(("threads", seed + 2000 + k, 16))
    for k in range(nfirst):
        jobs.append(("firsttouch", seed + 3000 + k, 16))

    def one(job_i):
        i, (mode, s, extra) = job_i
        rep = f"{base}.{mode}{i}.rep"
        rc, err = _proc(["c18-run", mode, str(count), focus, ref, rep, str(extra)], s, budget_s)
        return mode, s, rep, rc, err

    # sequential-mode processes in parallel (4 at a time) — the threaded ones bring their own 16 threads
    seqjobs = [(i, j) for i, j in enumerate(jobs) if j[0] in ("proc", "repeat", "history")]
    thrjobs = [(i, j) for i, j in enumerate(jobs) if j[0] in ("threads", "firsttouch")]
    outs = []
    with ThreadPoolExecutor(4) as ex:
        outs += list(ex.map(one, seqjobs))
    with ThreadPoolExecutor(2) as ex:
        outs += list(ex.map(one, thrjobs))
    for mode, s, rep, rc, err in outs:
        res["processes"] += 1
        m = res["modes"].setdefault(mode, {"processes": 0, "evaluations": 0, "mismatches": 0})
        m["processes"] += 1
        if not os.path.exists(rep):
            res["problems"].append(f"mode {mode} seed {s}: no report (rc={rc}) {err}")
            continue
        for line in open(rep):
            p = line.rstrip("\n").split("\t")
            if p[0] == "SUMMARY":
                d = dict(kv.split("=", 1) for kv in p[1:] if "=" in kv)
                m["evaluations"] += int(d.get("evaluations", 0))
                res["evaluations"] += int(d.get("evaluations", 0))
            elif p[0] == "MISMATCH":
                d = dict(kv.split("=", 1) for kv in p[1:] if "=" in kv and not kv.startswith("len "))
                d["detail"] = [x for x in p[1:] if x.startswith("len ") or x.startswith("pass=") or x.startswith("thread=")]
                d["harness_seed"] = s
                m["mismatches"] += 1
                res["mismatches"].append(d)
            elif p[0] == "TIMEOUT":
                res["problems"].append(f"mode {mode} seed {s}: an input that finished within 20 s in the reference process "
                                       f"did not finish within 300 s here ({line.strip()})")
        if rc not in (0, 4):
            res["problems"].append(f"mode {mode} seed {s}: harness exited rc={rc}: {err}")
    res["wall_s"] = round(time.time() - t0, 2)
    return res


def sample_inputs(ref, n=3):
    out = []
    try:
        lines = open(ref).read().splitlines()
    except OSError:
        return out
    for i in sorted(set([0, 1, len(lines) // 3, len(lines) // 2, len(lines) - 1]))[:n + 2]:
        if 0 <= i < len(lines):
            p = lines[i].split("\t")
            if len(p) == 3:
                out.append({"spec": p[1], "output_bytes": len(p[2]), "output_head": p[2][:160]})
    return out


def violation_from_mismatch(run, mm, params, extra=None):
    spec = mm.get("spec", "?")
    inp = vlib.harness(["c18-input", spec]).stdout.strip()
    content = {
        "property": "C18",
        "what": "the same input produced two different serialisations",
        "mode": mm.get("mode"),
        "spec": spec,
        "detail": mm.get("detail"),
        "harness_seed": mm.get("harness_seed"),
        "exploration": params,
        "input": inp[:200000],
        "replay": "python3 check.py C18 --replay <this file>",
    }
    for k in ("ref_dump", "got_dump"):
        if mm.get(k) and os.path.exists(mm[k]):
            dst = run.replay_path(os.path.basename(mm[k]))
            shutil.copyfile(mm[k], dst)
            content[k] = dst
    if extra:
        content.update(extra)
    key = "output-differs:" + ":".join(spec.split(":")[:2])
    return run.violation("failing_input.json", content, key=key)


# ------------------------------------------------------------------------------------------------
# translator / inventory

def translate(src=None):
    """Run tools/translate_c18.py under the lake lock (it rewrites the generated file only when the content changes)."""
    if not os.path.exists(TRANSLATOR):
        return False, "translator missing", None
    os.makedirs(vlib.WORK, exist_ok=True)
    cmd = [sys.executable, TRANSLATOR, "--json", INVENTORY_JSON]
    if src:
        cmd += ["--src", src]
    with vlib.Lock("lake"):
        r = vlib.sh(cmd, cwd=vlib.VERIF)
    inv = None
    if os.path.exists(INVENTORY_JSON):
        try:
            inv = json.load(open(INVENTORY_JSON))
        except ValueError:
            inv = None
    # rc 3 = generated, but some container escaped (listed in inv['escaped'] / inv['offending'])
    return r.returncode in (0, 3), (r.stdout + r.stderr)[-6000:], inv


def focus_for(entries):
    """Which inputs reach the offending sites: magnetic-only files -> magnetic inputs, otherwise everything."""
    files = {e.get("file", "") for e in entries}
    if files and all("magnetic" in f for f in files):
        return "mag"
    return "all"


# ------------------------------------------------------------------------------------------------

def run(tier, seed):
    run = vlib.Run("C18", tier, seed, "other")
    cov = run.coverage
    thorough = tier == "thorough"
    cov["explanation"] = (
        "Determinism is decided in three layers. (1) Kernel-checked theorems about a model: a hash map whose iteration "
        "order is re-chosen by an adversary after every step is observationally equal, for every program over the "
        "lookup-only interface (insert/get/contains_key/entry().or_insert/len/index), to the abstract map Key -> Option Val "
        "(so hash seeds cannot matter), while iter().next() distinguishes two orders; k threads racing on a once_cell Lazy "
        "with a pure initialiser all read init() under every schedule (at-most-once store is the trusted assumption). "
        "(2) A source inventory regenerated from /repo on every run (every static/Lazy/thread_local/hash container with the "
        "methods called on it; RNG, clock, environment, thread id, pointer formatting) with `decide` theorems saying the tree "
        "stays inside the hypotheses of (1). (3) What no model shows - the real scheduler and the real RandomState seeds - is "
        "explored: serde_json of MoyoDataset/MoyoMagneticDataset compared byte-for-byte in-process, after random histories, "
        "from 16 threads released by one barrier in a process that has not yet initialised the lazies, and across fresh "
        "processes. The real scheduler is not modelled; the tie between Rust's HashMap/once_cell and the model is their "
        "documented contract, not a proof about their code.")
    cov["checker_cmd"] = ("python3 tools/translate_c18.py && cd /verif/lean && lake build Moyo.Props.C18 && #print axioms on every "
                          "theorem (vlib.axiom_audit); moyo_harness c18-run ref|proc|repeat|history|threads|firsttouch")
    cov["trusted_base"] = vlib.TRUSTED_COMMON + [
        "tools/translate_c18.py (lexical inventory of /repo/moyo/src; a hash container passed to a place the script cannot follow is listed as escaped and fails the table theorem)",
        "std::collections::HashMap/HashSet: get/contains_key/insert/entry/len/index return what the abstract map Key -> Option Val returns, whatever the hash seed (their documented contract)",
        "once_cell::sync::Lazy: the initialiser's result is stored at most once and every force returns the stored value",
        "initialisers of the two Lazy tables are pure functions of constants (checked lexically: no ambient input inside the closure)",
        "nalgebra, kiddo, union-find, serde_json, ryu are deterministic functions of their arguments (explored, not proved)",
    ]
    ok, err = vlib.build_harness()
    if not ok:
        run.violation("harness_build.txt", "harness/moyo failed to build with hooks on:\n" + err, no_input=True)
        cov.update({"obligations": 0, "discharged": 0, "evaluations": 0, "distinct_nontrivial": 0})
        return run.finish()

    # ---- (2) + (1): regenerate the inventory, build and audit the theorems
    tok, tout, inv = translate()
    ob = vlib.proof_obligations(PROPS)
    cov["theorems"] = ob["names"]
    failures = list(ob["failures"])
    if not tok:
        failures.append("translator failed: " + tout[-1500:])
    # offending inventory entries, computed by the translator with the same predicate the Lean theorems decide
    offending = (inv or {}).get("offending", [])
    n_entries = 0
    if inv:
        n_entries = (len([e for e in inv["hash"] if e["kind"] in ("HashMap", "HashSet")]) + len(inv["statics"])
                     + len(inv["ambient"]) + len(inv["escaped"]))
        cov["inventory"] = inv.get("summary", {})
        cov["inventory_containers"] = [
            f"{e['kind']} {e['file']}:{e['line']} {e['fn']} `{e['name']}`: " +
            ", ".join(u["method"] + (f"({u['arg']})" if u.get("arg") else "") for u in e["uses"]) for e in inv["hash"]]
    theorems_ok = ob["obligations"] > 0 and ob["discharged"] == ob["obligations"]
    if theorems_ok and offending:
        failures.append("translator predicate and Lean table theorems disagree: the theorems compile but the translator lists "
                        "offending entries")
    cov["obligations"] = ob["obligations"] + n_entries
    cov["discharged"] = ob["discharged"] + (n_entries - len(offending) if theorems_ok else 0)
    proof_broken = bool(failures) or bool(offending)
    cov["proof_failures"] = failures
    cov["inventory_offending"] = offending

    # ---- (3) exploration
    count = 6000 if thorough else 1200
    nproc, nhist, nthr, nfirst = (12, 4, 4, 100) if thorough else (8, 3, 2, 40)
    params = {"seed": seed, "count": count, "focus": "all", "nproc": nproc, "nhist": nhist, "nthreadruns": nthr,
              "nfirst": nfirst}
    ex = explore(seed, count, "all", nproc, nhist, nthr, nfirst, f"{tier}_{seed}", 1500 if thorough else 170)
    cov["evaluations"] = ex["evaluations"]
    cov["distinct_nontrivial"] = ex["distinct_nontrivial"]
    cov["rule"] = (f"{ex['inputs']} inputs: the table digest, the 13 JSON assets (x settings/symprec), crystals generated from Hall "
                   "numbers spread over 1..530 (generic lattice of the family, 1-2 generic orbits, plain / re-based+shifted / "
                   "noisy, settings spglib/standard/hall), magnetic crystals from UNI numbers spread over 1..1651 (collinear and "
                   "non-collinear); each analysed once in a reference process and again in every mode, every comparison "
                   "byte-for-byte on the serde_json string (Err and caught panics are outputs too). evaluations = analyses run; "
                   "distinct_nontrivial = distinct reference outputs that are datasets with at least two operations")
    cov["modes"] = ex["modes"]
    cov["processes"] = ex["processes"]
    cov["input_kinds"] = ex.get("kinds")
    cov["outcomes"] = ex.get("outcomes")
    cov["timeouts_in_reference"] = ex["timeouts_in_reference"]
    cov["samples"] = sample_inputs(ex["ref"])
    cov["exhaustive"] = False
    cov["exploration_wall_s"] = ex.get("wall_s")

    # ---- decide
    if ex["mismatches"]:
        violation_from_mismatch(run, ex["mismatches"][0], params,
                                {"inventory_offending": offending, "proof_failures": failures,
                                 "all_mismatches": ex["mismatches"][:20]})
        return run.finish()
    if ex["problems"]:
        run.violation("harness_run.txt", "exploration could not be completed:\n" + "\n".join(ex["problems"]), no_input=True)
        return run.finish()
    if proof_broken:
        # search with a larger budget, focused on inputs that reach the offending sites
        focus = focus_for(offending) if offending else "all"
        big = {"seed": seed + 77, "count": 20000 if thorough else 3000, "focus": focus, "nproc": 24 if thorough else 12,
               "nhist": 4, "nthreadruns": 4, "nfirst": 40}
        ex2 = explore(big["seed"], big["count"], focus, big["nproc"], big["nhist"], big["nthreadruns"], big["nfirst"],
                      f"{tier}_{seed}_search", 1500 if thorough else 400)
        cov["search"] = {"params": big, "evaluations": ex2["evaluations"], "inputs": ex2["inputs"], "modes": ex2["modes"],
                         "mismatches": len(ex2["mismatches"])}
        cov["evaluations"] += ex2["evaluations"]
        if ex2["mismatches"]:
            violation_from_mismatch(run, ex2["mismatches"][0], big,
                                    {"inventory_offending": offending, "all_mismatches": ex2["mismatches"][:20]})
            return run.finish()
        lines = ["C18 proof obligations that no longer check; no input with two different outputs was found "
                 f"({ex['evaluations']} + {ex2['evaluations']} analyses compared byte-for-byte, focus={focus})."]
        if offending:
            lines.append("inventory entries outside the hypotheses of lookup_only_map_order_free / lazy_schedule_free:")
            for e in offending:
                lines.append("  " + json.dumps(e))
        if failures:
            lines.append("failing obligations (Moyo/Props/C18.lean, Moyo/Generated/C18Inventory.lean):")
            lines += ["  " + f for f in failures]
        key = None
        if offending and not [f for f in failures if "lake build failed" not in f]:
            e = offending[0]
            key = f"inventory:{e.get('file')}:{e.get('fn')}:{e.get('name')}:{e.get('why')}"
        run.violation("unchecked.txt", "\n".join(lines), key=key, no_input=True)
    return run.finish()


def replay(path):
    txt = open(path).read()
    okb, err = vlib.build_harness()
    if not okb:
        print("harness build failed", err)
        return 2
    try:
        d = json.loads(txt)
    except ValueError:
        d = None
    if not d or "exploration" not in d:
        # an unchecked-obligation replay: re-run the obligations
        tok, tout, inv = translate()
        ob = vlib.proof_obligations(PROPS)
        print("translator ok:", tok)
        print("obligations:", ob["obligations"], "discharged:", ob["discharged"])
        for f in ob["failures"]:
            print("failure:", f)
        for e in (inv or {}).get("offending", []):
            print("offending inventory entry:", json.dumps(e))
        bad = bool(ob["failures"]) or bool((inv or {}).get("offending")) or not tok
        if bad:
            print(f"VIOLATION property=C18 replay={path} no-failing-input-found")
        return 1 if bad else 0
    p = d["exploration"]
    ex = explore(p["seed"], p["count"], p["focus"], p["nproc"], p["nhist"], p["nthreadruns"], p["nfirst"], "replay", 1500)
    print(f"inputs={ex['inputs']} evaluations={ex['evaluations']} mismatches={len(ex['mismatches'])}")
    same = [m for m in ex["mismatches"] if m.get("spec") == d.get("spec")]
    for m in (same or ex["mismatches"])[:5]:
        print("mismatch:", json.dumps(m)[:1000])
    if not ex["mismatches"]:
        # the recorded input alone, in many fresh processes
        outs = set()
        for k in range(40):
            r = vlib.harness(["c18-one", d["spec"], "2"], seed=k)
            outs.add(r.stdout)
        print(f"spec {d['spec']}: {len(outs)} distinct outputs over 40 fresh processes")
        if len(outs) > 1:
            print(f"VIOLATION property=C18 replay={path}")
            return 1
        return 0
    print(f"VIOLATION property=C18 replay={path}")
    return 1
