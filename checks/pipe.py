"""Shared driver for the pipeline properties (C01, C02, C03, C05, C06, C07, C09, C10).

Generated crystals (harness `pipe-gen <mode>`) go through `MoyoDataset::new`; every returned dataset is
dumped with exact floats together with the generator's ground truth and judged by the Lean oracles
(`ds` command of moyo_model, Moyo/Model/Oracle.lean), in exact rational arithmetic.  A failed clause
tagged with the property id is a violation; the case line is the replay.
"""
import collections
import hashlib
import json
import os
import re
import time
from fractions import Fraction

import vlib
from vlib import log

MODES_INFO = {
    "hall": "every one of the 530 Hall settings: own conventional cell and a re-described cell (random unimodular re-basing with entries up to 6, origin shift; optionally rigid rotation, atom permutation, added lattice vectors), Spglib and Standard conventions alternating, symprec in {1e-5..1e-2}, both angle-tolerance modes",
    "super": "supercells: random HNFs of index 2..4 (quick) / 2..6 (thorough) and of index 5..12, plus the skew family [[1,0,0],[1,1,0],[0,2,k]], of crystals from random Hall settings, optionally re-based/shifted/rotated",
    "noise": "(half of the crystals carry a third species on a special position) undistorted crystals (every fourth as a supercell of index 2..4) and noisy twins (atoms displaced uniformly in a ball of radius 5% symprec, symmetric lattice strain of the same relative size) at the same symprec",
    "pseudo": "pseudo-symmetric crystals: a crystal scaled to axes >= 8..12 A whose one axis is stretched by between 4.5 x (axis / shortest axis) and 0.9 x axis length times symprec, fractional coordinates kept (operations moving that axis map atoms onto atoms exactly but change lengths by more than the tolerance); the reported group is an unknown subgroup, only truth-independent clauses (C01) are judged",
    "hallreq": "Setting::HallNumber(h) for every h in 1..=530 on a crystal generated in that setting (own and re-described cell), on a crystal of another type, and for out-of-range Hall numbers",
    "lowsym": "many cheap low-symmetry cases: Hall 1/2 (triclinic) and monoclinic settings, half with an extra species on a special position, strongly re-based + shifted (+ supercells of index 2..5)",
    "adjust": "inputs on which the first attempt fails (noise 0.3..4 x symprec, oversized symprec), with the tolerance-handler trace recorded by the verif hook",
    "meta": "metamorphic pairs: a base crystal and a random word of 1-5 re-descriptions of it (re-basing, origin shift, rigid rotation, permutation, added lattice vectors, scaling with symprec, supercell, mirror image); distorted pairs (atoms displaced by 0.25-0.45 symprec, premise validated by a brute-force residual profile) with reordered atoms; face-scan pairs (origin placed so that an atom lies just inside / outside a cell face)",
    "wyckoff": "crystals with atoms placed on tabulated Wyckoff positions (every position of every Hall setting over the tiers) plus a general-position species, own and re-described cells; settings Spglib/Standard alternating and, for a slice, Setting::HallNumber(generating Hall number); plus positions with a free parameter close to a special value (orbit atoms clustering at 10 symprec .. 1.8 sqrt(symprec))",
}


def tree_key():
    """Content hash of everything the oracle outputs depend on."""
    h = hashlib.sha1()
    roots = [os.path.join(vlib.REPO, "moyo/src"), os.path.join(vlib.REPO, "moyo/Cargo.toml"), os.path.join(vlib.HARNESS, "src"), os.path.join(vlib.HARNESS, "Cargo.toml"),
             os.path.join(vlib.LEAN, "Moyo", "Model"), os.path.join(vlib.LEAN, "Moyo", "Generated"), os.path.join(vlib.LEAN, "Main.lean")]
    for r in roots:
        if os.path.isfile(r):
            files = [r]
        else:
            files = []
            for d, _, fs in os.walk(r):
                for f in fs:
                    files.append(os.path.join(d, f))
        for f in sorted(files):
            h.update(f.encode())
            with open(f, "rb") as fh:
                h.update(fh.read())
    return h.hexdigest()[:16]


def run_mode(mode, tier, seed, key):
    """Returns (requests, answers, cache_hit)."""
    cdir = os.path.join(vlib.WORK, "pipecache", key)
    os.makedirs(cdir, exist_ok=True)
    cases = os.path.join(cdir, f"{mode}_{tier}_{seed}.cases")
    outs = os.path.join(cdir, f"{mode}_{tier}_{seed}.out")
    with vlib.Lock(f"pipe_{mode}_{tier}_{seed}"):
        if os.path.exists(outs) and os.path.exists(cases):
            reqs = [l.rstrip("\n") for l in open(cases)]
            ans = [l.rstrip("\n") for l in open(outs)]
            if len(reqs) == len(ans):
                return reqs, ans, True
        t = time.time()
        r = vlib.harness(["pipe-gen", mode, tier, cases], seed=seed)
        if r.returncode != 0:
            raise RuntimeError(f"pipe-gen {mode} failed: {r.stderr[-2000:]}")
        reqs = [l.rstrip("\n") for l in open(cases)]
        ans = vlib.run_model(reqs)
        os.makedirs(cdir, exist_ok=True)
        with open(outs + ".tmp", "w") as f:
            f.write("\n".join(ans) + "\n")
        os.replace(outs + ".tmp", outs)
        log(f"[pipe] mode {mode}: {len(reqs)} cases in {time.time()-t:.1f}s")
        # keep the cache small: drop entries of other tree keys that have not been touched for two hours
        root = os.path.join(vlib.WORK, "pipecache")
        now = time.time()
        for k in os.listdir(root):
            d = os.path.join(root, k)
            try:
                if k != key and now - os.path.getmtime(d) > 7200:
                    for f in os.listdir(d):
                        os.unlink(os.path.join(d, f))
                    os.rmdir(d)
            except OSError:
                pass
        return reqs, ans, False


STAGE_EXTRA_GEN = {"s6": "s6-gen", "s7": "s6-gen", "s9": "s6-gen"}   # stage kind -> additional harness generator for that stage
STAGE_STATS = collections.Counter()   # filled by the stage comparisons (fragile / branch / hypothesis counts)


def stage_request(kind, req, exp):
    """Request line sent to the model: the stage inputs, plus oracle parameters from the implementation's output for S6."""
    if kind == "s6":
        from checks import stages_s6
        return stages_s6.request(kind, req, exp)
    return req


def stage_compare(kind, exp, out):
    """Compare implementation output `exp` with model answer `out` for a stage line; None if they agree."""
    if kind in ("s6", "s7"):
        from checks import stages_s6
        return stages_s6.compare(kind, exp, out, STAGE_STATS)
    if kind == "s9":
        from checks import stages_s9
        return stages_s9.compare(kind, exp, out, STAGE_STATS)
    if kind in ("s1", "s2", "s3"):
        from checks import s13
        return s13.compare(kind, exp, out, STAGE_STATS)
    if exp == out:
        return None
    et, ot = exp.split(), out.split()
    if kind == "s4":
        if et[:2] != ot[:2]:
            return f"count {ot[:2]} vs {et[:2]}"
        return vlib.ops_equal(et[4:], ot[4:])
    if kind == "s5":
        return s5_compare(exp, out)
    return f"model {out[:120]} vs implementation {exp[:120]}"


def translate_s5():
    """Regenerate Moyo/Generated/S5Table.lean (correction matrices of identify/space_group.rs).  If the translator cannot
    parse the source any more, the generated file is replaced by one that does not elaborate, so that the stage-S5
    theorems are reported as obligations that no longer check (never silently stale)."""
    import subprocess
    import sys
    if os.environ.get("VERIF_REPO"):
        return
    tr = os.path.join(vlib.VERIF, "tools", "translate_s5.py")
    with vlib.Lock("lake"):
        r = subprocess.run([sys.executable, tr], capture_output=True, text=True, cwd=vlib.VERIF)
        if r.returncode != 0:
            out = os.path.join(vlib.LEAN, "Moyo", "Generated", "S5Table.lean")
            msg = (r.stdout + r.stderr)[-1500:].replace("-/", "- /")
            with open(out, "w") as f:
                f.write("-- GENERATED by checks/pipe.py: tools/translate_s5.py FAILED on the current tree\n/-\n" + msg +
                        "\n-/\nexample : False := by decide\n")


def s5_compare(exp, out):
    """Stage S5 (SpaceGroup::new): verdict, number, Hall number and `linear` exactly, origin shift to 1e-9 modulo 1.
    The model appends `; fragile 0|1` (a compared quantity within 1e-9 of epsilon): fragile cases are not compared."""
    m = re.match(r"(.*) ; fragile ([01])(?: ; row ([01]))?$", out)
    if not m:
        return f"model answer unparsed: {out[:160]}"
    body, fragile = m.group(1), m.group(2) == "1"
    if m.group(3) is not None:
        # exhaustive table row (theorem identify_tables, decided here by the compiled model on every run)
        S5_ROWS.append(m.group(3))
        if m.group(3) == "0":
            return f"table row: the model's answer {body[:80]} is not the tabulated number / convention Hall number"
    if fragile:
        S5_FRAGILE.append(exp[:80])
        return None
    if exp == body:
        return None
    et, bt = exp.split(" ; "), body.split(" ; ")
    if et[0] != "ok" or bt[0] != "ok":
        return f"model {body[:160]} vs implementation {exp[:160]}"
    if et[1:4] != bt[1:4]:
        return f"model {' ; '.join(bt[1:4])} vs implementation {' ; '.join(et[1:4])}"
    es, bs = et[4].split()[1:], bt[4].split()[1:]
    for a, b in zip(es, bs):
        d = vlib.parse_num(a) - vlib.parse_num(b)
        d -= round(d)
        if abs(d) > Fraction(1, 10**9):
            return f"origin shift model {[float(vlib.parse_num(x)) for x in bs]} vs implementation {[float(vlib.parse_num(x)) for x in es]}"
    return None


S5_FRAGILE = []
S5_ROWS = []


def run_stages(kinds, tier, seed, key):
    """Stage correspondence: harness `stage-gen` dumps each stage's inputs/outputs, the Lean stage models answer
    the same requests.  Returns (number of stage cases compared, list of (request, message))."""
    cdir = os.path.join(vlib.WORK, "pipecache", key)
    os.makedirs(cdir, exist_ok=True)
    cases = os.path.join(cdir, f"stages_{tier}_{seed}.cases")
    with vlib.Lock(f"stages_{tier}_{seed}"):
        if not os.path.exists(cases):
            r = vlib.harness(["stage-gen", tier, cases], seed=seed)
            if r.returncode != 0:
                raise RuntimeError("stage-gen failed: " + r.stderr[-2000:])
    reqs, exps = vlib.read_cases(cases)
    if "s5" in kinds:
        # stage S5 also gets the exhaustive table run of harness/src/s5.rs: all 530 settings x {Spglib, Standard, HallNumber(h)}
        # on the tabulated primitive operations, plus neighbouring / out-of-range requests, noisy and re-based operations
        tcases = os.path.join(cdir, f"s5table_{tier}_{seed}.cases")
        with vlib.Lock(f"s5table_{tier}_{seed}"):
            if not os.path.exists(tcases):
                r = vlib.harness(["s5-table", tier, tcases + ".tmp"], seed=seed)
                if r.returncode != 0:
                    raise RuntimeError("s5-table failed: " + r.stderr[-2000:])
                os.replace(tcases + ".tmp", tcases)
        r2, e2 = vlib.read_cases(tcases)
        reqs, exps, kinds = reqs + r2, exps + e2, list(kinds) + ["s5pg"]
        del S5_FRAGILE[:]
        del S5_ROWS[:]
    # additional, stage-specific dumps (same line format), e.g. `s6-gen`: special Wyckoff positions, triclinic, monoclinic
    for gen in sorted({STAGE_EXTRA_GEN[k] for k in kinds if k in STAGE_EXTRA_GEN}):
        extra = os.path.join(cdir, f"{gen}_{tier}_{seed}.cases")
        with vlib.Lock(f"{gen}_{tier}_{seed}"):
            if not os.path.exists(extra):
                r = vlib.harness([gen, tier, extra + ".tmp"], seed=seed)
                if r.returncode != 0:
                    raise RuntimeError(gen + " failed: " + r.stderr[-2000:])
                os.replace(extra + ".tmp", extra)
        q2, e2 = vlib.read_cases(extra)
        keep = [i for i, q in enumerate(q2) if STAGE_EXTRA_GEN.get(q.split(" ", 1)[0]) == gen]
        reqs, exps = reqs + [q2[i] for i in keep], exps + [e2[i] for i in keep]
    sel = [i for i, q in enumerate(reqs) if q.split(" ", 1)[0] in kinds]
    # model answers are cached per tree key (C05 and C06 share the s6/s7 lines)
    ocache = os.path.join(cdir, f"stageout_{'_'.join(sorted(set(kinds)))}_{tier}_{seed}.out")
    outs = [l.rstrip("\n") for l in open(ocache)] if os.path.exists(ocache) else []
    if len(outs) != len(sel) or any(o.startswith("MODEL-CRASH") for o in outs):
        outs = vlib.run_model([stage_request(reqs[i].split(" ", 1)[0], reqs[i], exps[i]) for i in sel])
        with open(ocache + f".{os.getpid()}.tmp", "w") as f:
            f.write("\n".join(outs) + "\n")
        os.replace(ocache + f".{os.getpid()}.tmp", ocache)
    bad = []
    for i, o in zip(sel, outs):
        m = stage_compare(reqs[i].split(" ", 1)[0], exps[i], o)
        if m:
            bad.append((reqs[i], m))
    return len(sel), bad


def parse_answer(a):
    parts = a.split(" | ")
    if len(parts) < 4:
        return None
    fails = [f for f in parts[3].split(" || ") if f.strip()]
    return {"tag": parts[0], "outcome": parts[1], "summary": parts[2], "fails": fails}


def seg(line, key):
    m = re.search(r"(?:^| ; )" + re.escape(key) + r" ([^;]*?)(?= ; |$)", line)
    return m.group(1).strip() if m else None


def short_case(line):
    """Abbreviated, human-readable sample of a case line."""
    return {"tag": line.split(" ")[1], "atoms": seg(line, "n"), "symprec": str(float(vlib.parse_num(seg(line, "symprec")))),
            "angtol": seg(line, "angtol").split(" ")[0], "setting": seg(line, "setting"), "hall": seg(line, "thall"),
            "P": seg(line, "tP"), "steps": seg(line, "tsteps"), "out": seg(line, "out"),
            "number": seg(line, "number"), "hallnum": seg(line, "hallnum"), "nops": seg(line, "nops")}


def run_property(pid, tier, seed, modes, props, level_text_keys, nontrivial, extra=None, trusted=None, level="proof", stages=None):
    """Generic run: `modes` list of mode names; `props` list of (module, relpath); `nontrivial(parsed, line)`
    -> bool; `extra(run, per_mode)` may add clause failures computed across cases (twins)."""
    run = vlib.Run(pid, tier, seed, level)
    cov = run.coverage
    ok, err = vlib.build_harness()
    if not ok:
        run.violation("harness_build.txt", "harness/moyo failed to build with hooks on:\n" + err, no_input=True)
        cov.update({"obligations": 0, "discharged": 0, "checker_cmd": "lake build", "trusted_base": [], "explanation": "harness build failed"})
        return run.finish()
    okt, terr = vlib.translate()
    ob = vlib.proof_obligations(props)
    okm, out = vlib.lake_build(["moyo_model"])
    if not okt:
        ob["failures"].append("translator failed: " + terr[-1500:])
    if not okm:
        ob["failures"].append("moyo_model failed to build: " + out[-1500:])
    cov["obligations"] = ob["obligations"]
    cov["discharged"] = ob["discharged"]
    cov["theorems"] = ob["names"]
    cov["checker_cmd"] = "cd /verif/lean && lake build " + " ".join(m for m, _ in props) + " ; #print axioms on every theorem (vlib.axiom_audit)"
    cov["trusted_base"] = vlib.TRUSTED_COMMON + (trusted or [])
    key = tree_key()
    per_mode = {}
    failing = []
    total = 0
    distinct = set()
    nontriv = 0
    outcomes = {}
    samples = []
    halls = set()
    cache_hits = 0
    for mode in modes:
        try:
            reqs, ans, hit = run_mode(mode, tier, seed, key)
        except RuntimeError as e:
            run.violation(f"gen_{mode}.txt", str(e), no_input=True)
            continue
        cache_hits += 1 if hit else 0
        per_mode[mode] = (reqs, ans)
        for line, a in zip(reqs, ans):
            total += 1
            p = parse_answer(a)
            if p is None:
                failing.append((mode, line, f"oracle could not judge the case: {a[:200]}"))
                continue
            outcomes[p["outcome"]] = outcomes.get(p["outcome"], 0) + 1
            h = seg(line, "thall")
            halls.add(h)
            sig = hashlib.sha1(line.split(" ; out ")[0].encode()).hexdigest()
            if sig not in distinct:
                distinct.add(sig)
                if nontrivial(p, line):
                    nontriv += 1
            mine = [f for f in p["fails"] if f.startswith(pid + ":") or f.startswith("C08:")]
            if mine:
                failing.append((mode, line, " || ".join(mine)))
        if reqs:
            samples.append(short_case(reqs[len(reqs) // 3]))
    if extra:
        failing += extra(per_mode)
    stage_bad = []
    if stages:
        try:
            nst, stage_bad = run_stages(stages, tier, seed, key)
            cov["stage_cases_compared"] = nst
            cov["stage_model_impl_disagreements"] = len(stage_bad)
            cov["stages"] = stages
            if "s5" in stages:
                cov["s5_fragile_excluded"] = len(S5_FRAGILE)
                cov["s5_table_rows_checked"] = len(S5_ROWS)
            if STAGE_STATS:
                cov["stage_stats"] = dict(STAGE_STATS)
        except RuntimeError as e:
            stage_bad = [("stage-gen", str(e))]
    cov["evaluations"] = total
    cov["distinct_nontrivial"] = nontriv
    cov["samples"] = samples
    cov["modes"] = {m: MODES_INFO[m] for m in modes}
    cov["outcomes"] = outcomes
    cov["hall_settings_hit"] = len(halls)
    cov["oracle_cache_hits"] = cache_hits
    cov["tree_key"] = key
    cov["exhaustive"] = False
    for k, v in level_text_keys.items():
        cov[k] = v
    if failing:
        mode, line, why = failing[0]
        tag = line.split(" ")[1]
        run.violation("failing_input.json", {
            "property": pid, "mode": mode, "tier": tier, "seed": seed, "tag": tag, "failed_clauses": why,
            "how_to_replay": f"python3 check.py {pid} --replay <this file>  (regenerates the case with the same seed against the current tree and re-runs the Lean oracle)",
            "others": [{"mode": m, "tag": l.split(' ')[1], "clauses": w} for m, l, w in failing[1:30]],
            "case": line})
    elif ob["failures"] or stage_bad:
        txt = ""
        if ob["failures"]:
            txt += "proof obligations that no longer check:\n" + "\n".join("  " + f for f in ob["failures"]) + "\n"
        if stage_bad:
            txt += f"stage correspondence (model vs implementation) broken on {len(stage_bad)} stage cases; first:\n"
            for q, m in stage_bad[:5]:
                txt += f"  {q[:300]}\n    -> {m}\n"
        txt += f"the Lean oracles hold on all {total} explored datasets (modes {modes}, seed {seed})"
        run.violation("unchecked.txt", txt, no_input=True)
    return run.finish()


def replay(pid, path, extra=None):
    """`extra(per_mode)`: the check's own additional clauses (same function as given to run_property), re-evaluated on the
    regenerated case."""
    d = json.load(open(path))
    ok, err = vlib.build_harness()
    vlib.lake_build(["moyo_model"])
    r = vlib.harness(["pipe-one", d["mode"], d["tier"], d["tag"]], seed=d["seed"])
    line = r.stdout.strip()
    if not line:
        print("could not regenerate the case; using the recorded case line")
        line = d["case"]
    a = vlib.run_model([line])[0]
    print("oracle:", a[:2000])
    p = parse_answer(a)
    mine = [f for f in (p["fails"] if p else ["unparsed"]) if f.startswith(pid + ":") or f.startswith("C08:")]
    if extra and p:
        for _, _, why in extra({d["mode"]: ([line], [a])}):
            print("check clause:", why[:500])
            mine.append(why)
    if mine:
        print(f"VIOLATION property={pid} replay={path}")
        return 1
    print("no violation on the current tree")
    return 0
