"""Comparison of the stage lines S1 (`PrimitiveCell::new`), S2 (`search_bravais_group`) and S3
(`PrimitiveSymmetrySearch::new`) with the answers of the Lean stage models (lean/Moyo/Model/StageSearch*.lean,
DriverS13.lean).  Used by checks/pipe.py `stage_compare`; `STATS` collects what was seen (fragile cases, error
variants, BFS depth, hypothesis (H-c)) for the evidence file.

Integers and permutations are compared exactly; translations and positions to 1e-10 modulo 1; the primitive
lattice to 1e-10 relative to its largest entry.  A case the model marks `frag 1` (a computed length within the f64
uncertainty of its threshold) is counted and not compared.
"""
from fractions import Fraction

import vlib

import collections

STATS = collections.Counter()   # default sink; checks/pipe.py passes its own STAGE_STATS
_sink = STATS


def _stat(kind, key, inc=1):
    _sink[f"{kind} {key}"] += inc


def _statmax(kind, key, val):
    k = f"{kind} {key}"
    _sink[k] = max(_sink.get(k, 0), val)


def stats():
    return dict(sorted(_sink.items()))


def segs(line):
    """`a ; k1 v.. ; k2 v..` -> (head tokens, {k: [v..]})"""
    parts = [p.split() for p in line.split(" ; ")]
    head = parts[0] if parts else []
    d = {}
    for p in parts[1:]:
        if p:
            d[p[0]] = p[1:]
    return head, d


def _nums_close(a, b, tol, mod1, what):
    if len(a) != len(b):
        return f"{what}: {len(b)} numbers vs {len(a)}"
    for i, (x, y) in enumerate(zip(a, b)):
        if x == y:
            continue
        d = vlib.parse_num(x) - vlib.parse_num(y)
        if mod1:
            d = d - round(d)
        if abs(d) > tol:
            return f"{what}[{i}]: model {float(vlib.parse_num(y))} vs implementation {float(vlib.parse_num(x))}"
    return None


def _status(kind, eh, oh):
    """Compare the outcome kind; returns (message or None, both_ok)."""
    if not oh or oh[0] not in ("ok", "err"):
        return f"model could not answer: {' '.join(oh)[:100]}", False
    e = "PANIC" if eh[0] == "PANIC" else " ".join(eh[:2]) if eh[0] == "err" else "ok"
    o = "PANIC" if oh[:2] == ["err", "PANIC"] else " ".join(oh[:2]) if oh[0] == "err" else "ok"
    _stat(kind, "outcome " + e)
    if e != o:
        return f"outcome: model {' '.join(oh[:3])} vs implementation {' '.join(eh[:3])}", False
    return None, e == "ok"


def _flags(kind, od):
    """frag / enum / accm flags of the model answer; returns 'fragile', a message, or None."""
    if od.get("frag") == ["1"]:
        _stat(kind, "fragile")
        return "fragile"
    if od.get("enum") == ["0"]:
        return "the recorded proposals are not a subsequence of the model's enumeration (pivot destinations x rotations)"
    if od.get("accm") == ["0"]:
        return "accept/reject flags of the candidates differ between model and implementation"
    if od.get("bravm") == ["0"]:
        return "dataflow S2 -> S3: the recorded Bravais rotation list is not what the S2 model computes for this lattice"
    return None


def compare(kind, exp, out, stats=None):
    """None if implementation answer `exp` and model answer `out` agree (or the case is fragile), else a message.
    `stats`: a Counter that receives what was seen (keys `<kind> <what>`)."""
    global _sink
    if stats is not None:
        _sink = stats
    eh, ed = segs(exp)
    oh, od = segs(out)
    _stat(kind, "cases")
    if out.startswith("bad-case") or out.startswith("bad-op") or out.startswith("MODEL-CRASH"):
        return f"model could not answer: {out[:100]}"
    f = _flags(kind, od)
    if f == "fragile":
        return None
    if f:
        return f
    msg, both_ok = _status(kind, eh, oh)
    if msg:
        return msg
    if kind == "s2":
        if both_ok and (ed.get("nrot") != od.get("nrot") or ed.get("rots") != od.get("rots")):
            return f"rotation list: model {od.get('nrot')} rotations vs implementation {ed.get('nrot')} (or different order)"
        if both_ok:
            _stat(kind, "order " + ed["nrot"][0])
        return None
    if kind == "s3":
        _stat(kind, "hc " + "".join(od.get("hc", ["?"])))
        if not both_ok:
            return None
        if ed.get("nops") != od.get("nops"):
            return f"nops: model {od.get('nops')} vs implementation {ed.get('nops')}"
        m = vlib.ops_equal(ed.get("ops", []), od.get("ops", []))
        if m:
            return m
        if ed.get("perms") != od.get("perms"):
            return "permutations differ"
        depth = max(int(x) for x in od.get("depth", ["0"]))
        _statmax(kind, "max_depth", depth)
        if depth > 1:
            _stat(kind, "depth>1")
        _stat(kind, "order " + ed["nops"][0])
        return None
    if kind == "s1":
        if not both_ok:
            return None
        for k in ("linear", "sitemap", "pn", "pnum", "ntrans", "perms"):
            if ed.get(k) != od.get(k):
                return f"{k}: model {' '.join(od.get(k, []))[:80]} vs implementation {' '.join(ed.get(k, []))[:80]}"
        tol = Fraction(1, 10 ** 10)
        m = _nums_close(ed.get("trans", []), od.get("trans", []), tol, True, "translations")
        m = m or _nums_close(ed.get("ppos", []), od.get("ppos", []), tol, True, "primitive positions")
        scale = max([abs(vlib.parse_num(x)) for x in ed.get("plat", [])] + [Fraction(0)])
        m = m or _nums_close(ed.get("plat", []), od.get("plat", []), tol * max(scale, Fraction(1, 10 ** 6)), False, "primitive lattice")
        if m:
            return m
        _stat(kind, "index " + ed["ntrans"][0])
        return None
    return f"unknown stage {kind}"
