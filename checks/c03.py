"""C03 — pipeline property decided by the Lean oracle on generated crystals (see checks/pipe.py)."""
from checks import pipe

PROPS = [("Moyo.Props.C03", "Moyo/Props/C03.lean"), ("Moyo.Props.C03Stages", "Moyo/Props/C03Stages.lean")]


def nontrivial(p, line):
    return bool(pipe.seg(line,'thall')!='1' and pipe.seg(line,'tsteps')!='none')


def run(tier, seed):
    pipe.translate_s5()
    return pipe.run_property("C03", tier, seed, ['hall', 'super', 'lowsym'], PROPS,
                             {"rule": 'every Hall setting x {own, re-described} x {Spglib, Standard} alternating, plus supercells; non-trivial when the setting is not P1 and the cell is re-described; an Err on these premise-satisfying inputs counts as a violation'},
                             nontrivial, stages=["s5"],
                             trusted=["premise validation of the generator (the generated crystal has exactly the generating group, symmetry gap >= 0.2 A) is a brute-force search in Rust, independent of moyo",
                                      "f64 rounding inside moyo is not modelled: the oracle judges the returned values in exact rational arithmetic",
                                      "the oracle's float code only orders candidate sites; every verdict is an exact test (Proofs/OracleSite.lean)"])


def replay(path):
    return pipe.replay("C03", path)
