"""C12 — magnetic space-group type correct for all 1651 types, however described: decided by the Lean oracle
`MagOracle.checkC12` on generated magnetic crystals (see checks/magpipe.py).  An `Err` on a
premise-satisfying input is a violation (an answer is required)."""
from checks import magpipe

PROPS = [("Moyo.Props.C12", "Moyo/Props/C12.lean"), ("Moyo.Props.C12Stages", "Moyo/Props/C12Stages.lean")]

TRUSTED = [
    "premise validation of the generator (the magnetic symmetry group of the generated structure is exactly the generating group: position gap 0.2 A, moment gap 0.05) is a brute-force search over (R,t,theta) in Rust, independent of moyo's search code",
    "the expected UNI number is the generating one; for all-zero moments it is the unique construct-type-2 entry (kernel-decided table theorem grey_unique) whose ITA number is the family-group number, read from the first component of the OG number of the generating entry in the regenerated table",
    "f64 rounding inside moyo is not modelled; only the returned integer uni_number is judged",
]


def nontrivial(p, line):
    # an answer for a type beyond the trivial group, in a re-described cell
    return bool(p["outcome"] == "ok" and magpipe.seg(line, "tuni") not in ("1", "2") and magpipe.seg(line, "tsteps") != "none" and magpipe.seg(line, "tvariant") != "cant")


def run(tier, seed):
    return magpipe.run_property(
        "C12", tier, seed, PROPS,
        "G-mag cases (see plan): every selected UNI number in its own cell and in re-described cells incl. reversal of all moments and all-zero moments; non-trivial when an answer was returned for a UNI number > 2 in a re-described cell; distinct = distinct input magnetic cells + parameters",
        nontrivial, trusted=TRUSTED, stages=["s5m"])


def replay(path):
    return magpipe.replay("C12", path)
