"""C14 — lattice reductions return an equivalent, properly reduced basis.

Proof: Moyo/Props/C14.lean — for every trace of the step grammar of each algorithm (i.e. whatever the
f64 comparisons decide) the transformation matrix is unimodular, det = +1 after the parity fix,
reduced = basis*T; Gauss 2-D minimality; 3-D Minkowski minima; soundness of the oracle's enumeration bounds;
and the kernel-checked negative theorem about the pinned Delaunay selection.
Tie to the code: the exact-rational Lean model (Moyo/Model/Reduce.lean) recomputes the decisions and must
reproduce the implementation's T exactly on every non-fragile case (all integer-valued bases are non-fragile).
Oracles (Moyo/Model/ReduceSpec.lean), run on the implementation's own outputs for every basis:
det T = +1, reduced = basis*T, exact/complete shortest-vector decision, Niggli conditions,
equality of Niggli metric tensors of re-based lattices, near-idempotence.
"""
import collections
import os
import vlib
from vlib import log

PROPS = [("Moyo.Props.C14", "Moyo/Props/C14.lean")]
ALGS = ("mink", "nig", "del")

# branch codes of `niggliBranch` (Moyo/Model/Reduce.lean): every branch of every Niggli step that fires or sits on a tie
NIGGLI_BRANCHES = {
    11: "step1 A>B", 12: "step1 A=B, |xi|>|eta| (fires)", 13: "step1 A=B, |xi|<=|eta|",
    21: "step2 B>C", 22: "step2 B=C, |eta|>|zeta| (fires)", 23: "step2 B=C, |eta|<=|zeta|",
    31: "step3 type-I sign normalisation",
    40: "step4 all negative (early return)", 41: "step4 sign normalisation", 42: "step4 repair via xi=0",
    43: "step4 repair via eta=0", 44: "step4 repair via zeta=0",
    51: "step5 |xi|>B", 52: "step5 xi=B, 2eta<zeta (fires)", 53: "step5 xi=B, 2eta>=zeta",
    54: "step5 xi=-B, zeta<0 (fires)", 55: "step5 xi=-B, zeta>=0",
    61: "step6 |eta|>A", 62: "step6 eta=A, 2xi<zeta (fires)", 63: "step6 eta=A, 2xi>=zeta",
    64: "step6 eta=-A, zeta<0 (fires)", 65: "step6 eta=-A, zeta>=0",
    71: "step7 |zeta|>A", 72: "step7 zeta=A, 2xi<eta (fires)", 73: "step7 zeta=A, 2xi>=eta",
    74: "step7 zeta=-A, eta<0 (fires)", 75: "step7 zeta=-A, eta>=0",
    81: "step8 xi+eta+zeta+A+B<0", 82: "step8 sum=0, 2(A+eta)+zeta>0 (fires)", 83: "step8 sum=0, 2(A+eta)+zeta<=0",
}


def split3(line_exp):
    """expected field is `expected ||| tag`."""
    if " ||| " in line_exp:
        e, t = line_exp.rsplit(" ||| ", 1)
        return e.strip(), t.strip()
    return line_exp.strip(), ""


def max_gram(req_fields):
    """largest |G_ij| of a row-major basis given as exact tokens."""
    v = [float(vlib.parse_num(t)) for t in req_fields]
    cols = [(v[k], v[3 + k], v[6 + k]) for k in range(3)]
    return max(abs(sum(x * y for x, y in zip(cols[i], cols[j]))) for i in range(3) for j in range(3))


DELAUNAY_DEFECT_ITEMS = ("det-T=0", "det-T=2", "det-T=-2", "degenerate", "idempotence-lengths")


def finding_key(req, verdict):
    """Stable key of a failing oracle verdict (None = not a recognised known-finding class)."""
    p = req.split(" ")
    cmd = p[0]
    items = [x.strip() for x in verdict[len("fails:"):].split(",")] if verdict.startswith("fails:") else [verdict]
    if cmd in ("c14-check", "c14-idem") and p[1] == "del":
        # exactly what the pinned Delaunay selection breaks: det T in {0, +-2}, hence a degenerate output whose
        # lengths are not lattice invariants; any other item (e.g. reduced-ne-basis-T) is a different violation
        if items and all(it in DELAUNAY_DEFECT_ITEMS for it in items):
            return "delaunay-det"
        return None
    if cmd == "c14-pair":
        a = req[len("c14-pair "):].split(" ; ")[2].split(" ")
        # |G| so large that the f64 rounding of G (>= 1e-16*|G|*growth) is not below the absolute EPS = 1e-8
        return "niggli-unique-elongated" if max_gram(a) > 1e6 else None
    return None


def refusal_verdict(alg, e, o):
    """C14 says each reduction *returns* T and the reduced basis for every non-degenerate basis.  `Lattice::{minkowski,niggli}_reduce`
    answering Err on a basis that the exact model reduces without any decision within rounding distance of a threshold
    (not fragile, fuel not exhausted) is therefore a failing input (the raw function's output was rejected by the
    implementation's own is_*_reduced test, or the loop gave up).  Returns the verdict text or None."""
    if alg not in ("mink", "nig") or "|" not in e:
        return None
    t_impl, api = [x.strip() for x in e.split("|")][:2]
    f = [x.strip() for x in o.split("|")]
    if not api.startswith("Err") or len(f) < 5 or f[1] != "0" or f[2] == "1":
        return None
    return (f"fails:api-refuses-nondegenerate-basis {api}; T of the raw function = {t_impl}; the exact model reduces this basis "
            f"with T = {f[0]} (no decision within rounding distance of a threshold)")


def evaluate(reqs, exps, outs):
    """Compare model answers with the implementation's; returns a dict of statistics and lists."""
    st = collections.Counter()
    tags = collections.Counter()
    t_mismatch, pred_mismatch, failing, panics = [], [], [], []
    del_mismatch = {"pinned": [], "guarded": []}
    # per branch: requests whose model run takes it [all, with T compared exactly, the latter on a lattice without symmetry]
    branches = {c: [0, 0, 0] for c in NIGGLI_BRANCHES}
    nontrivial = set()
    samples = []
    for i, (q, e0, o) in enumerate(zip(reqs, exps, outs)):
        e, tag = split3(e0)
        p = q.split(" ")
        cmd = p[0]
        if cmd == "c14":
            alg = p[1]
            if alg == "mink":
                base = tag.split("+")[0]
                if base.startswith("nigbr-"):
                    base = "-".join(base.split("-")[:2])
                tags[base + ("+U" if "+U" in tag else "")] += 1
            if e.startswith("PANIC") or "API-DIFFERS" in e:
                panics.append((q, e))
                continue
            t_impl, api = [x.strip() for x in e.split("|")]
            st[f"{alg}:{api.split('(')[0]}"] += 1
            f = [x.strip() for x in o.split("|")]
            if len(f) != {"del": 7, "nig": 6}.get(alg, 5):
                t_mismatch.append((q, e, o))
                continue
            t_model, bad, frag, nsteps, exact = f[:5]
            stream = "int" if exact == "1" else "float"
            if t_impl != "1 0 0 0 1 0 0 0 1":
                nontrivial.add(" ".join(p[2:]))
            if alg == "nig" and f[5]:
                compared = bad == "0" and frag != "1"
                for item in f[5].split(","):
                    c = int(item.split(":")[0])
                    if c in branches:
                        branches[c][0] += 1
                        if compared:
                            branches[c][1] += 1
                            if tag.startswith("nigbr-asym"):
                                branches[c][2] += 1
            if bad != "0":
                st[f"{alg}:{stream}:model-gave-up({bad})"] += 1
            elif alg == "del":
                # two modelled variants of the final selection: pinned ("three shortest") and repaired (guarded)
                for name, tm, fr in (("pinned", t_model, frag), ("guarded", f[5], f[6])):
                    if fr == "1":
                        st[f"del-{name}:{stream}:fragile"] += 1
                    else:
                        st[f"del-{name}:{stream}:compared"] += 1
                        if tm != t_impl:
                            del_mismatch[name].append((q, e, o))
            elif frag == "1":
                st[f"{alg}:{stream}:fragile"] += 1
            else:
                st[f"{alg}:{stream}:compared"] += 1
                if t_model != t_impl:
                    t_mismatch.append((q, e, o))
                v = refusal_verdict(alg, e, o)
                if v:
                    failing.append((q, v, tag))
            if len(samples) < 3 and i % 997 == 0:
                samples.append(f"{q} => impl {e} ; model {o}")
        elif cmd == "c14-isred":
            if e.startswith("PANIC"):
                panics.append((q, e))
            elif o == "?":
                st[f"isred-{p[1]}:fragile"] += 1
            else:
                st[f"isred-{p[1]}:compared"] += 1
                if o != e:
                    pred_mismatch.append((q, e, o))
        else:
            st[f"oracle-{cmd[4:]}{'-' + p[1] if cmd != 'c14-pair' else ''}"] += 1
            if o != "holds":
                failing.append((q, o, tag))
    # the implementation must be one of the two modelled Delaunay variants on *every* compared case
    variant = "pinned" if len(del_mismatch["pinned"]) <= len(del_mismatch["guarded"]) else "guarded"
    t_mismatch += del_mismatch[variant]
    other = "guarded" if variant == "pinned" else "pinned"
    for k in list(st):
        if k.startswith(f"del-{other}:"):
            del st[k]
    return {"st": st, "tags": tags, "t_mismatch": t_mismatch, "delaunay_variant": variant, "branches": branches, "pred_mismatch": pred_mismatch,
            "failing": failing, "panics": panics, "nontrivial": len(nontrivial), "samples": samples}


def gen_and_run(tier, seed, name, okm):
    cases = os.path.join(vlib.WORK, f"c14_{name}_{seed}.cases")
    r = vlib.harness(["c14-gen", tier, cases], seed=seed)
    if r.returncode != 0:
        return None, "c14-gen failed:\n" + r.stderr[-3000:]
    reqs, exps = vlib.read_cases(cases)
    outs = vlib.run_model(reqs) if okm else ["MODEL-UNAVAILABLE"] * len(reqs)
    return (reqs, exps, outs, r.stdout.strip()), ""


def corpus_failing():
    """Committed witnesses of the listed known findings (corpus/c14_known.txt: one recorded request per line) are re-evaluated
    from their inputs with the current implementation on every run, so that a listed finding is reported (or seen to be gone)
    whatever the seed generates."""
    path = os.path.join(vlib.VERIF, "corpus", "c14_known.txt")
    out = []
    if not os.path.exists(path):
        return out
    for q in [l.strip() for l in open(path) if l.strip()]:
        rr = vlib.harness(["c14-replay"] + q.split(" "))
        for l in rr.stdout.strip().splitlines():
            if l.startswith("c14"):
                v = vlib.run_model([l])[0]
                if v != "holds":
                    out.append((l, v, "corpus"))
    return out


def report_failing(run, failing, panics):
    """Oracle verdict `false` on an implementation output = failing input."""
    by_key = collections.OrderedDict()
    for q, v, tag in failing:
        by_key.setdefault(finding_key(q, v), []).append((q, v, tag))
    for key, items in by_key.items():
        q, v, tag = items[0]
        content = (f"request: {q}\nverdict: {v}\ngenerator: {tag}\n"
                   f"(oracle of Moyo/Model/ReduceSpec.lean on the implementation's own output; "
                   f"replay: python3 check.py C14 --replay <this file>)\n"
                   f"failing cases of this class: {len(items)}\n" +
                   "\n".join(f"also: {a} | {b} | {c}" for a, b, c in items[1:40]))
        run.violation(f"failing_{key or 'input'}.txt", content, key=key)
        if key:
            with open(os.path.join(vlib.WORK, f"c14_witness_{key}.txt"), "w") as f:   # development aid: witness of a known-finding class
                f.write(content)
    if panics:
        q, e = panics[0]
        run.violation("failing_panic.txt", f"request: {q}\nimplementation: {e}\nall ({len(panics)}):\n" +
                      "\n".join(f"also: {a} | {b}" for a, b in panics[1:40]))


def run(tier, seed):
    run = vlib.Run("C14", tier, seed, "proof")
    cov = run.coverage
    ok, err = vlib.build_harness()
    cov.update({"obligations": 0, "discharged": 0,
                "checker_cmd": "cd /verif/lean && lake build Moyo.Props.C14 && #print axioms on every theorem (vlib.axiom_audit)",
                "trusted_base": []})
    if not ok:
        run.violation("harness_build.txt", "harness/moyo failed to build with hooks on:\n" + err, no_input=True)
        return run.finish()
    ob = vlib.proof_obligations(PROPS)
    okm, out = vlib.lake_build(["moyo_model"])
    cov["obligations"] = ob["obligations"]
    cov["discharged"] = ob["discharged"]
    cov["theorems"] = ob["names"]
    cov["trusted_base"] = vlib.TRUSTED_COMMON + [
        "f64 rounding inside the reductions is not modelled: the model decides over exact rationals and marks a case fragile "
        "when a quantity is within the estimated rounding uncertainty of a threshold (1e-12*magnitude; integer-valued input: exact, "
        "both roundings of a half-integral Gram-Schmidt coefficient are tried); fragile cases are excluded from the T comparison only",
        "i32 entries of T are modelled by unbounded Int",
        "termination of the three loops is not proved (model fuel; exhaustion is reported and excluded)",
        "sqrt enclosures use Nat.sqrt (core), width 1e-30",
        "oracle tolerances: reduced = basis*T to 1e-12*magnitude; lengths 100*EPS; Niggli metric 1e-6 relative (pairs), 10*EPS+1e-9*max|G| (conditions on real-valued outputs, idempotence); "
        "integer-valued Niggli outputs are tested against the Niggli conditions proper (niggliSpecK, incl. every tie clause) exactly",
    ]
    proof_broken = bool(ob["failures"]) or not okm
    if not okm:
        ob["failures"].append("moyo_model failed to build: " + out[-2000:])

    res, err = gen_and_run(tier, seed, tier, okm)
    if res is None:
        run.violation("harness_run.txt", err, no_input=True)
        return run.finish()
    reqs, exps, outs, info = res
    ev = evaluate(reqs, exps, outs)
    nb = int(info.split()[-1]) if info.startswith("bases") else 0
    cov["evaluations"] = nb
    cov["requests"] = len(reqs)
    cov["distinct_nontrivial"] = ev["nontrivial"]
    cov["rule"] = ("bases: random integer (|entries| <= 127) and real; all 14 Bravais types, integer-valued (exact ties) and real-valued "
                   "(half of them rigidly rotated); the same elongated 10..1000x; three unimodular re-basings of each (entries of U up to 2, 4, 6). "
                   "Per basis: the three reductions (raw function and Lattice API), model T comparison, oracle on the outputs, "
                   "is_*_reduced predicate comparison, re-reduction, Niggli metric of base vs re-based. A basis counts as non-trivial "
                   "when distinct and at least one reduction returned T != identity")
    cov["distribution"] = dict(ev["tags"])
    cov["stats"] = dict(ev["st"])
    cov["fragile"] = sum(v for k, v in ev["st"].items() if k.endswith(":fragile"))
    cov["samples"] = ev["samples"]
    cov["niggli_branch_coverage"] = {
        f"{c} {NIGGLI_BRANCHES[c]}": {"runs": v[0], "runs_T_compared": v[1], "runs_T_compared_asymmetric_lattice": v[2]}
        for c, v in sorted(ev["branches"].items())}
    never = [f"{c} {NIGGLI_BRANCHES[c]}" for c, v in sorted(ev["branches"].items()) if v[1] == 0]
    # ties whose secondary condition is an *equality* (zeta = 0 resp. eta = 0 in a type-II cell with |xi| = B, |eta| = A,
    # |zeta| = A) force a lattice symmetry (b -> -b, c -> c + b fixes the metric), so no asymmetric witness exists
    inherent = (55, 65, 75)
    cov["niggli_branches_inherently_symmetric"] = [f"{c} {NIGGLI_BRANCHES[c]}" for c in inherent]
    never_asym = [f"{c} {NIGGLI_BRANCHES[c]}" for c, v in sorted(ev["branches"].items())
                  if v[1] > 0 and v[2] == 0 and c not in inherent]
    cov["niggli_branches_never_taken"] = never
    cov["niggli_branches_only_on_symmetric_lattices"] = never_asym
    if never:
        run.assumptions.append("WARNING: Niggli branches never exercised with exact T comparison: " + "; ".join(never))
        print("WARNING property=C14 coverage: Niggli branches never taken (generator weakness, not a violation): " + "; ".join(never))
    if never_asym:
        print("WARNING property=C14 coverage: Niggli branches taken only on lattices with a symmetry: " + "; ".join(never_asym))
    cov["delaunay_variant_matched"] = ev["delaunay_variant"]
    cov["model_impl_T_disagreements"] = len(ev["t_mismatch"])
    cov["model_impl_predicate_disagreements"] = len(ev["pred_mismatch"])
    cov["oracle_failures"] = len(ev["failing"])

    failing, panics = list(ev["failing"]), list(ev["panics"])
    corr_broken = bool(ev["t_mismatch"] or ev["pred_mismatch"])
    if (corr_broken or proof_broken) and okm:
        # break -> search: every basis already went through the oracle; triple the exploration with fresh seeds
        for k in range(1, 4 if tier == "quick" else 2):
            r2, _ = gen_and_run(tier, seed + 7919 * k, f"{tier}_search{k}", okm)
            if r2 is None:
                continue
            ev2 = evaluate(*r2[:3])
            failing += ev2["failing"]
            panics += ev2["panics"]
            cov["evaluations"] += int(r2[3].split()[-1]) if r2[3].startswith("bases") else 0
    if okm:
        cf = corpus_failing()
        cov["corpus_witnesses_failing"] = len(cf)
        failing += cf
    report_failing(run, failing, panics)
    unkeyed = [f for f in failing if finding_key(f[0], f[1]) is None] or panics
    if (corr_broken or proof_broken) and not unkeyed:
        lines = []
        if ob["failures"]:
            lines.append("proof obligations that no longer check (Moyo/Props/C14.lean):")
            lines += ["  " + f for f in ob["failures"]]
        if ev["t_mismatch"]:
            lines.append(f"model/implementation correspondence broken: T differs on {len(ev['t_mismatch'])} non-fragile cases; first:")
            for q, e, o in ev["t_mismatch"][:10]:
                lines.append(f"  request: {q}\n    impl : {e}\n    model: {o}")
        if ev["pred_mismatch"]:
            lines.append(f"is_*_reduced predicate differs on {len(ev['pred_mismatch'])} non-fragile cases; first:")
            for q, e, o in ev["pred_mismatch"][:10]:
                lines.append(f"  request: {q}\n    impl : {e}\n    model: {o}")
        lines.append("the C14 oracles found no failing input outside the listed known-finding classes on "
                     f"{cov['evaluations']} bases (exploration tripled)")
        run.violation("unchecked.txt", "\n".join(lines), no_input=True)
    return run.finish()


def replay(path):
    """Re-evaluate every recorded request from its inputs with the current implementation, then the oracle."""
    txt = open(path).read()
    vlib.build_harness()
    vlib.lake_build(["moyo_model"])
    rc = 0
    for line in txt.splitlines():
        if not line.startswith("request: "):
            continue
        q = line[len("request: "):].strip()
        print("request:", q)
        rr = vlib.harness(["c14-replay"] + q.split(" "))
        for l in rr.stdout.strip().splitlines():
            if l.startswith("impl "):
                print("implementation:", l[5:])
                if "PANIC" in l or "API-DIFFERS" in l:
                    rc = 1
            elif l.startswith("c14"):
                v = vlib.run_model([l])[0]
                print("oracle:", v)
                if v != "holds":
                    rc = 1
        if q.startswith("c14 "):
            mo = vlib.run_model([q])[0]
            print("model:", mo)
            for l in rr.stdout.strip().splitlines():
                if l.startswith("impl "):
                    v = refusal_verdict(q.split(" ")[1], l[5:], mo)
                    if v:
                        print("oracle:", v)
                        rc = 1
    if rc:
        print(f"VIOLATION property=C14 replay={path}")
    return rc
