"""C10 — pipeline property decided by the Lean oracle on generated crystals (see checks/pipe.py)."""
from checks import pipe

PROPS = [("Moyo.Props.C10", "Moyo/Props/C10.lean"), ("Moyo.Props.C03Stages", "Moyo/Props/C03Stages.lean")]


def nontrivial(p, line):
    return bool(pipe.seg(line,'thall')!='1')


def std_cell_of_requested_setting(per_mode):
    """C10, first sentence, last clause: for an honoured request the tabulated operations of h map std_cell onto itself.  The
    verified oracle evaluates this under the tag of C06 (it is the same Lean clause); for `Setting::HallNumber` requests it
    counts for C10 as well."""
    fails = []
    for mode, (reqs, ans) in per_mode.items():
        for line, a in zip(reqs, ans):
            if not (pipe.seg(line, "setting") or "").startswith("hall"):
                continue
            p = pipe.parse_answer(a)
            if p is None or p["outcome"] != "ok":
                continue
            bad = [f for f in p["fails"] if f.startswith("C06: tabulated operation") or f.startswith("C06: Hall number")]
            if bad:
                fails.append((mode, line, "C10: the std_cell returned for the requested setting is not mapped onto itself by the tabulated operations of that Hall number: " + bad[0]))
    return fails


def run(tier, seed):
    pipe.translate_s5()
    return pipe.run_property("C10", tier, seed, ['hallreq'], PROPS,
                             {"rule": 'Setting::HallNumber(h) for all 530 h on a crystal generated in that setting (own cell; re-described for every third h in quick, all in thorough), on a crystal of a neighbouring other type (mostly same arithmetic class), and out-of-range numbers {0,-5,531,i32::MAX,i32::MIN}; non-trivial = matching request on a non-P1 setting or a non-matching request'},
                             nontrivial, stages=["s5"], extra=std_cell_of_requested_setting,
                             trusted=["premise validation of the generator (the generated crystal has exactly the generating group, symmetry gap >= 0.2 A) is a brute-force search in Rust, independent of moyo",
                                      "f64 rounding inside moyo is not modelled: the oracle judges the returned values in exact rational arithmetic",
                                      "the oracle's float code only orders candidate sites; every verdict is an exact test (Proofs/OracleSite.lean)"])


def replay(path):
    return pipe.replay("C10", path, extra=std_cell_of_requested_setting)
