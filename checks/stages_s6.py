"""Stage correspondence for S6 (`StandardizedCell::new`) and S7 (`orbits_in_cell`): request decoration and comparison.

The Lean stage model (Moyo/Model/StageStd*.lean, driver command `s6`) is exact; two pieces of the implementation are
float-only and enter the model as *oracle parameters* taken from the implementation's own output of the same line:
  rot          `rotation_matrix` of `symmetrize_lattice` (Cholesky + QR); the model checks Q^T Q = I, det Q > 0 and the
               upper-triangularity of Q A_std and rotates its exact lattices by it before the comparison;
  impltlinear  `transformation.linear`, used only in the monoclinic branch to recover which of the (mathematically tied)
               least-skewness candidates `min_by` returned; the model checks that it is an admissible candidate of least
               skewness (1e-9) and reports MISMATCH otherwise.
"""
from fractions import Fraction

import vlib

TOL = Fraction(1, 10 ** 9)


def segs(line):
    d = {}
    parts = line.split(" ; ")
    d["_head"] = parts[0].split()
    for p in parts[1:]:
        t = p.split()
        if t:
            d[t[0]] = t[1:]
    return d


def request(kind, req, exp):
    """Append the oracle parameters of an `s6` line."""
    if kind != "s6" or not exp.startswith("ok"):
        return req
    e = segs(exp)
    if "rot" not in e or "tlinear" not in e:
        return req
    return req + " ; rot " + " ".join(e["rot"]) + " ; impltlinear " + " ".join(e["tlinear"])


def nums(tokens):
    return [vlib.parse_num(t) for t in tokens]


def cmp_exact(name, e, o):
    if e.get(name) != o.get(name):
        return f"{name}: model {' '.join(o.get(name, ['<missing>']))[:100]} vs implementation {' '.join(e.get(name, ['<missing>']))[:100]}"
    return None


def cmp_vec(name, e, o, mod1, rel_to_max=False):
    if name not in e or name not in o or len(e[name]) != len(o[name]):
        return f"{name}: length {len(o.get(name, []))} vs {len(e.get(name, []))}"
    x, y = nums(e[name]), nums(o[name])
    scale = max([abs(v) for v in x] + [Fraction(1)]) if rel_to_max else Fraction(1)
    for k, (a, b) in enumerate(zip(x, y)):
        d = a - b
        if mod1:
            d -= round(d)
        if abs(d) > TOL * scale:
            return f"{name}[{k}]: model {float(b)!r} vs implementation {float(a)!r}"
    return None


def compare(kind, exp, out, stats):
    if kind == "s7":
        stats["s7_compared"] += 1
        return None if exp == out else f"orbits: model {out[:120]} vs implementation {exp[:120]}"
    e, o = segs(exp), segs(out)
    eh, oh = e["_head"], o["_head"]
    if not oh or oh[0] in ("bad-case", "bad-op", "MODEL-CRASH"):
        return f"model could not answer: {out[:200]}"
    if oh[0] == "MISMATCH":
        return "model rejects an oracle parameter: " + " ".join(oh[1:])
    frag = [f for f in o.get("fragile", ["-"])[0].split(",") if f != "-"]
    if frag:
        stats["s6_fragile"] += 1
        for f in frag:
            stats["s6_fragile:" + f] += 1
        return None
    stats["s6_compared"] += 1
    if eh[0] != oh[0]:
        return f"outcome: model {' '.join(oh)[:100]} vs implementation {' '.join(eh)[:100]}"
    if eh[0] == "err":
        stats["s6_err"] += 1
        return None if eh[1:2] == oh[1:2] else f"error kind: model {oh[1:2]} vs implementation {eh[1:2]}"
    if eh[0] == "PANIC":
        stats["s6_panic"] += 1
        return None
    branch = o.get("branch", ["?"])[0]
    stats["s6_branch:" + branch] += 1
    for name in ("primn", "primnum", "stdn", "stdnum", "ptlinear", "tlinear", "sitemap", "wyck"):
        m = cmp_exact(name, e, o)
        if m:
            return m
    for name, mod1, rel in (("ushift", False, False), ("tshift", False, False), ("primpos", True, False), ("stdpos", True, False),
                            ("primlat", False, True), ("stdlat", False, True)):
        m = cmp_vec(name, e, o, mod1, rel)
        if m:
            return m
    orth, detq, lowtri, mdev = nums(o["rotchk"])
    if orth > TOL:
        return f"rotation_matrix: |Q^T Q - I| = {float(orth):.3e}"
    if detq <= 0:
        return f"rotation_matrix: det Q = {float(detq):.3e}"
    if mdev <= Fraction(1, 10 ** 12):
        stats["s6_metric_invariant"] += 1
        if lowtri > Fraction(1, 10 ** 8):
            return f"rotation_matrix: Q A_std has a below-diagonal entry of relative size {float(lowtri):.3e} for an exactly symmetric metric"
    if branch == "mono":
        nc, nn, used, first = o["mono"]
        stats["s6_mono_near_singleton"] += 1 if nn == "1" else 0
        stats["s6_mono_impl_is_first_near_min"] += 1 if first == "1" else 0
    hc, hs, inv = o["hyp"]
    stats["s6_hyp_compat"] += hc == "1"
    stats["s6_hyp_small"] += hs == "1"
    stats["s6_hyp_both"] += hc == "1" and hs == "1"
    stats["s6_exact_invariant"] += inv == "1"
    if hc == "1" and hs == "1" and inv != "1":
        return "model: hypotheses of reynolds_positions hold but the symmetrised positions are not exactly invariant"
    return None
