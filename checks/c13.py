"""C13 — magnetic standardized cells are faithful and in the tabulated BNS setting: decided by the Lean oracle
`MagOracle.checkC13` on generated magnetic crystals (see checks/magpipe.py).

Failures are keyed by the defect site whose signature the oracle's diagnostic line establishes
(`C13[diag]: rot= centred= shift= shiftdropped=`), so that the three defects of
`StandardizedMagneticCell::new` listed in known_findings.txt print KNOWN-FINDING while any failure
outside their signatures is a VIOLATION:
  origin-shift-dropped   position clauses fail (or, when the dropped shift happens to be the anti-translation of a type-IV group,
                         only moment clauses), and with the origin shift replaced by zero every input atom lands on a
                         std_mag_cell site and every site is reached (Transformation::transform_magnetic_cell ignores it)
  moments-rotated        moment clauses fail and std_rotation_matrix is not the identity (moments rotated into the
                         standardized frame, Cartesian rotations taken in the input frame)
  moments-centred        moment clauses fail and std_mag_cell is a multiple cell (primitive moments read through the
                         conventional cell's site map)
A moment failure with neither trigger, a position failure without the dropped-shift signature, and every other
clause (rotation matrix, lattice relations, atom count, primitive positions/mapping) have no key.
"""
import re

from checks import magpipe

PROPS = [("Moyo.Props.C13", "Moyo/Props/C13.lean"), ("Moyo.Props.C13Stages", "Moyo/Props/C13Stages.lean")]

POS = {"C13[std-pos]", "C13[std-onto-pos]", "C13[sym-rep-pos]", "C13[sym-ref]", "C13[sym-tab-pos]"}
MOM = {"C13[std-mom]", "C13[std-onto-mom]", "C13[prim-mom]", "C13[sym-rep-mom]", "C13[sym-tab-mom]"}

TRUSTED = [
    "premise validation of the generator (the magnetic symmetry group of the generated structure is exactly the generating group: position gap 0.2 A, moment gap 0.05) is a brute-force search over (R,t,theta) in Rust, independent of moyo's search code",
    "f64 rounding inside moyo is not modelled: the oracle judges the returned cells, transformation, rotation matrix and tolerances in exact rational arithmetic",
    "the oracle's float code only orders candidate sites; every verdict is an exact test (Proofs/OracleSite.lean, Proofs/MagSite.lean)",
    "tabulated operations are read from the regenerated Hall / magnetic Hall tables through the Lean parser model (Model/Hall.lean), tied to the Rust parser by the exhaustive correspondences of C16/C17",
    "'exactly symmetric' is judged at 1e-8 A for positions and 1e-8 for moments",
]


def classify(line, p, mine):
    codes = {magpipe.clause_code(f) for f in mine}
    diag = next((f for f in mine if f.startswith("C13[diag]")), None)
    codes.discard("C13[diag]")
    if diag is None or not codes:
        return None
    flags = dict(re.findall(r"(\w+)=(\d)", diag))
    pos, mom, other = codes & POS, codes & MOM, codes - POS - MOM
    if other:
        return None
    comps = []
    dropped = flags.get("shiftdropped") == "1"
    if pos and not dropped:
        return None
    # with the shift dropped the cell is displaced by L^-1 s; when that vector is a translation of the family group
    # (the anti-translation of a type-IV group) the positions still coincide and only the moment clauses fail
    if pos or (mom and dropped):
        comps.append("origin-shift-dropped")
    if mom:
        # collinear (scalar) moments do not depend on the frame: only the site map can explain them
        collinear = magpipe.seg(line, "kind") == "collinear"
        trig = [name for name, f in (("rotated", "rot"), ("centred", "centred"))
                if flags.get(f) == "1" and not (collinear and f == "rot")]
        if trig:
            comps.append("moments-" + "+".join(trig))
        elif not dropped:
            return None
    return ":".join(comps)


def nontrivial(p, line):
    return bool(p["outcome"] == "ok" and magpipe.seg(line, "tsteps") != "none" and magpipe.seg(line, "tvariant") != "cant")


def run(tier, seed):
    return magpipe.run_property(
        "C13", tier, seed, PROPS,
        "G-mag cases (see plan): own conventional cells (centred and primitive), re-based/shifted/rotated/permuted cells, supercells, reversed and zero moments, both actions and both moment kinds; non-trivial when a dataset was returned for a re-described input; distinct = distinct input magnetic cells + parameters",
        nontrivial, classify=classify, trusted=TRUSTED, stages=["s6m"])


def replay(path):
    return magpipe.replay("C13", path, classify=classify)
