"""C19 — cells and datasets round-trip through their serialized form.

Level: translation validation of the derived encoders against a proved-invertible schema model.

  T3   tools/translate_c19.py regenerates Moyo/Generated/C19Schema.lean from the Rust sources
       (every struct/enum reachable from Cell, MagneticCell<M>, MoyoDataset, MoyoMagneticDataset<M>
       and the Python wrapper classes: field names, order, types, derives, serde attributes).
  [F]  Moyo/Props/C19.lean: decode (encode v) = some v for every schema and well-typed value,
       injectivity, column-major layout is inverted exactly, the decoder accepts exactly the
       schema's fields;  [T] schema_symmetric / schema_covers_roots over the regenerated table.
  [X]  harness c19.rs: for every explored value x: s = to_string(x), y = from_str(s), x and y compared
       leaf by leaf through a hand-written dump (never through serde); the Lean driver parses s,
       decodes it against the regenerated schema, re-encodes it to the same text and compares the
       decoded value with the dump (matrices entry by entry, floats exactly to 1e-15);
       pycheck/c19_py.py: serialize_json / deserialize_json / as_dict / from_dict of the Python
       classes against the same s, with the extension built from the current tree.
  The translator is validated on every run: the field lists it extracted must be the keys of the
  JSON the running code emits (Python walker below, and the strict Lean decoder).

When an obligation breaks (translator refuses the source, schema_symmetric fails, ...) that is not
yet a violation: the round trip is run on three times the inputs to exhibit a concrete value that is
lost or changed; found → replay with that input, else `no-failing-input-found`.
"""
import json
import os
import shutil
import subprocess
import sys
import sysconfig
import threading
import time

import vlib
from vlib import log

PROPS = [("Moyo.Props.C19", "Moyo/Props/C19.lean")]
TRANSLATOR = os.path.join(vlib.VERIF, "tools", "translate_c19.py")
PYCHECK = os.path.join(vlib.VERIF, "pycheck", "c19_py.py")
PYMOD = os.path.join(os.path.dirname(vlib.WORK) if os.environ.get("VERIF_REPO") else vlib.CACHE, "pymod")
TARGET_PY = os.path.join(os.path.dirname(vlib.WORK) if os.environ.get("VERIF_REPO") else vlib.CACHE, "target-py")

TRUSTED = vlib.TRUSTED_COMMON + [
    "tools/translate_c19.py (Rust declarations -> schema); validated on every run: its field lists must equal the keys of the "
    "JSON the running code emits for every explored value, and the strict Lean decoder must accept that JSON",
    "A-float: which f64 a decimal token denotes and which token an f64 is printed as (ryu, serde_json number parser, CPython "
    "float()) is not modelled; assumed law: parse(print(x)) is within 1e-15 relative of x. In the model a float is its token. "
    "Observed on every explored value: exact value of the printed token vs exact value of the f64 (Lean, rationals), and x vs "
    "from_str(to_string(x)) (Rust)",
    "P-finite: premise of the exploration: every float of a value is finite. serde_json writes NaN / +-inf as `null`, which the derived "
    "Deserialize refuses (`invalid type: null, expected f64`); cells with non-finite numbers are not generated",
    "the lexical layer of the model (JSON text <-> tree, Moyo/Model/JsonText.lean) is executed, not proved: print(parse s) = s "
    "is checked on every explored document",
    "serde / serde_derive / serde_json / nalgebra's Serialize impl / pythonize / pyo3 are not modelled: the schema model says what "
    "the derived representation is, the correspondence observes that the running code produces and accepts exactly that",
    "the hand-written dump in harness/src/c19.rs (exhaustive destructuring of every struct, matrices through m[(i, j)]) is the "
    "independent account of what a value contains",
]


# ------------------------------------------------------------------------------------------------
# builds

def translate():
    """Run the translator under the lake lock; it rewrites the generated file only when its content changes."""
    with vlib.Lock("lake"):
        r = vlib.sh([sys.executable, TRANSLATOR], cwd=vlib.VERIF)
    return r.returncode == 0, (r.stdout + r.stderr).strip()[-4000:]


def schema_json():
    r = vlib.sh([sys.executable, TRANSLATOR, "--json"], cwd=vlib.VERIF)
    if r.returncode != 0:
        return None
    try:
        return json.loads(r.stdout)
    except ValueError:
        return None


def py_env():
    env = dict(os.environ)
    libdir = sysconfig.get_config_var("LIBDIR") or ""
    env["LD_LIBRARY_PATH"] = libdir + (":" + env["LD_LIBRARY_PATH"] if env.get("LD_LIBRARY_PATH") else "")
    env["PYTHONPATH"] = PYMOD
    return env


def build_pymod():
    """cargo build -p moyopy from the current tree; install as moyopy/_moyopy next to the package's Python files."""
    with vlib.Lock("cargo-py"):
        t = time.time()
        env = dict(vlib.ENV)
        env["CARGO_TARGET_DIR"] = TARGET_PY
        r = vlib.sh(["cargo", "build", "-p", "moyopy", "--offline"], cwd=vlib.REPO, env=env)
        if r.returncode != 0:
            return False, r.stderr[-6000:]
        so = os.path.join(TARGET_PY, "debug", "libmoyopy.so")
        if not os.path.exists(so):
            return False, "libmoyopy.so not produced"
        pkg = os.path.join(PYMOD, "moyopy")
        os.makedirs(pkg, exist_ok=True)
        dst = os.path.join(pkg, "_moyopy.abi3.so")
        if not os.path.exists(dst) or os.path.getmtime(dst) < os.path.getmtime(so) or os.path.getsize(dst) != os.path.getsize(so):
            tmp = dst + f".tmp{os.getpid()}"
            shutil.copy2(so, tmp)
            os.replace(tmp, dst)
        src_pkg = os.path.join(vlib.REPO, "moyopy", "python", "moyopy")
        for f in os.listdir(src_pkg):
            if f.endswith((".py", ".pyi", ".typed")):
                shutil.copy2(os.path.join(src_pkg, f), os.path.join(pkg, f))
        r = subprocess.run([sys.executable, "-c", "import moyopy; print(moyopy.__version__)"], env=py_env(), capture_output=True, text=True)
        if r.returncode != 0:
            return False, "import moyopy failed: " + r.stderr[-3000:]
        log(f"[build] moyopy ok in {time.time()-t:.1f}s (version {r.stdout.strip()})")
        return True, ""


def run_python(pyfile, outfile, max_recompute, timeout):
    r = subprocess.run([sys.executable, PYCHECK, pyfile, outfile, str(max_recompute)], env=py_env(), capture_output=True, text=True,
                       timeout=timeout)
    rows = []
    if os.path.exists(outfile):
        for line in open(outfile):
            try:
                rows.append(json.loads(line))
            except ValueError:
                pass
    return r, rows


# ------------------------------------------------------------------------------------------------
# translator validation: the extracted field lists are the keys of the emitted JSON

def walk(schema, node, val, path, out):
    if len(out) > 4:
        return
    k = node["k"]
    if k == "ref":
        return walk(schema, schema[node["name"]], val, path, out)
    if k == "newtype":
        return walk(schema, node["t"], val, path, out)
    if k == "int":
        if isinstance(val, bool) or not isinstance(val, int):
            out.append(f"{path}: expected an integer token, got {type(val).__name__}")
        elif not (node["lo"] <= val <= node["hi"]):
            out.append(f"{path}: integer {val} outside the range of {node.get('rust')}")
    elif k == "float":
        if not isinstance(val, float):
            out.append(f"{path}: expected a float token, got {type(val).__name__} {val!r}")
    elif k == "bool":
        if not isinstance(val, bool):
            out.append(f"{path}: expected a boolean, got {type(val).__name__}")
    elif k == "string":
        if not isinstance(val, str):
            out.append(f"{path}: expected a string, got {type(val).__name__}")
    elif k == "char":
        if not isinstance(val, str) or len(val) != 1:
            out.append(f"{path}: expected a one-character string, got {val!r}")
    elif k in ("seq", "array", "matrix"):
        if not isinstance(val, list):
            out.append(f"{path}: expected an array, got {type(val).__name__}")
            return
        want = node["n"] if k == "array" else node["r"] * node["c"] if k == "matrix" else None
        if want is not None and len(val) != want:
            out.append(f"{path}: expected a flat array of {want} elements, got {len(val)}")
            return
        for i, x in enumerate(val):
            walk(schema, node["t"], x, f"{path}.{i}", out)
    elif k == "struct":
        names = [f[0] for f in node["fields"]]
        if not isinstance(val, dict):
            out.append(f"{path}: expected an object with keys {names}, got {type(val).__name__}")
            return
        keys = list(val.keys())
        if keys != names:
            missing = [n for n in names if n not in keys]
            extra = [n for n in keys if n not in names]
            out.append(f"{path or '<top>'}: Rust fields {names} but JSON keys {keys}"
                       + (f"; lost: {missing}" if missing else "") + (f"; not a Rust field: {extra}" if extra else "")
                       + ("; order differs" if not missing and not extra else ""))
            return
        for n, t in node["fields"]:
            walk(schema, t, val[n], f"{path}.{n}" if path else n, out)
    elif k == "enum":
        units = [v[0] for v in node["variants"] if v[1] is None]
        newt = {v[0]: v[1] for v in node["variants"] if v[1] is not None}
        if isinstance(val, str):
            if val not in units:
                out.append(f"{path}: {val!r} is not a unit variant of {units}")
        elif isinstance(val, dict) and len(val) == 1:
            n = next(iter(val))
            if n not in newt:
                out.append(f"{path}: {n!r} is not a newtype variant of {list(newt)}")
            else:
                walk(schema, newt[n], val[n], f"{path}.{n}", out)
        else:
            out.append(f"{path}: expected an externally tagged enum value, got {val!r}")


# ------------------------------------------------------------------------------------------------
# one exploration pass

class Pass:
    """Everything observed for one (tier, seed): cases, rust verdicts, model answers, python rows."""

    def __init__(self, tier, seed, tag):
        self.tier, self.seed, self.tag = tier, seed, tag
        self.cases = os.path.join(vlib.WORK, f"c19_{tag}.cases")
        self.pyfile = os.path.join(vlib.WORK, f"c19_{tag}.py.jsonl")
        self.pyout = os.path.join(vlib.WORK, f"c19_{tag}.py.out")
        self.error = None
        self.reqs, self.rust, self.model, self.entries, self.pyrows = [], [], [], [], []
        self.stats = {}
        self.no_value = []

    def generate(self):
        r = vlib.harness(["c19-gen", self.tier, self.cases, self.pyfile, str(vlib.NCPU)], seed=self.seed,
                         timeout=1500 if self.tier == "thorough" else 170)
        if r.returncode != 0:
            self.error = "c19-gen failed:\n" + r.stderr[-3000:]
            return False
        for line in r.stdout.splitlines():
            if line.startswith("stats "):
                for kv in line.split()[1:]:
                    k, v = kv.split("=")
                    self.stats[k] = float(v) if ("e" in v or "." in v) else int(v)
            elif line.startswith("no_value "):
                self.no_value.append(line[len("no_value "):])
        self.reqs, self.rust = vlib.read_cases(self.cases)
        self.entries = [json.loads(l) for l in open(self.pyfile)]
        return True

    def run_model(self, model_ok):
        self.model = vlib.run_model(self.reqs) if model_ok else ["MODEL-UNAVAILABLE"] * len(self.reqs)

    def run_python(self, py_ok, max_recompute, timeout):
        if not py_ok:
            self.pyrows = []
            return
        try:
            r, rows = run_python(self.pyfile, self.pyout, max_recompute, timeout)
        except subprocess.TimeoutExpired:
            self.error = "python driver timed out"
            return
        self.pyrows = rows
        if r.returncode != 0 or len(rows) != len(self.entries):
            self.error = f"python driver failed (rc={r.returncode}, {len(rows)} of {len(self.entries)} rows):\n" + r.stderr[-3000:]


def spec_short(spec):
    s = dict(spec)
    c = dict(s.get("cell", {}))
    if len(c.get("positions", [])) > 4:
        c["positions"] = c["positions"][:2] + [f"... {len(c['positions'])} sites"]
        c["numbers"] = c["numbers"][:2] + ["..."]
        if "magnetic_moments" in c:
            c["magnetic_moments"] = c["magnetic_moments"][:2] + ["..."]
    s["cell"] = c
    return s


def replay_text(what, entry, rust, model, py):
    return (f"property: C19\nwhat: {what}\n"
            f"spec: {json.dumps(entry['spec'])}\n"
            f"rust round trip: {rust}\nlean model: {model}\npython: {json.dumps(py)}\n"
            f"serialized by the implementation: {entry['json'][:4000]}\n"
            f"(replay: python3 check.py C19 --replay <this file>)\n")


def collect_failures(p, schema, trust_model):
    """Concrete failing inputs of one pass: list of (index, what)."""
    fails = []
    by_index = {r["index"]: r for r in p.pyrows}
    for i, e in enumerate(p.entries):
        what = []
        if p.rust[i] != "ok":
            what.append("Rust: from_str(to_string(x)) differs from x: " + p.rust[i])
        m = p.model[i] if i < len(p.model) else ""
        if trust_model and m.startswith("fail"):
            detail = []
            if schema is not None:
                try:
                    walk(schema["schema"], schema["schema"][e["spec"]["type"]], json.loads(e["json"]), "", detail)
                except (ValueError, KeyError) as ex:
                    detail.append(f"walker: {ex}")
            if m.startswith("fail decode") and detail:
                what.append("the JSON does not have the value's fields: " + "; ".join(detail))
            elif m.startswith("fail dump") and "has no more leaves" not in m:
                what.append("the JSON does not hold the value's content (lost / transposed / changed): " + m)
        row = by_index.get(i)
        if row and row["problems"]:
            what.append("Python: " + " | ".join(row["problems"][:4]))
        if what:
            fails.append((i, " ;; ".join(what)))
    return fails


def run(tier, seed):
    run = vlib.Run("C19", tier, seed, "translation_validation")
    cov = run.coverage
    cov.update({"programs": 0, "disagreements_checked": 0, "samples": [], "obligations": 0, "discharged": 0,
                "checker_cmd": "python3 tools/translate_c19.py && cd lean && lake build Moyo.Props.C19 moyo_model && #print axioms on every "
                               "theorem (vlib.axiom_audit)",
                "trusted_base": TRUSTED})
    run.assumptions = [t for t in TRUSTED if t.startswith(("A-", "P-"))]
    broken = []          # obligations / correspondences that no longer check (strings)

    # ---- builds (moyopy in the background: separate target directory)
    py_res = {}
    th = threading.Thread(target=lambda: py_res.update(dict(zip(("ok", "err"), build_pymod()))))
    th.start()
    tr_ok, tr_out = translate()
    log("[translate_c19] " + tr_out.splitlines()[-1] if tr_out else "[translate_c19] no output")
    if not tr_ok:
        broken.append("translator tools/translate_c19.py refuses the current sources (Generated/C19Schema.lean is stale):\n  " + tr_out)
    schema = schema_json() if tr_ok else None
    ok, err = vlib.build_harness()
    if not ok:
        th.join()
        run.violation("harness_build.txt", "harness/moyo failed to build (harness/src/c19.rs destructures every serialized struct "
                      "exhaustively: a new or removed field shows up here):\n" + err, no_input=True)
        return run.finish()
    ob = vlib.proof_obligations(PROPS)
    okm, out = vlib.lake_build(["moyo_model"])
    cov["obligations"], cov["discharged"], cov["theorems"] = ob["obligations"], ob["discharged"], ob["names"]
    if ob["failures"]:
        broken.append("proof obligations of Moyo/Props/C19.lean that no longer check:\n  " + "\n  ".join(ob["failures"]))
        if schema is not None:
            asym = [t for t in schema["type_infos"] if not (t["serialize"] and t["deserialize"]) or
                    any(a[1] not in ("deny_unknown_fields", "bound", "crate", "expecting") for a in t["attrs"])]
            for t in asym:
                broken.append(f"  {t['source']}:{t['line']} {t['name']}: Serialize={t['serialize']} Deserialize={t['deserialize']} "
                              f"serde attributes={t['attrs']}")
    if not okm:
        broken.append("moyo_model failed to build: " + out[-2000:])
    if tier == "thorough" and not ob["failures"]:
        # independent re-check of the compiled theorem modules by the external kernel checker
        mods = ["Moyo.Model.Json", "Moyo.Generated.C19Schema", "Moyo.Proofs.JsonCodec", "Moyo.Props.C19"]
        with vlib.Lock("lake"):
            r = vlib.sh(["lake", "env", "leanchecker"] + mods, cwd=vlib.LEAN, timeout=900)
        cov["leanchecker"] = {"modules": mods, "rc": r.returncode}
        if r.returncode != 0:
            broken.append("leanchecker rejects the compiled theorem modules: " + (r.stdout + r.stderr)[-1500:])
    th.join()
    py_ok = py_res.get("ok", False)
    if not py_ok:
        broken.append("moyopy failed to build/import from the current tree (the Python half of the property is unchecked):\n  "
                      + py_res.get("err", ""))
    trust_model = tr_ok and okm

    # ---- exploration
    thorough = tier == "thorough"
    passes = []
    p = Pass(tier, seed, f"{tier}_{seed}")
    passes.append(p)
    if not p.generate():
        run.violation("harness_run.txt", p.error, no_input=True)
        return run.finish()
    p.run_model(okm)
    p.run_python(py_ok, 10**9 if thorough else 400, 1500 if thorough else 150)
    if p.error:
        broken.append(p.error)
    fails = [(p, i, w) for i, w in collect_failures(p, schema, trust_model)]

    # a broken obligation with no failing input yet: three times the inputs (other seeds), looking for a value that is lost
    if broken and not fails:
        for extra in (1, 2):
            q = Pass(tier, seed + extra, f"{tier}_{seed}_search{extra}")
            if not q.generate():
                continue
            q.run_model(okm)
            q.run_python(py_ok, 10**9 if thorough else 400, 1500 if thorough else 150)
            passes.append(q)
            fails += [(q, i, w) for i, w in collect_failures(q, schema, trust_model)]
            if fails:
                break

    # ---- coverage
    values = sum(len(q.entries) for q in passes)
    distinct = len({e["json"] for q in passes for e in q.entries})
    pystages = sum(6 if r.get("recomputed") else 5 for q in passes for r in q.pyrows)
    cov["programs"] = distinct
    cov["disagreements_checked"] = values * 2 + pystages
    cov["values"] = values
    cov["by_type"] = {}
    cov["origins"] = {}
    for q in passes:
        for e in q.entries:
            t = e["spec"]["type"]
            cov["by_type"][t] = cov["by_type"].get(t, 0) + 1
            o = e["spec"].get("origin", "?").split(" ")[0]
            cov["origins"][o] = cov["origins"].get(o, 0) + 1
    cov["angle_tolerance_variants"] = {
        "Default": sum(1 for q in passes for e in q.entries if '"angle_tolerance":"Default"' in e["json"]),
        "Radian": sum(1 for q in passes for e in q.entries if '"angle_tolerance":{"Radian"' in e["json"]),
    }
    cov["float_leaves_compared"] = sum(q.stats.get("floats", 0) for q in passes)
    cov["float_leaves_not_bit_identical_after_round_trip"] = sum(q.stats.get("floats_not_bit_identical", 0) for q in passes)
    cov["max_relative_float_deviation"] = max([q.stats.get("max_rel_dev", 0.0) for q in passes] + [0.0])
    cov["constructor_returned_no_value"] = {"count": sum(q.stats.get("no_value", 0) for q in passes), "reasons": p.no_value}
    cov["lean_model_ok"] = sum(1 for q in passes for m in q.model if m == "ok")
    cov["rust_round_trip_ok"] = sum(1 for q in passes for m in q.rust if m == "ok")
    cov["python_rows"] = sum(len(q.pyrows) for q in passes)
    cov["python_ok"] = sum(1 for q in passes for r in q.pyrows if not r["problems"])
    notes = {}
    for q in passes:
        for r in q.pyrows:
            for n in r["notes"]:
                k = n.split(":")[0]
                notes[k] = notes.get(k, 0) + 1
    cov["python_notes"] = notes
    cov["exhaustive"] = False
    cov["rule"] = ("values built from: the 13 JSON assets, edge cases (empty cell, extreme integers, floats needing exponents / 17 digits), "
                   "crystals of Hall settings (quick: every third + a fixed set over all lattice systems; thorough: all 530) with generic "
                   "metric-averaged lattices rigidly rotated, re-described by unimodular changes of basis and origin shifts, generic collinear / "
                   "non-collinear moments, magnetic crystals of UNI numbers (quick: every 28th; thorough: all 1651), random triclinic cells; "
                   "settings Spglib/Standard/HallNumber, both AngleTolerance variants; programs = distinct serialized strings")
    if p.entries:
        for i in (0, len(p.entries) // 3, 2 * len(p.entries) // 3, len(p.entries) - 1):
            e = p.entries[i]
            cov["samples"].append({"spec": spec_short(e["spec"]), "json_prefix": e["json"][:240], "rust": p.rust[i],
                                   "lean": p.model[i] if i < len(p.model) else None})
    if schema is not None:
        cov["schema_types"] = list(schema["schema"].keys())

    # correspondence problems that are not failing inputs
    for q in passes:
        bad = [i for i, m in enumerate(q.model) if m != "ok"]
        not_failing = [i for i in bad if not any(f[0] is q and f[1] == i for f in fails)]
        if not_failing:
            i = not_failing[0]
            broken.append(f"Lean model / implementation correspondence broken on {len(not_failing)} of {len(q.model)} values "
                          f"(seed {q.seed}); first: type {q.entries[i]['spec']['type']} origin {q.entries[i]['spec'].get('origin')}: "
                          f"{q.model[i]}\n  spec: {json.dumps(q.entries[i]['spec'])[:1500]}")
        # translator validation proper (only meaningful when the model did not already fail on the value)
        if schema is not None:
            tv = []
            for i, e in enumerate(q.entries[:50]):
                d = []
                walk(schema["schema"], schema["schema"][e["spec"]["type"]], json.loads(e["json"]), "", d)
                if d and not any(f[0] is q and f[1] == i for f in fails):
                    tv.append(d[0])
            if tv:
                broken.append("translator validation: extracted field lists differ from the emitted JSON: " + tv[0])
    cov["translator_validated_on"] = values if schema is not None else 0

    # ---- verdict
    if fails:
        q, i, what = fails[0]
        row = next((r for r in q.pyrows if r["index"] == i), None)
        text = replay_text(what, q.entries[i], q.rust[i], q.model[i] if i < len(q.model) else "", row["problems"] if row else [])
        if broken:
            text += "\nobligations that no longer check:\n" + "\n".join(broken)
        text += f"\nall failing values of this run ({len(fails)}):\n" + "\n".join(
            f"  seed {fq.seed} #{fi} {fq.entries[fi]['spec']['type']} ({fq.entries[fi]['spec'].get('origin')}): {fw[:300]}" for fq, fi, fw in fails[:40])
        run.violation("failing_input.txt", text)
        for fq, fi, fw in fails[:5]:
            print(f"[C19] failing value: seed {fq.seed} #{fi} {fq.entries[fi]['spec']['type']} ({fq.entries[fi]['spec'].get('origin')}): {fw[:400]}")
    elif broken:
        run.violation("unchecked.txt", "property: C19\nno concrete failing value found in " + str(values) + " values ("
                      + ", ".join(f"seed {q.seed}" for q in passes) + "); what no longer checks:\n" + "\n".join(broken), no_input=True)
    return run.finish()


def replay(path):
    ok, err = vlib.build_harness()
    if not ok:
        print("harness build failed:\n" + err)
        print(f"VIOLATION property=C19 replay={path} no-failing-input-found")
        return 1
    tr_ok, tr_out = translate()
    okm, _ = vlib.lake_build(["moyo_model"])
    py_ok, py_err = build_pymod()
    r = vlib.harness(["c19-spec", path])
    rc = 0
    lines = [l for l in r.stdout.splitlines() if " ||| " in l]
    if not lines:
        # a replay without an input names obligations that no longer check: re-run them
        print(open(path).read()[:3000])
        print("--- re-running the obligations on the current tree")
        print("translator:", "ok" if tr_ok else "REFUSES the sources: " + tr_out)
        ob = vlib.proof_obligations(PROPS)
        print(f"theorems of Moyo/Props/C19.lean: {ob['discharged']} of {ob['obligations']} discharged")
        for f in ob["failures"]:
            print("  " + f)
        print("moyo_model build:", "ok" if okm else "FAILED")
        print("moyopy build/import:", "ok" if py_ok else "FAILED: " + py_err[:1500])
        if not tr_ok or ob["failures"] or not okm or not py_ok:
            print(f"VIOLATION property=C19 replay={path} no-failing-input-found")
            return 1
        print("every obligation checks on the current tree")
        return 0
    specs = [json.loads(l[len("spec: "):]) for l in open(path) if l.startswith("spec: ")]
    for k, line in enumerate(lines):
        req, rust = line.split(" ||| ", 1)
        print("spec:", json.dumps(specs[k])[:600])
        if req == "novalue":
            print("constructor returned no value:", rust)
            continue
        s = req.split("\t")[3]
        print("serialized:", s[:600])
        print("rust round trip:", rust)
        if rust != "ok":
            rc = 1
        if okm:
            m = vlib.run_model([req])[0]
            print("lean model:", m)
            if m != "ok":
                rc = 1
        if py_ok:
            pf = os.path.join(vlib.WORK, f"c19_replay_{os.getpid()}.py.jsonl")
            with open(pf, "w") as f:
                f.write(json.dumps({"index": 0, "spec": specs[k], "json": s}) + "\n")
            rr, rows = run_python(pf, pf + ".out", 10**9, 300)
            for row in rows:
                print("python:", row["problems"] or "ok", row["notes"])
                if row["problems"]:
                    rc = 1
            if rr.returncode != 0:
                print("python driver failed:", rr.stderr[-1000:])
                rc = 1
        else:
            print("moyopy not available:", py_err[:500])
    if rc:
        print(f"VIOLATION property=C19 replay={path}")
    return rc
