"""C05 — pipeline property decided by the Lean oracle on generated crystals (see checks/pipe.py)."""
from checks import pipe

PROPS = [("Moyo.Props.C05", "Moyo/Props/C05.lean"), ("Moyo.Props.C05Stages", "Moyo/Props/C05Stages.lean"),
         ("Moyo.Props.C05Glue", "Moyo/Props/C05Glue.lean")]


def nontrivial(p, line):
    return bool(p['outcome']=='ok' and pipe.seg(line,'tsteps')!='none')


def run(tier, seed):
    return pipe.run_property("C05", tier, seed, ['hall', 'super', 'noise', 'lowsym'], PROPS,
                             {"rule": 'every Hall setting (own + re-based/shifted/rotated), supercells, noisy twins; non-trivial when a dataset was returned for a re-described input (origin shift always on)'},
                             nontrivial, stages=["s6", "s7", "s9"],
                             trusted=["premise validation of the generator (the generated crystal has exactly the generating group, symmetry gap >= 0.2 A) is a brute-force search in Rust, independent of moyo",
                                      "f64 rounding inside moyo is not modelled: the oracle judges the returned values in exact rational arithmetic",
                                      "the oracle's float code only orders candidate sites; every verdict is an exact test (Proofs/OracleSite.lean)"])


def replay(path):
    return pipe.replay("C05", path)
