"""C08 — analysis always ends with Ok or Err: no panic, hang or unbounded memory.

Level `proof` (partial):
  * theorems of Moyo/Props/C08.lean (retry loops bounded; closure loops unbounded as written / bounded with a cap;
    HNF/SNF loops end) — tied to the code by S12 (`tolreplay`: the Lean retry model must reproduce the tolerance
    sequence recorded by the `verif::trace` hook) and by the regenerated constants;
  * the panic-site inventory (tools/translate_c08.py -> Moyo/Generated/C08Sites.lean) with its discharge table
    (Moyo/Model/C08Discharge.lean) and the table theorem Moyo/Props/C08Sites.lean: every site matched by a record;
  * exploration for what no model shows (time, memory, aborts, panics): G-wild + malformed Hall-symbol stream +
    out-of-range table look-ups, every request evaluated in an isolated child process under `ulimit -v 4 GB` and a
    deadline of max(10 s, 200 x median).  A panic, abort, timeout is a violation; the request is the replay.
Every observed failure is mapped to a stable key (`panic:<file>:<fn>:<class>`, `panic:<entry>:overflow`,
`unbounded:<innermost moyo frame>`); keys listed in known_findings.txt print KNOWN-FINDING, everything else VIOLATION.
"""
import collections
import hashlib
import json
import os
import random
import re
import shutil
import statistics
import subprocess
import sys
import time

import vlib
from vlib import log
from checks.c08_runner import eval_isolated

PROPS = [("Moyo.Props.C08", "Moyo/Props/C08.lean"), ("Moyo.Props.C08Sites", "Moyo/Props/C08Sites.lean")]
TRANSLATOR = os.path.join(vlib.VERIF, "tools", "translate_c08.py")
SITES_JSON = os.path.join(vlib.WORK, "c08_sites.json")
UNDISCHARGED_LEAN = os.path.join(vlib.VERIF, "tools", "c08_undischarged.lean")
SRC = os.path.join(vlib.REPO, "moyo", "src")
MEM_GB = 4
BASE_DEADLINE = 10.0

ENTRY = {"wds": "MoyoDataset::new", "wmag": "MoyoMagneticDataset::new", "whall": "HallSymbol::new+traverse",
         "wmhall": "MagneticHallSymbol::new+traverse"}
# which request kinds reach the code of a source file (for the focused search after an undischarged site)
FOCUS = [("data/hall_symbol.rs", ["whall", "wmhall"]), ("math/hnf.rs", ["wnf", "wds"]), ("math/snf.rs", ["wnf", "wds"]),
         ("math/integer_system.rs", ["wnf", "wds"]), ("math/", ["wred", "wds"]), ("base/lattice.rs", ["wred", "wds"]),
         ("identify/magnetic_space_group.rs", ["wmag"]), ("symmetrize/magnetic_standardize.rs", ["wmag"]),
         ("base/magnetic_cell.rs", ["wmag"]), ("data/magnetic", ["wmag", "wtab"]), ("data/", ["wds", "wmag", "wtab"]),
         ("", ["wds", "wmag"])]


# ------------------------------------------------------------------------------------------------
# requests

def entry_of(req):
    p = req.split(" ", 3)
    k = p[0]
    if k in ENTRY:
        return ENTRY[k]
    if k == "wred" and len(p) > 1:
        return {"mink": "Lattice::minkowski_reduce", "niggli": "Lattice::niggli_reduce"}.get(p[1], "Lattice::delaunay_reduce")
    if k == "wnf" and len(p) > 1:
        return "HNF::new" if p[1] == "hnf" else "SNF::new"
    if k == "wtab" and len(p) > 1:
        return p[1]
    return k


def extra_malformed(seed, count):
    """Malformed Hall symbols beyond the ASCII grammar mutations of `malformed-gen`: non-ASCII characters, control
    characters, very long tokens, numeric oddities in the origin shift, generator sets of infinite order."""
    rng = random.Random(seed * 7919 + 17)
    fixed = ["P 2 3", "F 4 3", "P 3 2", "P 6 4", "I 4 3 3", "-P 2 3", "P 2 3'", "P 4 3*", "P 3* 2", "P 6 2 3", "P 2x 3",
             "P 2 (0 0 é", "P 2é", "é", "P é", "-é", "P 2 (é 0 0)", "P 2 (0 0 0é)", "P 2^é",
             "P 2 (nan 0 0)", "P 2 (inf 0 0)", "P 2 (1e400 0 0)", "P 2 (-0 -0 -0)", "P 2 (99999999999999999999 0 0)",
             "P 2 (0.5 0.5 0.5)", "P 2 (1e-320 0 0)", "P 2 (", "P 2 )", "P 2 ()", "P 2 (( 0 0 0))", "P 2 (0 0 0) 2",
             "P " + "2 " * 200, "P " + "2" * 500, "P 2" + "a" * 300, "P 2'" * 50, " P 2", "P　2", "P 2\x00", "\x00",
             "P 1'", "P 1' 1'", "P -1' -1'", "P 2' 2' 2'", "P 6' 6'", "P 4' 3' 2'", "P 2 2 2 2 2", "P 3 3", "P 4 4", "P 6 6 6",
             "R 3 3*", "H 3", "P 2 -", "P - -", "P -- 2", "P -2- 2", "P 2^^", "P 2==", "P 2^=", "P 2*x", "P 2xx"]
    out = [("whall " + s) for s in fixed] + [("wmhall " + s) for s in fixed]
    alphabet = "PABCIRFH-123456xyz^=*abcnuvwd'() 0789qéテ\t."
    nfolds = ["1", "2", "3", "4", "6", "-1", "-2", "-3", "-4", "-6"]
    axes = ["", "x", "y", "z", "^", "=", "*", "^x", "=y"]
    trans = ["", "a", "b", "c", "n", "d", "1", "2", "3", "5", "ab", "'", "c'"]
    for _ in range(count):
        if rng.random() < 0.6:
            # syntactically valid symbols with arbitrary operator combinations: many generate infinite groups
            toks = [rng.choice(["P", "-P", "F", "I", "-I", "R", "C", "A"])]
            for _ in range(rng.randint(1, 4)):
                toks.append(rng.choice(nfolds) + rng.choice(axes) + rng.choice(trans))
            if rng.random() < 0.2:
                toks.append("(%d %d %d)" % (rng.randint(0, 13), rng.randint(0, 13), rng.randint(-2, 12)))
            s = " ".join(toks)
        else:
            s = "".join(rng.choice(alphabet) for _ in range(rng.randint(0, 14)))
        s = s.replace("\n", " ")
        out.append(("whall " if rng.random() < 0.5 else "wmhall ") + s)
    return out


def gen_requests(tier, seed, focus=None, round_no=0):
    """Returns the request list of one round (deterministic in tier, seed, round)."""
    path = os.path.join(vlib.WORK, f"c08_{tier}_{seed}_{round_no}.req")
    args = ["c08-gen", tier, path]
    if focus:
        args.append("focus=" + focus)
    r = vlib.harness(args, seed=seed * 1000 + round_no)
    if r.returncode != 0:
        raise RuntimeError("c08-gen failed: " + r.stderr[-2000:])
    reqs = [l.rstrip("\n") for l in open(path, encoding="utf-8", errors="surrogateescape")]
    os.unlink(path)
    # malformed stream (grammar-directed mutations of the valid strings) + the extras above
    nmal = 700 if tier == "quick" else 2000
    mpath = os.path.join(vlib.WORK, f"c08_mal_{tier}_{seed}_{round_no}.raw")
    r = vlib.harness(["malformed-gen", str(nmal), mpath], seed=seed * 1000 + round_no)
    if r.returncode != 0:
        raise RuntimeError("malformed-gen failed: " + r.stderr[-2000:])
    mal = []
    for l in open(mpath, encoding="utf-8", errors="replace"):
        l = l.rstrip("\n")
        if l.startswith("hall"):
            mal.append("whall" + l[4:])
        elif l.startswith("mhall"):
            mal.append("wmhall" + l[5:])
    os.unlink(mpath)
    mal += extra_malformed(seed * 1000 + round_no, 500 if tier == "quick" else 1500)
    if focus and ("whall" in focus or "wmhall" in focus):
        mal += extra_malformed(seed * 1000 + round_no + 500, 3000)
    return reqs + mal


# ------------------------------------------------------------------------------------------------
# model driver (other checks may relink moyo_model while this one runs)

def safe_run_model(requests):
    last = None
    for attempt in range(4):
        if not os.path.exists(vlib.MODEL_BIN):
            vlib.lake_build(["moyo_model"])
        try:
            out = vlib.run_model(requests)
            if not any(o.startswith("MODEL-CRASH") for o in out):
                return out
            last = "model crashed: " + next(o for o in out if o.startswith("MODEL-CRASH"))
        except OSError as e:
            last = str(e)
        time.sleep(3 + 5 * attempt)
    raise RuntimeError("moyo_model could not be run: " + str(last))


# ------------------------------------------------------------------------------------------------
# classification of answers

def head_of(ans):
    return ans.split(" ; ", 1)[0]


def field(ans, key):
    m = re.search(r"(?:^| ; )" + key + r" ([^;]*?)(?= ; |$)", ans)
    return m.group(1).strip() if m else None


def is_failure(ans):
    h = head_of(ans)
    return h.startswith("PANIC") or h.startswith("HANG") or h.startswith("CRASH") or h in ("NOT-EVALUATED", "UNKNOWN-REQUEST", "BAD-REQUEST")


_FN_CACHE = {}


def fn_at(relfile, line):
    """Qualified name of the function of moyo/src/<relfile> that contains `line` (tokenising structure analysis of
    tools/translate_c08.py when available, else a regex scan)."""
    if relfile not in _FN_CACHE:
        table = None
        try:
            sys.path.insert(0, os.path.join(vlib.VERIF, "tools"))
            import translate_c08 as t8  # noqa
            if hasattr(t8, "fn_table"):
                table = t8.fn_table(os.path.join(SRC, relfile))
        except Exception:  # pragma: no cover - fall back below
            table = None
        finally:
            sys.path.pop(0)
        if table is None:
            table = []
            try:
                lines = open(os.path.join(SRC, relfile)).read().split("\n")
            except OSError:
                lines = []
            impl = None
            for i, l in enumerate(lines, 1):
                m = re.match(r"impl(?:<[^>]*>)?\s+(?:[\w:<>, ]+\s+for\s+)?(\w+)", l)
                if m:
                    impl = m.group(1)
                elif re.match(r"\S", l) and not l.startswith("}") and not l.startswith("//") and not l.startswith("#"):
                    if not l.startswith("impl"):
                        impl = None if re.match(r"(pub(\([a-z]+\))?\s+)?(fn|struct|enum|mod|const|static|use|type|trait)\b", l) else impl
                m = re.match(r"(\s*)(?:pub(?:\([a-z]+\))?\s+)?(?:const\s+)?fn\s+(\w+)", l)
                if m:
                    name = m.group(2)
                    table.append((i, f"{impl}::{name}" if impl and m.group(1) else name))
        _FN_CACHE[relfile] = table
    best = "<module>"
    for start, name in _FN_CACHE[relfile]:
        if start <= line:
            best = name
        else:
            break
    return best


def msg_class(msg):
    m = msg.lower()
    if "overflow" in m:
        return "overflow"
    if "index out of bounds" in m or "out of range" in m or "matrix index out of bounds" in m:
        return "index-oob"
    if "option::unwrap()" in m:
        return "unwrap-none"
    if "result::unwrap()" in m:
        return "unwrap-err"
    if "no entry found for key" in m:
        return "missing-key"
    if "assertion" in m:
        return "assert"
    if "unreachable" in m:
        return "unreachable"
    if "divide by zero" in m or "remainder with a divisor of zero" in m:
        return "div-zero"
    if "byte index" in m or "char boundary" in m:
        return "str-slice"
    return re.sub(r"[^a-z]+", "-", " ".join(m.split()[:4])).strip("-") or "panic"


def panic_key(req, ans):
    """`PANIC <file>:<line> <message>` -> stable key."""
    h = head_of(ans)
    m = re.match(r"PANIC (\S+):(\d+) (.*)", h)
    if not m:
        return "panic:" + entry_of(req) + ":" + msg_class(h), None
    path, line, msg = m.group(1), int(m.group(2)), m.group(3)
    cls = msg_class(msg)
    if cls == "overflow":
        return f"panic:{entry_of(req)}:overflow", (path, line)
    if "/moyo/src/" in path:
        rel = path.split("/moyo/src/", 1)[1]
        return f"panic:{os.path.basename(rel)}:{fn_at(rel, line)}:{cls}", (rel, line)
    return f"panic:{entry_of(req)}:extern-{os.path.basename(path)}:{cls}", (path, line)


def moyo_frame(req, samples=2):
    """Innermost `moyo::` frame of the request while it is stuck (gdb attach; None if gdb is not available)."""
    gdb = shutil.which("gdb")
    if not gdb:
        return None
    found = []
    for k in range(samples):
        try:
            p = subprocess.Popen(["bash", "-c", f'ulimit -v {MEM_GB << 20}; exec "$0" c08-one "$1"', vlib.HARNESS_BIN, req],
                                 env=vlib.ENV, stdout=subprocess.DEVNULL, stderr=subprocess.DEVNULL)
        except ValueError:      # NUL byte in the request: cannot be passed as an argument
            return None
        time.sleep(1.0 + 0.7 * k)
        if p.poll() is None:
            try:
                r = subprocess.run([gdb, "-p", str(p.pid), "-batch", "-ex", "bt 40"], capture_output=True, text=True, timeout=60)
                for line in r.stdout.splitlines():
                    m = re.search(r"\b(moyo::[A-Za-z0-9_:<>, ]+?)(?:::h[0-9a-f]{16})?\s*\(", line)
                    if line.startswith("#") and m and not m.group(1).startswith("moyo_harness"):
                        f = re.sub(r"::\{\{closure\}\}.*", "", m.group(1))
                        f = re.sub(r"<[^>]*>", "", f)
                        found.append(f[len("moyo::"):])
                        break
            except (subprocess.TimeoutExpired, OSError):
                pass
        p.kill()
        p.wait()
    if not found:
        return None
    return collections.Counter(found).most_common(1)[0][0]


# ------------------------------------------------------------------------------------------------
# S12: the Lean retry model against the recorded tolerance updates

EVENT = re.compile(r"update (\w+) from (?:Magnetic)?SymmetryTolerances \{ symprec: ([^,]+), angle_tolerance: (Default|Radian\(([^)]+)\))(?:, mag_symprec: ([^ ]+))? \}")


def s12_check(reqs, answers, model_ok):
    """Returns (n_cases_with_updates, mismatches[list of (req, why)], stats)."""
    cases = []
    for q, a in zip(reqs, answers):
        k = q.split(" ", 1)[0]
        if k not in ("wds", "wmag") or is_failure(a):
            continue
        tr = field(a, "trace")
        if not tr:
            continue
        evs = []
        bad = False
        for e in tr.split(" / "):
            m = EVENT.match(e.strip())
            if not m:
                bad = True
                break
            evs.append((m.group(1), float(m.group(2)), None if m.group(3) == "Default" else float(m.group(4)),
                        None if m.group(5) is None else float(m.group(5))))
        cases.append((q, a, evs, bad))
    if not cases:
        return 0, [], {}
    mism = []
    outs = safe_run_model(["tolreplay " + " ".join(e[0] for e in evs) for _, _, evs, _ in cases]) if model_ok else None
    lengths = collections.Counter()
    for idx, (q, a, evs, bad) in enumerate(cases):
        lengths[min(len(evs), 64) // 8 * 8] += 1
        if bad:
            mism.append((q, "unparsable trace event in: " + a[:300]))
            continue
        if outs is None:
            continue
        try:
            exps = [float(vlib.parse_num(t)) for t in outs[idx].split()]
        except Exception:
            mism.append((q, f"model answered {outs[idx][:100]!r}"))
            continue
        if len(evs) > 64:
            mism.append((q, f"{len(evs)} tolerance updates recorded, the model allows at most 64"))
            continue
        if len(exps) != len(evs) + 1:
            mism.append((q, f"model gives {len(exps)} exponents for {len(evs)} recorded updates"))
            continue
        s0, a0, m0 = evs[0][1], evs[0][2], evs[0][3]
        # requested tolerances: the first event records them (exponent 0)
        rq = float(vlib.parse_num(field(q, "symprec")))
        if abs(s0 - rq) > 1e-12 * abs(rq):
            mism.append((q, f"first recorded symprec {s0} is not the requested {rq}"))
            continue
        ok = True
        for i, (name, s, ang, ms) in enumerate(evs):
            f = 2.0 ** exps[i]
            for got, base, what in ((s, s0, "symprec"), (ang, a0, "angle"), (ms, m0, "mag_symprec")):
                if base is None:
                    if got is not None:
                        ok = False
                    continue
                if got is None or abs(got - base * f) > 1e-12 * abs(base * f):
                    mism.append((q, f"update {i} ({name}): recorded {what} {got}, model {base}*2^{exps[i]} = {base * f}"))
                    ok = False
                    break
            if not ok:
                break
        if not ok:
            continue
        # the tolerances returned by a successful run are the ones reached after the last update
        h = head_of(a).split(" ")
        if h[0] == "ok":
            k = q.split(" ", 1)[0]
            ret = float(vlib.parse_num(h[4] if k == "wds" else h[4]))
            want = s0 * 2.0 ** exps[-1]
            if abs(ret - want) > 1e-12 * abs(want):
                mism.append((q, f"returned symprec {ret}, model {want} (exponent {exps[-1]} after {len(evs)} updates)"))
        elif h[0] == "err" and h[1] in ("PrimitiveSymmetrySearchError", "PrimitiveMagneticSymmetrySearchError") and len(evs) != 64:
            mism.append((q, f"{h[1]} after {len(evs)} updates; the model gives up after exactly 64"))
    return len(cases), mism, {"updates_histogram(bucket of 8)": dict(sorted(lengths.items()))}


# ------------------------------------------------------------------------------------------------
# inventory

def run_inventory():
    """Regenerates the site inventory; returns dict(sites=[..], ok=bool, err=str)."""
    if not os.path.exists(TRANSLATOR):
        return {"ok": False, "err": "tools/translate_c08.py is missing", "sites": []}
    with vlib.Lock("lake"):
        r = vlib.sh([sys.executable, TRANSLATOR, "--json", SITES_JSON], cwd=vlib.VERIF)
    if r.returncode != 0:
        return {"ok": False, "err": (r.stdout + r.stderr)[-3000:], "sites": []}
    try:
        d = json.load(open(SITES_JSON))
    except Exception as e:  # noqa
        return {"ok": False, "err": f"cannot read {SITES_JSON}: {e}", "sites": []}
    d["ok"] = True
    d["stdout_summary"] = (r.stdout + r.stderr).strip().splitlines()[-1:] if (r.stdout + r.stderr).strip() else []
    return d


_EXTRA = {}


def undischarged_sites():
    """Evaluates the discharge table in Lean (not the theorem): (list of undischarged 'file|fn|kind|line|expr',
    list of (key, file, fn, expr) for records that rely on a known-finding key), or None if it cannot be evaluated."""
    if not os.path.exists(UNDISCHARGED_LEAN):
        return None
    ok, out = vlib.lake_build(["Moyo.Model.C08Discharge"])
    if not ok:
        return None
    r = vlib.sh(["lake", "env", "lean", UNDISCHARGED_LEAN], cwd=vlib.LEAN)
    und, keys = [], []
    extra = {"stale": [], "review": [], "summary": ""}
    for l in (r.stdout or "").splitlines():
        if l.startswith("KEY "):
            p = l[4:].split("|")
            if len(p) >= 4:
                keys.append((p[0], p[1], p[2], "|".join(p[3:])))
        elif l.startswith("STALE "):
            extra["stale"].append(l[6:])
        elif l.startswith("REVIEW "):
            extra["review"].append(l[7:])
        elif l.startswith("SUMMARY "):
            extra["summary"] = l[8:]
        elif re.match(r"[\w/]+\.rs\|[^|]+\|\w+\|\d+\|", l):
            und.append(l)
    _EXTRA.clear()
    _EXTRA.update(extra)
    if r.returncode != 0 and not und:
        return None
    return und, keys


def focus_for(files, factor=3):
    kinds = []
    for f in files:
        for prefix, ks in FOCUS:
            if f.startswith(prefix):
                for k in ks:
                    if k not in kinds:
                        kinds.append(k)
                break
    return ",".join(kinds) + f":{factor}"


# ------------------------------------------------------------------------------------------------
# exploration

def explore(reqs, name, deadline):
    t = time.time()
    ans = eval_isolated(reqs, name, deadline=deadline, mem_gb=MEM_GB)
    log(f"[c08] {len(reqs)} requests evaluated in {time.time() - t:.1f}s")
    return ans


def median_us(answers):
    us = []
    for a in answers:
        m = re.search(r" ; us (\d+)$", a)
        if m:
            us.append(int(m.group(1)))
    return statistics.median(us) if us else 0


def confirm(req, deadline):
    """Re-run a failing request alone; returns the confirmed answer (or the healthy one)."""
    return eval_isolated([req], "c08_confirm_%d" % (abs(hash(req)) % 10 ** 8), deadline=deadline, mem_gb=MEM_GB, workers=1)[0]


def describe(req):
    k = req.split(" ", 1)[0]
    if k in ("wds", "wmag"):
        d = {"kind": k, "atoms": field(req, "n"), "symprec": float(vlib.parse_num(field(req, "symprec"))), "angtol": field(req, "angtol").split(" ")[0],
             "tag": field(req, "tag")}
        if k == "wds":
            d["setting"] = field(req, "setting")
        else:
            ms = field(req, "magsymprec")
            d.update({"moments": field(req, "kind"), "action": field(req, "action"), "mag_symprec": ms if ms == "none" else float(vlib.parse_num(ms))})
        return d
    return {"request": req[:160]}


def run(tier, seed):
    run = vlib.Run("C08", tier, seed, "proof")
    cov = run.coverage
    t_start = time.time()
    ok, err = vlib.build_harness()
    if not ok:
        run.violation("harness_build.txt", "harness/moyo failed to build with hooks on:\n" + err, no_input=True)
        cov.update({"obligations": 0, "discharged": 0, "checker_cmd": "lake build Moyo.Props.C08 Moyo.Props.C08Sites", "trusted_base": []})
        return run.finish()
    okt, terr = vlib.translate()
    inv = run_inventory()
    # the two theorem modules are audited separately: an undischarged panic site must not hide the C08 theorems
    ob = {"obligations": 0, "discharged": 0, "failures": [], "names": []}
    for pm in PROPS:
        o = vlib.proof_obligations([pm])
        for k in ob:
            ob[k] += o[k]
    okm, mout = vlib.lake_build(["moyo_model"])
    if not okt:
        ob["failures"].append("translator (constants) failed: " + terr[-1500:])
    if not inv["ok"]:
        ob["failures"].append("panic-site inventory (tools/translate_c08.py) failed: " + inv["err"][-1500:])
    if not okm:
        ob["failures"].append("moyo_model failed to build: " + mout[-1500:])
    sites = inv.get("sites", [])
    und = undischarged_sites()
    known_keys = {k["key"] for k in run.known}
    unmatched = []          # inventory entries without a valid discharge
    if und is None:
        if inv["ok"]:
            ob["failures"].append("the discharge table (Moyo/Model/C08Discharge.lean) could not be evaluated")
    else:
        unmatched = list(und[0])
        for key, f, fn, expr in und[1]:
            if key not in known_keys:
                unmatched.append(f"{f}|{fn}|known-finding-key-not-listed:{key}|0|{expr}")
    n_sites = len(sites)
    cov["obligations"] = ob["obligations"] + n_sites
    cov["discharged"] = ob["discharged"] + max(0, n_sites - len(unmatched)) if und is not None else ob["discharged"]
    cov["theorems"] = ob["names"]
    cov["inventory_sites"] = n_sites
    cov["inventory_by_kind"] = inv.get("summary", {}).get("per_kind", {}) if isinstance(inv.get("summary"), dict) else {}
    cov["inventory_undischarged"] = unmatched[:50]
    cov["inventory_table"] = _EXTRA.get("summary", "")
    cov["inventory_stale_records"] = _EXTRA.get("stale", [])[:40]
    cov["inventory_fns_changed_since_review"] = _EXTRA.get("review", [])[:40]
    cov["checker_cmd"] = ("python3 tools/translate_c08.py && cd /verif/lean && lake build Moyo.Props.C08 Moyo.Props.C08Sites ; "
                          "#print axioms on every theorem (vlib.axiom_audit)")
    cov["trusted_base"] = vlib.TRUSTED_COMMON + [
        "tools/translate_c08.py (lexical panic-site inventory; a site it does not recognise is not an obligation) and the hand-written "
        "justifications of the discharge records (each is a claim about the Rust source; `decide` checks coverage, not truth)",
        "A-retry: an attempt of the retry loop is a function of the tolerance exponent (the model's `attempt`); tied by S12 on recorded runs",
        "termination of the Minkowski/Niggli/Delaunay main loops and all real time / memory behaviour: explored only (isolated child processes, "
        f"ulimit -v {MEM_GB} GB, deadline max({BASE_DEADLINE:.0f} s, 200 x median))",
        "i32 arithmetic is modelled by unbounded Int; overflow is observed by the harness build (overflow-checks = true) only",
    ]

    run.assumptions = ["well-formed inputs only: finite numbers, non-singular lattice, at least one atom, equal-length arrays, positive finite tolerances",
                       "a stall is judged against max(10 s, 200 x median request time) in an isolated child process under ulimit -v 4 GB",
                       "panic-site discharge records are reviewed text, not theorems (except those citing Moyo.C08.* / Moyo.C15.* lemmas)"]
    # ---- exploration
    focus = None
    if unmatched:
        files = sorted({u.split("|")[0] for u in unmatched})
        focus = focus_for(files, 2 if tier == "quick" else 3)
        log(f"[c08] {len(unmatched)} undischarged panic sites -> focused exploration {focus}")
    deadline = BASE_DEADLINE
    all_reqs, all_ans = [], []
    t_explore = time.time()
    rno_done = 0
    # thorough: rounds of ~36k requests (new sub-seed each) until 15 minutes of exploration are used, at most 40 rounds
    rounds = 1 if tier == "quick" else 40
    budget_s = 170 if tier == "quick" else 900
    try:
        for rno in range(rounds):
            if rno > 0 and time.time() - t_explore > budget_s:
                break
            reqs = gen_requests(tier, seed, focus, rno)
            ans = explore(reqs, f"c08_{tier}_{seed}_{rno}", deadline)
            all_reqs += reqs
            all_ans += ans
            rno_done = rno + 1
    except RuntimeError as e:
        run.violation("harness_run.txt", str(e), no_input=True)
        return run.finish()
    cov["rounds"] = rno_done
    med = median_us(all_ans)
    deadline = max(BASE_DEADLINE, 200 * med / 1e6)
    cov["median_us"] = med
    cov["deadline_s"] = deadline

    # ---- failures: confirm in isolation, classify
    failing = [(q, a) for q, a in zip(all_reqs, all_ans) if is_failure(a)]
    by_key = collections.OrderedDict()
    frames = {}
    unconfirmed = 0
    # confirm a bounded number per provisional class, each alone in its own child process (all at once, in parallel)
    provisional = collections.Counter()
    to_confirm = []
    chosen = []
    for q, a in failing:
        h = head_of(a)
        prov = panic_key(q, a)[0] if h.startswith("PANIC") else ("stuck:" + entry_of(q))
        provisional[prov] += 1
        if provisional[prov] > (2 if tier == "quick" else 5):
            by_key.setdefault(("count-only", prov), []).append((q, a))
            continue
        chosen.append((q, a, prov))
        if not h.startswith("PANIC"):
            to_confirm.append(q)
    confirmed = {}
    if to_confirm:
        t = time.time()
        res = eval_isolated(to_confirm, f"c08_confirm_{tier}_{seed}", deadline=deadline, mem_gb=MEM_GB, workers=min(len(to_confirm), 12))
        confirmed = dict(zip(to_confirm, res))
        log(f"[c08] {len(to_confirm)} stalls re-run in isolation in {time.time() - t:.1f}s")
    for q, a, prov in chosen:
        h = head_of(a)
        a2 = a if h.startswith("PANIC") else confirmed.get(q, a)
        if not is_failure(a2):
            unconfirmed += 1
            continue
        h2 = head_of(a2)
        if h2.startswith("PANIC"):
            key, _ = panic_key(q, a2)
        elif h2.startswith("HANG") or h2.startswith("CRASH"):
            ent = entry_of(q)
            if ent not in frames:
                frames[ent] = moyo_frame(q, samples=1 if tier == "quick" else 2)
            fr = frames[ent]
            key = f"unbounded:{fr}" if fr else f"unbounded:{ent}:?"
        else:
            key = "harness:" + h2.split(" ")[0]
        by_key.setdefault(("key", key, prov), []).append((q, a2))
    cov["unconfirmed_stalls"] = unconfirmed
    fail_summary = {}
    prov_to_key = {}
    for k, items in by_key.items():
        if k[0] == "key":
            prov_to_key.setdefault(k[2], k[1])
    for k, items in by_key.items():
        key = k[1] if k[0] == "key" else prov_to_key.get(k[1], k[1])
        fail_summary[key] = fail_summary.get(key, 0) + len(items)
    cov["failures_by_key"] = fail_summary
    n_viol = 0
    for k, items in by_key.items():
        if k[0] != "key":
            continue
        key = k[1]
        q, a = min(items, key=lambda qa: len(qa[0]))
        content = {"property": "C08", "key": key, "request": q, "observed": a[:600], "entry_point": entry_of(q), "case": describe(q),
                   "deadline_s": deadline, "mem_gb": MEM_GB, "count_in_this_run": fail_summary.get(key, len(items)),
                   "how_to_replay": "python3 check.py C08 --replay <this file>   (evaluates exactly this request in an isolated child process)",
                   "others": [x[0][:300] for x in items[1:6]]}
        name = "fail_" + hashlib.sha1(key.encode()).hexdigest()[:10] + ".json"
        if run.violation(name, content, key=key):
            n_viol += 1

    log(f"[c08] failures classified at {time.time() - t_start:.1f}s")
    # ---- S11: the Hall-symbol model on the malformed stream
    s11 = collections.Counter()
    hall_idx = [i for i, q in enumerate(all_reqs) if q.split(" ", 1)[0] in ("whall", "wmhall")]
    if okm and hall_idx:
        mreqs = []
        for i in hall_idx:
            q = all_reqs[i]
            k, _, sym = q.partition(" ")
            mreqs.append(("hall " if k == "whall" else "mhall ") + sym if sym else ("hall" if k == "whall" else "mhall"))
        try:
            mans = safe_run_model(mreqs)
        except RuntimeError as e:
            ob["failures"].append("S11: " + str(e))
            mans = []
        lenient = []
        for i, ma in zip(hall_idx, mans):
            ih = head_of(all_ans[i]).split(" ")[0]
            s11[("model-none" if ma == "none" else "model-some" if " ; " in ma else "model-" + ma[:12]) + "/impl-" + ih.lower()] += 1
            if ma == "none" and ih == "some" and len(lenient) < 12:
                lenient.append(all_reqs[i])
        # not a C08 matter (no panic, no stall): strings the implementation accepts although the model of the grammar rejects them
        cov["S11_model_none_impl_some_samples"] = lenient
    cov["S11_malformed"] = {k: v for k, v in sorted(s11.items())}
    log(f"[c08] S11 done at {time.time() - t_start:.1f}s")

    # ---- S12
    try:
        n12, mism12, st12 = s12_check(all_reqs, all_ans, okm)
    except RuntimeError as e:
        ob["failures"].append("S12: " + str(e))
        n12, mism12, st12 = 0, [], {}
    cov["S12_cases_reaching_retry_loop"] = n12
    cov["S12_mismatches"] = len(mism12)
    log(f"[c08] S12 done at {time.time() - t_start:.1f}s")
    cov.update(st12)

    # ---- evidence: distribution
    outcomes = collections.Counter()
    errkinds = collections.Counter()
    sizes = collections.Counter()
    decades = collections.Counter()
    tags = collections.Counter()
    settings = collections.Counter()
    magk = collections.Counter()
    distinct = set()
    nontrivial = 0
    for q, a in zip(all_reqs, all_ans):
        k = q.split(" ", 1)[0]
        h = head_of(a).split(" ")
        outcomes[k + ":" + h[0].split("(")[0].lower()] += 1
        if h[0] == "err":
            errkinds[h[1]] += 1
        if k in ("wds", "wmag"):
            n = int(field(q, "n"))
            sizes["1" if n == 1 else "2-3" if n <= 3 else "4-12" if n <= 12 else "13-40" if n <= 40 else "41-64"] += 1
            sp = float(vlib.parse_num(field(q, "symprec")))
            decades["1e%d" % int(__import__("math").floor(__import__("math").log10(sp)))] += 1
            tags[re.sub(r"\d+", "", field(q, "tag").split("+")[0])] += 1
            if k == "wds":
                st = field(q, "setting")
                settings["hall-out-of-range" if st.startswith("hall") and not (1 <= int(st.split()[1]) <= 530) else st.split()[0]] += 1
            else:
                magk[field(q, "kind") + "/" + field(q, "action") + ("/mag_symprec=none" if field(q, "magsymprec") == "none" else "")] += 1
        sig = hashlib.sha1(q.encode("utf-8", "surrogateescape")).digest()
        if sig in distinct:
            continue
        distinct.add(sig)
        tr = field(a, "trace")
        if h[0] in ("err", "none") or (tr and tr.strip()) or is_failure(a):
            nontrivial += 1
    cov["evaluations"] = len(all_reqs)
    cov["distinct_nontrivial"] = nontrivial
    cov["rule"] = ("requests from harness `c08-gen` (G-wild: random triclinic / nearly singular (volume/|a||b||c| down to 1e-6) / high-symmetry-perturbed / "
                   "supercell / Hall-number crystals, pairs closer than symprec and coincident atoms of equal or different species, 1..64 atoms, scales "
                   "1e-3..1e4, symprec 1e-8..5 (0.1 over-represented), angle tolerance Default / Radian 1e-4..1, every Setting incl. Hall numbers "
                   "-5, 0, 531, i32::MIN, i32::MAX; the same cells with Collinear / NonCollinear moments, both actions, mag_symprec None / 1e-8..5 incl. "
                   "loose 0.1..3; skewed and elongated bases for the three lattice reductions; HNF/SNF on 3x3, 3xn, 9kx9, 3kx3 shapes; every public "
                   "table look-up on 30 out-of-range integers) plus malformed Hall symbols (`malformed-gen` mutations, non-ASCII / numeric oddities / "
                   "random operator combinations); a request counts as non-trivial when it is distinct and reaches the retry loop (at least one "
                   "ToleranceHandler::update recorded) or an error path (Err(..) / None returned, or a panic / stall observed)")
    cov["outcomes"] = dict(sorted(outcomes.items()))
    cov["error_kinds_hit"] = dict(sorted(errkinds.items()))
    cov["atoms"] = dict(sizes)
    cov["symprec_decades"] = dict(sorted(decades.items()))
    cov["cell_families"] = dict(tags)
    cov["settings"] = dict(settings)
    cov["magnetic_kinds"] = dict(magk)
    samp = [i for i, q in enumerate(all_reqs) if q.startswith("wds") and field(all_ans[i], "trace")][:2] + \
           [i for i, q in enumerate(all_reqs) if q.startswith("wmag")][:1] + [i for i, q in enumerate(all_reqs) if q.startswith("whall")][-1:]
    cov["samples"] = [dict(describe(all_reqs[i]), answer=all_ans[i][:200]) for i in samp]
    cov["exhaustive"] = False

    # ---- obligations that do not check
    if n_viol == 0 and (ob["failures"] or unmatched or mism12):
        lines = []
        found_for_site = None
        if unmatched:
            lines.append("panic sites without a discharge record (Moyo/Model/C08Discharge.lean; file|fn|kind|line|expression):")
            lines += ["  " + u for u in unmatched[:40]]
            # a failing input located in one of these functions (then it is one of the listed known findings)?
            fns = {(u.split("|")[0], u.split("|")[1]) for u in unmatched}
            for q, a in failing:
                if head_of(a).startswith("PANIC"):
                    _, loc = panic_key(q, a)
                    if loc and not loc[0].startswith("/") and (loc[0], fn_at(loc[0], loc[1])) in fns:
                        found_for_site = (q, a)
                        break
            lines.append(f"focused exploration ({focus}) over {len(all_reqs)} requests: " +
                         ("a failing input reaching such a site was found (listed as known finding or below)" if found_for_site
                          else "no failing input reaching these sites was found"))
        if ob["failures"]:
            lines.append("proof obligations that no longer check:")
            lines += ["  " + f for f in ob["failures"]]
        if mism12:
            lines.append(f"S12 (Lean retry model vs. recorded tolerance updates) disagrees on {len(mism12)} of {n12} cases; first:")
            for q, why in mism12[:5]:
                lines.append("  " + why + "\n    request: " + q[:400])
        lines.append(f"no panic, stall or abort outside the listed known findings in {len(all_reqs)} isolated evaluations (seed {seed}, tier {tier})")
        run.violation("unchecked.txt", "\n".join(lines), no_input=True)
    return run.finish()


def replay(path):
    txt = open(path).read()
    okb, err = vlib.build_harness()
    if not okb:
        print("harness build failed:\n" + err)
        print(f"VIOLATION property=C08 replay={path}")
        return 1
    try:
        d = json.loads(txt)
    except ValueError:
        d = None
    if d and "request" in d:
        q = d["request"]
        deadline = float(d.get("deadline_s", BASE_DEADLINE))
        a = eval_isolated([q], "c08_replay", deadline=deadline, mem_gb=int(d.get("mem_gb", MEM_GB)), workers=1)[0]
        print("request:", q[:2000])
        print("entry point:", entry_of(q))
        print("answer:", a[:1000])
        if is_failure(a):
            h = head_of(a)
            if h.startswith("PANIC"):
                print("key:", panic_key(q, a)[0])
            else:
                fr = moyo_frame(q)
                print("key:", f"unbounded:{fr}" if fr else f"unbounded:{entry_of(q)}:?")
            print(f"VIOLATION property=C08 replay={path}")
            return 1
        print("no violation on the current tree")
        return 0
    # an obligation replay: re-check the theorems and the inventory
    vlib.translate()
    inv = run_inventory()
    ob = vlib.proof_obligations(PROPS)
    und = undischarged_sites()
    bad = list(ob["failures"])
    if not inv["ok"]:
        bad.append("inventory: " + inv["err"][-500:])
    if und is None:
        bad.append("discharge table could not be evaluated")
    else:
        known = {k["key"] for k in vlib.load_known() if k["property"] == "C08"}
        bad += ["undischarged site " + u for u in und[0]]
        bad += [f"known-finding key not listed: {k[0]} ({k[1]} {k[2]})" for k in und[1] if k[0] not in known]
    for b in bad[:40]:
        print(b)
    if bad:
        print(f"VIOLATION property=C08 replay={path} no-failing-input-found")
        return 1
    print("all C08 obligations check on the current tree")
    return 0
