"""Stage correspondence for the magnetic identification and standardization stages S5m, S6m (harness `mag-id-gen`,
harness/src/magid.rs; Lean models Moyo/Model/StageMagIdentify.lean, Moyo/Model/StageMagStd.lean, driver
Moyo/Model/DriverMagId.lean).  Same shape as checks/stages_mag.py: `run_stages(kinds, tier, seed, key)` returns
(number of stage cases compared, list of (request, message), stats); kinds other than s5m / s6m are delegated to
checks/stages_mag.py, so checks/magpipe.py can use this module for every magnetic stage.

  s5m   MagneticSpaceGroup::new(prim_mag_operations, epsilon).  The model is exact and complete: construct type from XSG / FSG,
        SpaceGroup::new on the reference group (stage model S5), the UNI numbers of the family in table order, the integral
        normalizer of the tabulated reference group (type III) or the anti-translation conjugator (type IV), and the comparison
        with the tabulated magnetic operations.  No oracle parameter.  Compared: outcome / error kind, uni_number, construct type,
        |XSG|, |FSG|, the type-II flag, the linear part of the transformation exactly, its origin shift modulo 1 to 1e-9.
        Requests with `row u` (table rows `t<u>` — all 1651 in every tier — and their re-based versions with the translations
        reduced into [0,1) `-re0` / (-0.5,0.5] `-re1`; thorough: both for every number plus unreduced `-raw` rows; quick: a
        seed-dependent third / sixth): the model also evaluates the executable soundness statement on its own answer
        (`row 1`); a `row 0` is reported as a disagreement of the table theorem.  The fragility band (three evaluations of the
        model) shares one computation of the normalizer of the tabulated reference group (see DriverMagId.lean).
  s6m   StandardizedMagneticCell::new.  Oracle parameters taken from the implementation's output of the same line, checked
        by the model: `rot` (rotation_matrix of the QR step) and `impltlinear` (monoclinic tie), as for stage S6.
        Compared: outcome / error kind, transformation (linear exact, origin shifts 1e-9), site mapping, species, lattices
        (1e-9 of the largest entry), positions modulo 1 and moments to 1e-8, rotation-matrix sanity numbers.  The model
        mirrors the repair 1c2f2a9 (type IV: positions averaged over the anti-translation before the reference
        standardization) and reports, per case, the hypotheses and conclusions of the stage theorems (`hyp`, `mhyp`, `ahyp`
        segments: reynolds_positions, reynolds_moments_exact, mag_positions_invariant); a case where hypotheses hold and a
        conclusion fails is reported as a broken model.
Cases the model tags fragile (a translation difference within 1e-9 of epsilon, a rounding at ±1/2, a Wyckoff / Niggli /
monoclinic threshold) are counted, not compared.

On a disagreement `failing_inputs` puts the disagreeing crystal-driven cases through the real pipeline and the verified Lean
oracles (`mds`, checkC12 / checkC13) exactly as checks/magpipe.py does; a case whose oracle verdict is false is a failing
input (returned in `stats["failing_inputs_<pid>"]` with its `mds` case line, and appended to the list of disagreements).
When there is none the caller reports the broken correspondence with `no_input=True` (checks/magpipe.py does that for
`stage_bad` after its own exploration with the same oracles found nothing: `VIOLATION … no-failing-input-found`).
"""
import collections
import os
import subprocess
from fractions import Fraction

import vlib

TOL = Fraction(1, 10 ** 9)
TOL8 = Fraction(1, 10 ** 8)
KINDS = ("s5m", "s6m")
STATS = collections.Counter()


def segs(line):
    d = {}
    parts = line.split(" ; ")
    d["_head"] = parts[0].split()
    for p in parts:
        t = p.split()
        if t:
            d.setdefault(t[0], t[1:])
    return d


def request(kind, req, exp):
    """Request line sent to the model: for s6m the oracle parameters from the implementation's output are appended."""
    if kind == "s6m" and exp.startswith("ok"):
        e = segs(exp)
        if "rot" in e and "tlinear" in e:
            return req + " ; rot " + " ".join(e["rot"]) + " ; impltlinear " + " ".join(e["tlinear"])
    return req


def cmp_exact(names, e, o):
    for name in names:
        if e.get(name) != o.get(name):
            return f"{name}: model {' '.join(o.get(name, ['<missing>']))[:100]} vs implementation {' '.join(e.get(name, ['<missing>']))[:100]}"
    return None


def cmp_floats(name, e, o, mod1=False, rel_to_max=False, tol=TOL):
    if name not in e or name not in o or len(e[name]) != len(o[name]):
        return f"{name}: length {len(o.get(name, []))} vs {len(e.get(name, []))}"
    x = [vlib.parse_num(t) for t in e[name]]
    y = [vlib.parse_num(t) for t in o[name]]
    scale = max([abs(v) for v in x] + [Fraction(1)]) if rel_to_max else None
    for k, (a, b) in enumerate(zip(x, y)):
        d = a - b
        if mod1:
            d -= round(d)
        s = scale if scale is not None else max(Fraction(1), abs(a), abs(b))
        if abs(d) > tol * s:
            return f"{name}[{k}]: model {float(b)!r} vs implementation {float(a)!r}"
    return None


def head_outcome(kind, e, o, out, stats, fragile):
    """Common part: model failure, fragile, outcome kinds. Returns (done, message)."""
    eh, oh = e["_head"], o["_head"]
    if not oh or oh[0] in ("bad-case", "bad-op", "MODEL-CRASH"):
        return True, f"model could not answer: {out[:200]}"
    if oh[0] == "MISMATCH":
        return True, "model rejects an oracle parameter: " + " ".join(oh[1:])
    if fragile:
        stats[kind + "_fragile"] += 1
        for f in fragile:
            stats[kind + "_fragile:" + f] += 1
        return True, None
    stats[kind + "_compared"] += 1
    if eh[0] != oh[0]:
        return True, f"outcome: model {' '.join(oh)[:100]} vs implementation {' '.join(eh)[:100]}"
    if eh[0] == "err":
        stats[kind + "_err:" + " ".join(eh[1:2])] += 1
        return False, (None if eh[1:2] == oh[1:2] else f"error kind: model {oh[1:2]} vs implementation {eh[1:2]}")
    if eh[0] == "PANIC":
        stats[kind + "_panic"] += 1
        return True, None
    return False, None


def compare(kind, exp, out, stats, req=None):
    for k in KINDS:
        stats[k + "_compared"] += 0
        stats[k + "_fragile"] += 0
    e, o = segs(exp), segs(out)
    if kind == "s5m":
        fragile = ["epsilon"] if o.get("fragile") == ["1"] else []
        done, m = head_outcome(kind, e, o, out, stats, fragile)
        if done or m:
            return m
        m = cmp_exact(["nxsg", "nfsg", "type2"], e, o)
        if m:
            return m
        if e["_head"][0] == "err":
            return None
        m = cmp_exact(["uni", "ctype", "ulinear"], e, o) or cmp_floats("ushift", e, o, mod1=True)
        if m:
            return m
        stats["s5m_ctype:" + e["ctype"][0]] += 1
        if "row" in o:
            stats["s5m_table_rows"] += 1
            if o["row"] != ["1"]:
                return ("table row: the model's answer is not the tabulated UNI number with matching operations "
                        f"(uni {o.get('uni')}, row check {o['row']})")
        return None
    if kind == "s6m":
        fragile = [f for f in o.get("fragile", ["-"])[0].split(",") if f != "-"]
        if e["_head"][:1] in (["err"], ["PANIC"]):
            # no oracle parameter is available when the implementation refuses: the outcome does not depend on the rotation
            fragile = [f for f in fragile if f != "no-rot"]
        done, m = head_outcome(kind, e, o, out, stats, fragile)
        if done or m:
            return m
        if e["_head"][0] == "err":
            return None
        m = cmp_exact(["primn", "primnum", "stdn", "stdnum", "ptlinear", "tlinear", "sitemap"], e, o)
        if m:
            return m
        for name, mod1, rel, tol in (("ushift", False, False, TOL), ("tshift", False, False, TOL), ("primpos", True, False, TOL8),
                                    ("stdpos", True, False, TOL8), ("primlat", False, True, TOL), ("stdlat", False, True, TOL),
                                    ("primmom", False, True, TOL8), ("stdmom", False, True, TOL8)):
            m = cmp_floats(name, e, o, mod1, rel, tol)
            if m:
                return m
        orth, detq, lowtri, mdev = [vlib.parse_num(t) for t in o["rotchk"]]
        if orth > TOL:
            return f"rotation_matrix: |Q^T Q - I| = {float(orth):.3e}"
        if detq <= 0:
            return f"rotation_matrix: det Q = {float(detq):.3e}"
        if mdev <= Fraction(1, 10 ** 12) and lowtri > TOL8:
            return f"rotation_matrix: Q A_std has a below-diagonal entry of relative size {float(lowtri):.3e} for an exactly symmetric metric"
        stats["s6m_ctype:" + o.get("ctype", ["?"])[0]] += 1
        stats["s6m_branch:" + o.get("branch", ["?"])[0]] += 1
        hc, hs, inv = o["hyp"]
        mh, minv, mstd = o["mhyp"]
        stats["s6m_hyp_positions"] += hc == "1" and hs == "1"
        stats["s6m_positions_exactly_invariant"] += inv == "1"
        stats["s6m_hyp_moments"] += mh == "1"
        stats["s6m_moments_exactly_invariant"] += minv == "1"
        stats["s6m_std_moments_exactly_invariant"] += mstd == "1"
        if hc == "1" and hs == "1" and inv != "1":
            return "model: hypotheses of reynolds_positions hold but the symmetrised positions are not exactly invariant"
        if mh == "1" and (minv != "1" or mstd != "1"):
            return "model: hypothesis of reynolds_moments_exact holds but the symmetrised moments are not exactly invariant"
        if o.get("ctype") == ["4"]:
            ah, ainv = o.get("ahyp", ["0", "0"])
            stats["s6m_type4_hyp_anti"] += ah == "1"
            stats["s6m_type4_anti_exactly_invariant"] += ainv == "1"
            if ah == "1" and hc == "1" and hs == "1" and ainv != "1":
                return "model: hypotheses of mag_positions_invariant hold but the positions are not exactly invariant under the anti-translation"
        if req is not None and "-disp" in req.split(" ", 2)[1]:
            stats["s6m_displaced_twins"] += 1
        return None
    return f"unknown stage kind {kind}"


def generate(tier, seed, cases):
    """Run `mag-id-gen` in parallel partitions (every random choice is seeded by (seed, uni): same lines as one run)."""
    nparts = max(1, min(vlib.NCPU, 12))
    env = dict(vlib.ENV)
    env["VERIF_SEED"] = str(seed)
    procs = []
    for p in range(nparts):
        part = f"{cases}.part{p}"
        procs.append((part, subprocess.Popen([vlib.HARNESS_BIN, "mag-id-gen", tier, part, str(p), str(nparts)], env=env,
                                             stdout=subprocess.DEVNULL, stderr=subprocess.PIPE, text=True)))
    lines = []
    for part, pr in procs:
        _, err = pr.communicate()
        if pr.returncode != 0:
            raise RuntimeError("mag-id-gen failed: " + err[-2000:])
        lines += [l.rstrip("\n") for l in open(part)]
        os.unlink(part)
    with open(cases + ".tmp", "w") as f:
        f.write("\n".join(lines) + "\n")
    os.replace(cases + ".tmp", cases)


def run_own(kinds, tier, seed, key):
    cdir = os.path.join(vlib.WORK, "magcache", key)
    os.makedirs(cdir, exist_ok=True)
    cases = os.path.join(cdir, f"magid_{tier}_{seed}.cases")
    with vlib.Lock(f"magid_{tier}_{seed}"):
        if not os.path.exists(cases):
            generate(tier, seed, cases)
        reqs, exps = vlib.read_cases(cases)
        sel = [i for i, q in enumerate(reqs) if q.split(" ", 1)[0] in kinds]
        ocache = os.path.join(cdir, f"magidout_{'_'.join(sorted(set(kinds)))}_{tier}_{seed}.out")
        outs = [l.rstrip("\n") for l in open(ocache)] if os.path.exists(ocache) else []
        if len(outs) != len(sel) or any(o.startswith("MODEL-CRASH") for o in outs):
            outs = vlib.run_model([request(reqs[i].split(" ", 1)[0], reqs[i], exps[i]) for i in sel])
            with open(ocache + f".{os.getpid()}.tmp", "w") as f:
                f.write("\n".join(outs) + "\n")
            os.replace(ocache + f".{os.getpid()}.tmp", ocache)
    stats = collections.Counter()
    bad = []
    for i, o in zip(sel, outs):
        m = compare(reqs[i].split(" ", 1)[0], exps[i], o, stats, req=reqs[i])
        if m:
            bad.append((reqs[i], m))
    return len(sel), bad, dict(stats)


def failing_inputs(bad, tier, seed, pid):
    """Search for a failing input among the disagreeing cases: every disagreeing crystal-driven case (tag `u<uni>-…`) is
    regenerated through the real pipeline (`mag-one`) and judged by the verified Lean oracle (`mds`, checkC12 / checkC13).
    Returns a list of (tag, mds line, failed clauses of property `pid`)."""
    from checks import magpipe
    found, seen = [], set()
    for q, _ in bad:
        tag = q.split(" ")[1]
        base = tag.split("-disp")[0].split("-sib")[0].split("-pert")[0]
        if not base.startswith("u") or base in seen:
            continue
        seen.add(base)
        r = vlib.harness(["mag-one", tier, base], seed=seed)
        line = r.stdout.strip()
        if not line.startswith("mds "):
            continue
        p = magpipe.parse_answer(vlib.run_model([line])[0])
        mine = [f for f in (p["fails"] if p else []) if f.startswith(pid)]
        if mine:
            found.append((base, line, mine))
        if len(seen) >= 40:
            break
    return found


def run_stages(kinds, tier, seed, key):
    """Same contract as checks/stages_mag.run_stages; handles s5m / s6m here and delegates every other kind."""
    own = [k for k in kinds if k in KINDS]
    other = [k for k in kinds if k not in KINDS]
    n, bad, stats = 0, [], {}
    if other:
        from checks import stages_mag
        n, bad, stats = stages_mag.run_stages(other, tier, seed, key)
    if own:
        n2, bad2, stats2 = run_own(own, tier, seed, key)
        n += n2
        bad = bad + bad2
        stats.update(stats2)
        if bad2:
            # the disagreeing inputs themselves go through the property's oracle first (DESIGN 2.5 step 3); a hit is a
            # failing input: `stats["failing_inputs_<pid>"]` carries tag, failed clauses and the `mds` case line (replay)
            pids = [p for p, k in (("C12", "s5m"), ("C13", "s6m")) if k in own]
            for pid in pids:
                try:
                    hits = failing_inputs(bad2, tier, seed, pid)
                except Exception as ex:   # the search is an aid: never hide the disagreement behind it
                    hits = []
                    stats[f"failing_input_search_error_{pid}"] = str(ex)[:200]
                stats[f"failing_inputs_found_{pid}"] = len(hits)
                if hits:
                    stats[f"failing_inputs_{pid}"] = [{"tag": t, "clauses": " || ".join(m)[:600], "case": l} for t, l, m in hits[:5]]
                for tag, _, mine in hits[:5]:
                    bad.append((f"mds {tag}", f"oracle verdict on the disagreeing input: {' || '.join(mine)[:300]}"))
    STATS.clear()
    STATS.update(stats)
    return n, bad, stats
