"""C20 — the Python bindings are a faithful view of the Rust results.

Three engines:
 (1) translator `tools/translate_c20.py` (moyopy/src/** -> Moyo/Generated/C20Bindings.lean) + table theorems of
     `Moyo/Props/C20.lean` (conversion class of every matrix getter yields the documented orientation, vector
     getters are plain, defaults, ValueError mapping) + theorems about the column-major storage model;
 (2) the Lean storage model is compared with the real nalgebra conversions (`c20-model` / driver `c20conv`);
 (3) dynamic comparison (the main detector): the extension module is built from the current tree
     (own target dir), installed next to a copy of python/moyopy, and for every generated input and keyword
     combination every attribute of every returned object is compared with the Rust value computed in-process
     by the harness (floats bitwise); a bad-argument stream must raise ValueError.

break -> search -> verdict: a theorem / translator break is not a violation by itself; the dynamic comparison
(with a tripled budget) looks for a concrete Python call whose result differs from Rust.  Found -> that call is the
replay.  Not found -> `... no-failing-input-found` naming the obligation.
"""
import atexit
import json
import os
import re
import shutil
import sys
import time

import vlib
from vlib import log

PROPS = [("Moyo.Props.C20", "Moyo/Props/C20.lean")]
TARGET_PY = os.path.join(os.path.dirname(vlib.WORK) if os.environ.get("VERIF_REPO") else vlib.CACHE, "target-py20")
PYMOD = os.path.join(os.path.dirname(vlib.WORK) if os.environ.get("VERIF_REPO") else vlib.CACHE, "pymod20")
PYCHECK = os.path.join(vlib.VERIF, "pycheck")
TRANSLATOR = os.path.join(vlib.VERIF, "tools", "translate_c20.py")
GENERATED = os.path.join(vlib.LEAN, "Moyo", "Generated", "C20Bindings.lean")
GOOD_COPY = os.path.join(vlib.WORK, "C20Bindings.lastgood.lean")

PYENV = "/root/.pyenv/versions/3.11.7"


def python_cmd():
    """(interpreter, extra env) of the CPython the extension is imported under."""
    exe = os.environ.get("VERIF_PYTHON") or os.path.join(PYENV, "bin", "python3")
    if not os.path.exists(exe):
        exe = sys.executable
    prefix = os.path.dirname(os.path.dirname(os.path.realpath(exe)))
    return exe, {"LD_LIBRARY_PATH": os.path.join(prefix, "lib") + ":" + os.environ.get("LD_LIBRARY_PATH", "")}


# ------------------------------------------------------------------------------------------------
# builds

def translate():
    with vlib.Lock("lake"):
        r = vlib.sh([sys.executable, TRANSLATOR], cwd=vlib.VERIF)
    return r.returncode == 0, (r.stdout + r.stderr).strip()


def module_layout():
    """Where maturin would put things, read from the crate's own metadata."""
    cargo = open(os.path.join(vlib.REPO, "moyopy", "Cargo.toml")).read()
    pyproj = open(os.path.join(vlib.REPO, "moyopy", "pyproject.toml")).read()
    m = re.search(r"\[lib\][^\[]*?name\s*=\s*\"(\w+)\"", cargo, flags=re.S)
    libname = m.group(1) if m else "moyopy"
    m = re.search(r"module-name\s*=\s*\"([\w.]+)\"", pyproj)
    modname = m.group(1) if m else "moyopy._moyopy"
    m = re.search(r"python-source\s*=\s*\"([\w./]+)\"", pyproj)
    pysrc = m.group(1) if m else "python"
    pkg, ext = modname.rsplit(".", 1)
    suffix = ".abi3.so" if "abi3" in cargo else ".so"
    return libname, pkg, ext + suffix, pysrc


_installed = []


def _cleanup_installed():
    for d in _installed:
        shutil.rmtree(d, ignore_errors=True)


atexit.register(_cleanup_installed)


def build_extension(profile):
    """cargo build -p moyopy from the current tree into our own target dir, then install a fresh copy of the
    Python package with the extension module next to __init__.py.  Returns (ok, message, module dir)."""
    env = dict(os.environ)
    env.update({"CARGO_NET_OFFLINE": "true", "CARGO_TARGET_DIR": TARGET_PY})
    cmd = ["cargo", "build", "-p", "moyopy", "--offline"] + (["--release"] if profile == "release" else [])
    t = time.time()
    with vlib.Lock("cargo-py20"):
        r = vlib.sh(cmd, cwd=vlib.REPO, env=env)
        if r.returncode != 0:
            return False, r.stderr[-6000:], None
        libname, pkg, modfile, pysrc = module_layout()
        lib = os.path.join(TARGET_PY, "release" if profile == "release" else "debug", f"lib{libname}.so")
        if not os.path.exists(lib):
            return False, f"built library not found: {lib}", None
        dest = os.path.join(PYMOD, f"{profile}-{os.getpid()}")   # per process: concurrent runs do not share a module dir
        _installed.append(dest)
        pkgdir = os.path.join(dest, *pkg.split("."))
        shutil.rmtree(dest, ignore_errors=True)
        shutil.copytree(os.path.join(vlib.REPO, "moyopy", pysrc, *pkg.split(".")), pkgdir)
        shutil.copy2(lib, os.path.join(pkgdir, modfile))
    log(f"[build] moyopy extension ({profile}) ok in {time.time()-t:.1f}s -> {pkgdir}/{modfile}")
    return True, "", dest


def run_py(script, args, moddir, timeout=3600):
    exe, extra = python_cmd()
    env = dict(os.environ)
    env.update(extra)
    env["PYTHONPATH"] = moddir
    env["PYTHONDONTWRITEBYTECODE"] = "1"
    return vlib.sh([exe, os.path.join(PYCHECK, script)] + args, env=env, timeout=timeout)


# ------------------------------------------------------------------------------------------------
# the dynamic comparison

def gen_cases(tier, seed, tag):
    path = os.path.join(vlib.WORK, f"c20_{tag}_{seed}.jsonl")
    r = vlib.harness(["c20-gen", tier, path], seed=seed)
    if r.returncode != 0:
        return None, r.stderr[-3000:]
    return path, ""


def compare(cases, moddir, tag):
    rep = os.path.join(vlib.WORK, f"c20_report_{tag}.json")
    if os.path.exists(rep):
        os.unlink(rep)
    r = run_py("c20_compare.py", [cases, rep], moddir)
    if r.returncode != 0 or not os.path.exists(rep):
        return None, (r.stdout + r.stderr)[-4000:]
    return json.load(open(rep)), ""


def badargs(moddir, tag, only=None):
    rep = os.path.join(vlib.WORK, f"c20_badargs_{tag}.json")
    if os.path.exists(rep):
        os.unlink(rep)
    r = run_py("c20_badargs.py", [rep] + (["--only", only] if only else []), moddir)
    if r.returncode != 0 or not os.path.exists(rep):
        return None, (r.stdout + r.stderr)[-4000:]
    return json.load(open(rep)), ""


def case_line(cases, cid):
    with open(cases) as f:
        for line in f:
            if f'"id":"{cid}"' in line:
                return json.loads(line)
    return None


def mismatch_key(m):
    if m["kind"] == "panic":
        return "panic-surfaces:" + m["rust"].rsplit("@", 1)[-1].strip().rsplit(":", 1)[0]
    attr = re.sub(r"^(input|std_cell|prim_std_cell|std_mag_cell|prim_std_mag_cell|operations|magnetic_operations)\.", "", m["attr"])
    return f"mismatch:{m['kind']}:{attr}"


def minimal_replay(cases, m):
    """the case restricted to the failing run (structure cases) or the failing row / call (tables)"""
    case = case_line(cases, m["id"])
    if case is None:
        return {"kind": "compare", "case": None, "mismatch": m}
    if "runs" in case and m.get("run") is not None:
        case["runs"] = [case["runs"][m["run"]]]
    elif "rows" in case:
        want = re.search(r"\((-?\d+)\)", m.get("desc", ""))
        if want:
            keyname = {"hall_entries": "hall_number", "space_group_types": "number", "magnetic_space_group_types": "uni_number"}[case["kind"]]
            case["rows"] = [r for r in case["rows"] if r[keyname] == int(want.group(1))]
    elif "runs" in case:
        case["runs"] = case["runs"][:1]
    return {"kind": "compare", "case": case, "mismatch": m}


def broken_theorems(failures):
    """names of the theorems of Props/C20.lean at whose lines lake reported errors"""
    lines = set()
    for f in failures:
        for m in re.finditer(r"Moyo/Props/C20\.lean:(\d+):", f):
            lines.add(int(m.group(1)))
    if not lines:
        return []
    src = open(os.path.join(vlib.LEAN, PROPS[0][1])).read().splitlines()
    names = []
    for ln in sorted(lines):
        for k in range(min(ln, len(src)) - 1, -1, -1):
            m = re.match(r"\s*theorem\s+(\S+)", src[k])
            if m:
                if m.group(1) not in names:
                    names.append(m.group(1))
                break
    return names


# ------------------------------------------------------------------------------------------------

def run(tier, seed):
    run = vlib.Run("C20", tier, seed, "translation_validation")
    cov = run.coverage
    cov.update({"programs": 0, "disagreements_checked": 0, "samples": []})

    # ---- (1) translator + theorems
    okt, tmsg = translate()
    log("[translate_c20]", tmsg.splitlines()[-1] if tmsg else "")
    ob = vlib.proof_obligations(PROPS) if okt else {"obligations": len(vlib.theorem_names(PROPS[0][1])), "discharged": 0,
                                                      "failures": ["translator failed: " + tmsg], "names": []}
    okm, mout = vlib.lake_build(["moyo_model"])
    cov["obligations"] = ob["obligations"]
    cov["discharged"] = ob["discharged"]
    cov["theorems"] = ob["names"]
    cov["checker_cmd"] = ("python3 tools/translate_c20.py && cd lean && lake build Moyo.Props.C20 && #print axioms on every theorem "
                          "(vlib.axiom_audit)")
    cov["trusted_base"] = vlib.TRUSTED_COMMON + [
        "tools/translate_c20.py (classifies getter bodies / signatures / error paths of moyopy/src into named classes; fails on anything unknown)",
        "CPython 3.11, pyo3 0.23 and pythonize: the conversion of Rust values ([[T;3];3], Vec, Option, String, ...) to Python objects is trusted; "
        "observed end to end by the dynamic comparison",
        "nalgebra layout (column-major storage, Into/AsRef<[[T;3];3]> reinterpret the storage): modelled in Moyo/Model/Bindings.lean, "
        "compared with the real nalgebra on random matrices on every run",
        "the Rust-side expectations are produced by the harness build of moyo (opt-level 2, overflow checks) while the extension is the "
        "release build; both are built from the same tree and f64 arithmetic is deterministic across optimisation levels (no fast-math)",
    ]
    proof_failures = list(ob["failures"])
    if not okm:
        proof_failures.append("moyo_model failed to build: " + mout[-1500:])
    if not proof_failures and os.path.exists(GENERATED):
        shutil.copy2(GENERATED, GOOD_COPY)

    # ---- builds of the two sides
    okh, err = vlib.build_harness()
    if not okh:
        run.violation("harness_build.txt", "harness/moyo failed to build with hooks on:\n" + err, no_input=True)
        return run.finish()
    oke, err, moddir = build_extension("release")
    if not oke:
        run.violation("extension_build.txt", "cargo build -p moyopy --release failed on the current tree:\n" + err, no_input=True)
        return run.finish()

    # ---- (2) storage model vs nalgebra
    model_mism = []
    if okm:
        mc = os.path.join(vlib.WORK, f"c20_model_{seed}.cases")
        r = vlib.harness(["c20-model", "300" if tier == "quick" else "3000", mc], seed=seed)
        if r.returncode == 0:
            reqs, exps = vlib.read_cases(mc)
            outs = vlib.run_model(reqs)
            model_mism = [(q, e, o) for q, e, o in zip(reqs, exps, outs) if e != o]
            cov["layout_model_cases"] = len(reqs)
            cov["layout_model_disagreements"] = len(model_mism)
        else:
            proof_failures.append("c20-model failed: " + r.stderr[-500:])
    if model_mism:
        proof_failures.append("Lean storage model disagrees with nalgebra: " + " | ".join(f"{q} impl={e} model={o}" for q, e, o in model_mism[:5]))

    # ---- (3) dynamic comparison
    reports = []
    budgets = [(tier, seed, "main")]
    if proof_failures:
        # search: tripled budget, other seeds
        budgets += [(tier, seed + 1000003 * k, f"search{k}") for k in (1, 2)]
    all_mism = []
    drift = []
    uncovered = {}
    for (t, s, tag) in budgets:
        cases, err = gen_cases(t, s, f"{tier}_{tag}")
        if cases is None:
            run.violation("harness_run.txt", "c20-gen failed:\n" + err, no_input=True)
            return run.finish()
        rep, err = compare(cases, moddir, f"{tier}_{tag}")
        if rep is None:
            run.violation("python_run.txt", "pycheck/c20_compare.py failed (the built extension could not be imported or the script crashed):\n" + err,
                          no_input=True)
            return run.finish()
        reports.append(rep)
        for m in rep["mismatches"]:
            all_mism.append((cases, m))
        drift += rep["drift"]
        for k, v in rep["uncovered"].items():
            uncovered[k] = v
        if all_mism:
            break
    main = reports[0]
    structs = sum(main["cases"].get(k, 0) for k in ("cell", "collinear", "noncollinear"))
    cov["programs"] = sum(r["runs"] for r in reports)
    cov["inputs"] = structs
    cov["input_kinds"] = main["cases"]
    cov["attributes_compared"] = sum(r["compared"] for r in reports)
    cov["attributes_by_class"] = main["by_class"]
    cov["matrices_compared"] = sum(r["matrices_compared"] for r in reports)
    cov["nonsymmetric_matrices_compared"] = sum(r["nonsymmetric_matrices_compared"] for r in reports)
    cov["outcomes"] = main["outcomes"]
    cov["float_drift"] = len(drift)
    cov["moyopy_version"] = main["moyopy_version"]
    cov["python"] = main["python"]
    cov["samples"] = main["samples"][:8] or [{"note": "no non-symmetric matrix was compared"}]
    cov["exhaustive_tables"] = "HallSymbolEntry 1..530, SpaceGroupType 1..230, MagneticSpaceGroupType 1..1651, operations_from_number 230 x 4 settings + 530 Hall numbers"

    bad, err = badargs(moddir, f"{tier}_release")
    if bad is None:
        run.violation("python_run.txt", "pycheck/c20_badargs.py failed:\n" + err, no_input=True)
        return run.finish()
    cov["bad_argument_calls"] = bad["calls"]
    cov["bad_argument_by_category"] = bad["by_category"]
    cov["programs"] += bad["calls"]

    # thorough: the same stream on a debug-profile build (overflow checks on); panics that only this build shows are
    # integer-overflow panics of the table look-ups and are reported under C08, here only recorded.
    if tier == "thorough":
        okd, err, moddir_dbg = build_extension("debug")
        if okd:
            bd, err = badargs(moddir_dbg, f"{tier}_debug")
            if bd is not None:
                rel_fail = {f["label"] for f in bad["failures"]}
                only_dbg = [f for f in bd["failures"] if f["label"] not in rel_fail]
                cov["overflow_checks_only_panics"] = [f"{f['label']} -> {f['outcome']}: {f['message']} @ {f['panic_site']}" for f in only_dbg]
        else:
            cov["overflow_checks_only_panics"] = ["debug build failed: " + err[-300:]]

    # ---- verdicts
    checked = 0
    seen_keys = set()
    new_badarg = False
    for cases, m in all_mism:
        key = mismatch_key(m)
        checked += 1
        if key in seen_keys:
            continue
        seen_keys.add(key)
        name = "compare_" + re.sub(r"[^A-Za-z0-9_.-]+", "_", key)[:80] + ".json"
        run.violation(name, minimal_replay(cases, m), key=key)
    for f in bad["failures"]:
        checked += 1
        if f["key"] in seen_keys:
            continue
        seen_keys.add(f["key"])
        name = "badarg_" + re.sub(r"[^A-Za-z0-9_.-]+", "_", f["key"])[:80] + ".json"
        same = [g for g in bad["failures"] if g["key"] == f["key"]]
        if run.violation(name, {"kind": "badarg", "key": f["key"], "label": f["label"], "observed": f,
                                "all_calls_with_this_key": [g["label"] for g in same]}, key=f["key"]):
            new_badarg = True
    cov["disagreements_checked"] = checked
    if drift:
        log(f"[C20] {len(drift)} float(s) differ bitwise but agree to 1e-12 (reported in evidence, not a violation); first: {drift[0]}")
        cov["float_drift_first"] = drift[0]

    # A broken obligation is explained by a found input only if that input is of the matching kind: a Python/Rust
    # value mismatch explains anything; a new bad-argument failure explains only the error-path obligations.
    broken = broken_theorems(proof_failures)
    error_path_only = bool(broken) and set(broken) <= {"unwrap_inventory", "errors_are_value_errors"} and len(proof_failures) == 1
    found_input = bool(all_mism) or (new_badarg and error_path_only)
    if (proof_failures or uncovered) and not found_input:
        lines = []
        if proof_failures:
            lines.append("obligations that no longer check (translator / Moyo/Props/C20.lean / storage model):")
            lines += ["  " + f for f in proof_failures]
            if broken:
                lines.append("theorems of Moyo/Props/C20.lean that fail: " + ", ".join(broken))
            if os.path.exists(GOOD_COPY) and os.path.exists(GENERATED):
                import difflib
                d = list(difflib.unified_diff(open(GOOD_COPY).read().splitlines(), open(GENERATED).read().splitlines(),
                                              "last generated inventory that proved", "current generated inventory", lineterm="", n=0))
                lines.append("rows of the regenerated inventory that changed since the theorems last checked:")
                lines += ["  " + x for x in d[:60]]
        if uncovered:
            lines.append("public attributes of the Python classes that the comparison schema does not cover "
                         "(new attributes: extend pycheck/c20_compare.py): " + json.dumps(uncovered))
        lines.append(f"search: {cov['programs']} calls, {cov['attributes_compared']} attribute comparisons over seeds "
                     f"{[b[1] for b in budgets]} and the bad-argument stream found no Python result that differs from Rust")
        run.violation("unchecked.txt", "\n".join(lines), no_input=True)
    elif proof_failures:
        log("[C20] obligations broken AND a failing input was found; obligations: " + " | ".join(proof_failures)[:1500])
        cov["broken_obligations"] = proof_failures[:10]
    return run.finish()


# ------------------------------------------------------------------------------------------------

def replay(path):
    txt = open(path).read()
    try:
        rp = json.loads(txt)
    except ValueError:
        rp = {"kind": "unchecked"}
    rc = 0
    if rp.get("kind") == "unchecked":
        okt, tmsg = translate()
        ob = vlib.proof_obligations(PROPS) if okt else {"failures": ["translator failed: " + tmsg]}
        print("translator:", tmsg)
        for f in ob["failures"]:
            print("obligation:", f)
        rc = 1 if ob["failures"] else 0
        if rc:
            print(f"VIOLATION property=C20 replay={path} no-failing-input-found")
        return rc
    okh, err = vlib.build_harness()
    oke, err2, moddir = build_extension("release")
    if not (okh and oke):
        print("build failed:", err, err2)
        print(f"VIOLATION property=C20 replay={path} no-failing-input-found")
        return 1
    if rp["kind"] == "badarg":
        rep, err = badargs(moddir, "replay", only=rp["label"])
        if rep is None:
            print(err)
            return 1
        for r in rep["results"]:
            print(f"{r['label']} -> {r['outcome']}: {r['message']} {('@ ' + r['panic_site']) if r['panic_site'] else ''} [{r['verdict']}]")
        rc = 1 if rep["failures"] else 0
    elif rp["kind"] == "compare" and rp.get("case"):
        inp = os.path.join(vlib.WORK, "c20_replay_in.jsonl")
        out = os.path.join(vlib.WORK, "c20_replay_out.jsonl")
        with open(inp, "w") as f:
            f.write(json.dumps(rp["case"]) + "\n")
        r = vlib.harness(["c20-eval", inp, out])
        if r.returncode != 0:
            print("c20-eval failed:", r.stderr[-2000:])
            return 1
        rep, err = compare(out, moddir, "replay")
        if rep is None:
            print(err)
            return 1
        print(f"runs={rep['runs']} attributes compared={rep['compared']} mismatches={len(rep['mismatches'])}")
        for m in rep["mismatches"][:20]:
            print(json.dumps(m))
        rc = 1 if rep["mismatches"] else 0
    else:
        print("replay file has no case")
        rc = 1
    if rc:
        print(f"VIOLATION property=C20 replay={path}")
    return rc
