"""C07 — orbits, Wyckoff letters and site-symmetry symbols match the real site symmetry.

Pipeline property decided by the Lean oracles (`Oracle.checkC07orbits`, `Oracle.checkC07wyckoff`) on
generated crystals (checks/pipe.py; modes "wyckoff" = atoms on tabulated Wyckoff positions, "hall" =
general positions of every Hall setting), plus three exhaustive/random correspondences that tie the
Lean models to the running code:

* the coordinate-string parser `WyckoffPositionSpace::new` and the rows of the private Wyckoff table
  (all 3467 rows; validates the translator and the parser model used by the oracle and by C16(i));
* `orbits_from_permutations` / `orbits_in_cell` against the quick-find model on random families of maps;
* the C16(i) Bool checker of every Hall number, evaluated natively row by row: when a kernel-decided
  table theorem of `Props/C16Wyckoff.lean` no longer builds, this names the failing row (the replay).
"""
import json
import os
from fractions import Fraction

import vlib
from vlib import log
from checks import pipe

PROPS = [("Moyo.Props.C07", "Moyo/Props/C07.lean"), ("Moyo.Props.C16Wyckoff", "Moyo/Props/C16Wyckoff.lean")]

TRUSTED = [
    "premise validation of the generator (the generated crystal has exactly the generating group, symmetry gap >= 0.2 A; "
    "the orbit of the decorated point has the tabulated multiplicity; atoms >= 0.45 A apart) is brute force in Rust, independent of moyo",
    "f64 rounding inside moyo is not modelled: the oracle judges the returned values in exact rational arithmetic",
    "the oracle's float code only orders candidate sites and the least-squares step only proposes parameters; every verdict is an exact test on an exhibited witness (Proofs/OracleC07.lean)",
    "the `union-find` crate is modelled by its specification (connected components); tied by correspondence on random families of maps",
    "completeness of the offset box / least squares of clause W3 (no false alarm) is argued in Model/OracleWyckoff.lean, not proved; soundness is proved",
]


def nontrivial(p, line):
    if p["outcome"] != "ok":
        return False
    orb = pipe.seg(line, "orbits")
    return bool(orb and len(set(orb.split())) >= 2 and pipe.seg(line, "tsteps") != "none")


def parser_correspondence(info):
    """All table rows: running code vs regenerated table + parser model."""
    out = os.path.join(vlib.WORK, "c07_wyck.cases")
    r = vlib.harness(["wyck-gen", out])
    if r.returncode != 0:
        return [("wyckparse", "wyckspace -1", "wyck-gen failed: " + r.stderr[-500:])]
    reqs, exps = vlib.read_cases(out)
    ans = vlib.run_model(reqs)
    fails = []
    for q, e, a in zip(reqs, exps, ans):
        ok = True
        if e == "none" or a == "none":
            ok = e == a
        else:
            ep, ap = e.split(" ; "), a.split(" ; ")
            ok = len(ep) == 3 and len(ap) == 3 and ep[0] == ap[0] and ep[1] == ap[1]
            if ok:
                xs, ys = ep[2].split(), ap[2].split()
                ok = len(xs) == 3 and len(ys) == 3
                for x, y in zip(xs, ys):
                    try:
                        if abs(vlib.parse_num(x) - Fraction(y)) > Fraction(1, 10 ** 15):
                            ok = False
                    except (ValueError, ZeroDivisionError):
                        ok = False
        if not ok:
            fails.append(("wyckparse", q, f"C07: Wyckoff row/parser correspondence: implementation `{e}` vs model `{a}`"))
    info["parser_rows_compared"] = len(reqs)
    info["parser_disagreements"] = len(fails)
    return fails


def orbit_correspondence(tier, seed, info):
    out = os.path.join(vlib.WORK, f"c07_orbits_{tier}_{seed}.cases")
    r = vlib.harness(["orbits-gen", tier, out], seed=seed)
    if r.returncode != 0:
        return [("orbits", "orbits -1", "orbits-gen failed: " + r.stderr[-500:])]
    reqs, exps = vlib.read_cases(out)
    ans = vlib.run_model(reqs)
    fails = []
    distinct = set()
    for q, e, a in zip(reqs, exps, ans):
        distinct.add(e)
        if e.strip() != a.strip():
            fails.append(("orbits", q, f"C07: orbit labelling: implementation `{e}` vs model `{a}`"))
    info["orbit_cases"] = len(reqs)
    info["orbit_distinct_labelings"] = len(distinct)
    info["orbit_disagreements"] = len(fails)
    return fails


def table_rows_check(info):
    """C16(i) Bool checker natively, Hall number by Hall number (names the failing rows)."""
    reqs = [f"wyckcheck {h}" for h in range(1, 531)]
    ans = vlib.run_model(reqs, nproc=8)
    fails = []
    for q, a in zip(reqs, ans):
        if a != "ok":
            fails.append(("table", q, "C07: Wyckoff table (C16 i): " + a[:1500]))
    info["table_hall_numbers_checked"] = len(reqs)
    info["table_failures"] = len(fails)
    return fails


def run(tier, seed):
    info = {
        "rule": "every tabulated Wyckoff position of every Hall setting over the tiers (quick: every second row, parity by seed; "
                "thorough: all 3467 rows in >= 3 descriptions) with a general-position species, own and re-described cells, "
                "Spglib/Standard alternating plus Setting::HallNumber(generating Hall number) for a slice (quick: every setting that "
                "neither convention reports at least once per run; thorough: every row), plus positions with one free parameter close to a special value "
                "(the orbit clusters at 10 symprec .. 1.8 sqrt(symprec): unambiguous at symprec, but on another letter's subspace for a tolerance applied "
                "on the wrong scale; quick: every sixth sliced row, thorough: every second), "
                "plus mode hall; non-trivial when a dataset with >= 2 orbits was returned for a re-described input",
    }

    def extra(per_mode):
        fails = []
        fails += parser_correspondence(info)
        fails += orbit_correspondence(tier, seed, info)
        fails += table_rows_check(info)
        # coverage of the table by the explored cases
        rows = set()
        special = 0
        for line in per_mode.get("wyckoff", ([], []))[0]:
            tw = pipe.seg(line, "twyck")
            if tw:
                rs = set(int(x) for x in tw.split() if int(x) >= 0)
                rows |= rs
                special += 1 if len(rs) >= 2 else 0
        info["wyckoff_rows_decorated"] = len(rows)
        info["cases_with_special_position"] = special
        # explicit Hall-number requests (settings that Spglib/Standard never report)
        req_lines = [l for l in per_mode.get("wyckoff", ([], []))[0] if (pipe.seg(l, "setting") or "").startswith("hall")]
        info["hall_number_requests"] = len(req_lines)
        info["hall_numbers_requested"] = len(set(pipe.seg(l, "setting") for l in req_lines))
        info["near_special_cases"] = len([l for l in per_mode.get("wyckoff", ([], []))[0] if "near-special" in (pipe.seg(l, "tsteps") or "")])
        info["hall_number_requests_refused"] = sum(1 for l in req_lines if pipe.seg(l, "out") != "ok")
        log(f"[C07] correspondences: {info.get('parser_disagreements')} parser, {info.get('orbit_disagreements')} orbit, "
            f"{info.get('table_failures')} table failures; {len(rows)} table rows decorated")
        return fails

    return pipe.run_property("C07", tier, seed, ["wyckoff", "hall"], PROPS, info, nontrivial, extra=extra, trusted=TRUSTED)


def replay(path):
    d = json.load(open(path))
    mode = d.get("mode")
    if mode in ("wyckoff", "hall"):
        return pipe.replay("C07", path)
    ok, err = vlib.build_harness()
    vlib.lake_build(["moyo_model"])
    req = d["case"]
    a = vlib.run_model([req])[0]
    print("model:", a[:2000])
    bad = False
    if mode == "table":
        bad = a != "ok"
    elif mode == "wyckparse":
        info = {}
        fails = [f for f in parser_correspondence(info) if f[1] == req]
        for f in fails:
            print(f[2])
        bad = bool(fails)
    elif mode == "orbits":
        # the request carries the input; evaluate the implementation on the same input
        info = {}
        fails = [f for f in orbit_correspondence(d["tier"], d["seed"], info) if f[1] == req]
        for f in fails:
            print(f[2])
        bad = bool(fails)
    if bad:
        print(f"VIOLATION property=C07 replay={path}")
        return 1
    print("no violation on the current tree")
    return 0
