"""C09 — tolerances mean what they say (noise twins, returned tolerances, scaling covariance)."""
import re
from checks import pipe

PROPS = [("Moyo.Props.C09", "Moyo/Props/C09.lean")]


def twins(per_mode):
    """Noisy / scaled runs must give the same number, Hall number, operation count and orbit partition as
    the undistorted run at the same symprec."""
    fails = []
    if "noise" not in per_mode:
        return fails
    reqs, ans = per_mode["noise"]
    clean = {}
    for line, a in zip(reqs, ans):
        p = pipe.parse_answer(a)
        if p is None:
            continue
        m = re.match(r"(h\d+k\d+)-(clean|noisy\d+|scaled)$", p["tag"])
        if not m:
            continue
        if m.group(2) == "clean":
            clean[m.group(1)] = (p, line)
    for line, a in zip(reqs, ans):
        p = pipe.parse_answer(a)
        if p is None:
            continue
        m = re.match(r"(h\d+k\d+)-(noisy\d+|scaled)$", p["tag"])
        if not m or m.group(1) not in clean:
            continue
        c, _ = clean[m.group(1)]
        if c["outcome"] != p["outcome"] or c["summary"] != p["summary"]:
            fails.append(("noise", line, f"C09: {p['tag']} gives [{p['outcome']}: {p['summary'][:80]}] but the undistorted twin gives [{c['outcome']}: {c['summary'][:80]}]"))
    return fails


def nontrivial(p, line):
    return p["outcome"] == "ok" and not p["tag"].endswith("clean")


def run(tier, seed):
    return pipe.run_property("C09", tier, seed, ["noise"], PROPS,
                             {"rule": "noise mode: for each of 130 (quick) / 530 (thorough) Hall settings an undistorted crystal, 2 (4) noisy twins "
                                      "(displacements <= 5% symprec + lattice strain) and a uniformly scaled twin (factor 1e-2..1e3, symprec scaled along); "
                                      "a case is non-trivial when it is a distorted/scaled twin that returned a dataset; distinct = distinct input cells"},
                             nontrivial, extra=twins,
                             trusted=["premise validation of the generator (symmetry gap >= 20 symprec) is a brute-force search in Rust, independent of moyo",
                                      "f64 rounding inside moyo is not modelled; the oracle judges the returned values exactly"])


def replay(path):
    return pipe.replay("C09", path)
