"""C09 — tolerances mean what they say (noise twins, returned tolerances, scaling covariance)."""
import re
from checks import pipe
import vlib

PROPS = [("Moyo.Props.C09", "Moyo/Props/C09.lean"), ("Moyo.Props.C09Stages", "Moyo/Props/C09Stages.lean"),
         ("Moyo.Props.C09Noise", "Moyo/Props/C09Noise.lean"),
         ("Moyo.Props.C09Bound", "Moyo/Props/C09Bound.lean"),
         ("Moyo.Props.C09Replay", "Moyo/Props/C09Replay.lean")]


def twins(per_mode):
    """Noisy / scaled runs must give the same number, Hall number, operation count and orbit partition as
    the undistorted run at the same symprec."""
    fails = []
    if "noise" not in per_mode:
        return fails
    reqs, ans = per_mode["noise"]
    clean = {}
    for line, a in zip(reqs, ans):
        p = pipe.parse_answer(a)
        if p is None:
            continue
        m = re.match(r"(h\d+k\d+)-(clean|noisy\d+|scaled)$", p["tag"])
        if not m:
            continue
        if m.group(2) == "clean":
            clean[m.group(1)] = (p, line)
    for line, a in zip(reqs, ans):
        p = pipe.parse_answer(a)
        if p is None:
            continue
        m = re.match(r"(h\d+k\d+)-(noisy\d+|scaled)$", p["tag"])
        if not m or m.group(1) not in clean:
            continue
        c, _ = clean[m.group(1)]
        if c["outcome"] != p["outcome"] or c["summary"] != p["summary"]:
            fails.append(("noise", line, f"C09: {p['tag']} gives [{p['outcome']}: {p['summary'][:80]}] but the undistorted twin gives [{c['outcome']}: {c['summary'][:80]}]"))
    return fails


def adjust(per_mode):
    """S12: the recorded sequence of tolerance updates must be the one the Lean model of ToleranceHandler predicts
    from the recorded errors, and the returned symprec must be the tolerance of the last (successful) attempt."""
    fails = []
    if "adjust" not in per_mode:
        return fails
    reqs, ans = per_mode["adjust"]
    todo = []
    for line, a in zip(reqs, ans):
        errs = pipe.seg(line, "terrs")
        if errs and errs != "none":
            todo.append((line, a, errs))
    if not todo:
        return fails
    outs = vlib.run_model(["c09replay " + e for _, _, e in todo])
    adjust.reached = len(todo)
    for (line, a, errs), o in zip(todo, outs):
        p = pipe.parse_answer(a)
        tag = line.split(" ")[1]
        try:
            exps = [vlib.parse_num(x) for x in o.split()]
        except Exception:
            fails.append(("adjust", line, f"C09: {tag}: model could not replay the error sequence: {o[:100]}"))
            continue
        s0 = float(vlib.parse_num(pipe.seg(line, "symprec")))
        rec = [float(vlib.parse_num(x)) for x in (pipe.seg(line, "tsyms") or "").split()]
        nerr = len(errs.split())
        if nerr > 64:
            fails.append(("adjust", line, f"C09: {tag}: {nerr} tolerance updates, more than MAX_HANDLER*MAX_TRIALS = 64"))
            continue
        if len(exps) != nerr + 1 and nerr < 64:
            fails.append(("adjust", line, f"C09: {tag}: model predicts {len(exps)} attempts for {nerr} recorded errors"))
            continue
        bad = None
        for i, x in enumerate(rec):
            if i < len(exps):
                pred = s0 * 2.0 ** float(exps[i])
                if abs(pred - x) > 1e-12 * max(abs(pred), abs(x)):
                    bad = f"attempt {i}: symprec {x} recorded, model predicts {pred} (= requested * 2^{float(exps[i])})"
                    break
        if bad is None and p and p["outcome"] == "ok" and len(exps) == nerr + 1:
            ret = float(vlib.parse_num(pipe.seg(line, "osymprec")))
            pred = s0 * 2.0 ** float(exps[-1])
            if abs(pred - ret) > 1e-12 * max(abs(pred), abs(ret)):
                bad = (f"returned symprec {ret} is not the tolerance of the last (successful) attempt {pred} "
                       f"(requested {s0}, {nerr} adjustments: {errs[:120]})")
        if bad:
            fails.append(("adjust", line, f"C09: {tag}: {bad}"))
    return fails


adjust.reached = 0


def both(per_mode):
    return twins(per_mode) + adjust(per_mode)


def nontrivial(p, line):
    return p["outcome"] == "ok" and not p["tag"].endswith("clean")


def run(tier, seed):
    return pipe.run_property("C09", tier, seed, ["noise", "adjust"], PROPS,
                             {"rule": "noise mode: for each of 130 (quick) / 530 (thorough) Hall settings an undistorted crystal, 2 (4) noisy twins "
                                      "(displacements <= 5% symprec + lattice strain) and a uniformly scaled twin (factor 1e-2..1e3, symprec scaled along); "
                                      "for every third setting also a twin pair at symprec 1e-3/1e-2 with an explicit radian angle tolerance 6..12 x the change of the "
                                      "inter-axial angle caused by one shear entry that uses the whole strain budget (tips move <= 5% symprec); "
                                      "a case is non-trivial when it is a distorted/scaled twin that returned a dataset; distinct = distinct input cells; "
                                      "adjust mode: 260 (1500) crystals with noise of 0.3..4 x symprec or oversized symprec, where the first attempt fails: the recorded "
                                      "ToleranceHandler updates (hook trace) must equal the Lean model's replay of the recorded errors and the returned symprec must be the last attempt's"},
                             nontrivial, extra=both, stages=["s1", "s3"],
                             trusted=["premise validation of the generator (symmetry gap >= 20 symprec) is a brute-force search in Rust, independent of moyo",
                                      "f64 rounding inside moyo is not modelled; the oracle judges the returned values exactly"])


def replay(path):
    return pipe.replay("C09", path)
