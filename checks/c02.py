"""C02 — pipeline property decided by the Lean oracle on generated crystals (see checks/pipe.py)."""
from checks import pipe

PROPS = [("Moyo.Props.C02", "Moyo/Props/C02.lean"), ("Moyo.Props.C01Stages", "Moyo/Props/C01Stages.lean"),
         ("Moyo.Props.C02Stages", "Moyo/Props/C02Stages.lean"), ("Moyo.Props.C02Bravais", "Moyo/Props/C02Bravais.lean")]


def nontrivial(p, line):
    return bool(p['outcome']=='ok' and int(pipe.seg(line,'nops') or 0)>=2 and pipe.seg(line,'tsteps')!='none')


def run(tier, seed):
    return pipe.run_property("C02", tier, seed, ['hall', 'super', 'lowsym'], PROPS,
                             {"rule": 'every Hall setting (own + re-described) and supercells; non-trivial when a dataset was returned for a group of order >= 2 in a re-described or supercell input; completeness is judged against the group constructed from the regenerated Hall table conjugated by the recorded re-description'},
                             nontrivial, stages=["s1", "s2", "s3", "s4"],
                             trusted=["premise validation of the generator (the generated crystal has exactly the generating group, symmetry gap >= 0.2 A) is a brute-force search in Rust, independent of moyo",
                                      "f64 rounding inside moyo is not modelled: the oracle judges the returned values in exact rational arithmetic",
                                      "the oracle's float code only orders candidate sites; every verdict is an exact test (Proofs/OracleSite.lean)"])


def replay(path):
    return pipe.replay("C02", path)
