"""C01 — pipeline property decided by the Lean oracle on generated crystals (see checks/pipe.py)."""
from checks import pipe

PROPS = [("Moyo.Props.C01", "Moyo/Props/C01.lean"), ("Moyo.Props.C01Stages", "Moyo/Props/C01Stages.lean"),
         ("Moyo.Props.C01Pipeline", "Moyo/Props/C01Pipeline.lean")]


def nontrivial(p, line):
    return bool(p['outcome']=='ok' and int(pipe.seg(line,'nops') or 0)>=2 and pipe.seg(line,'tsteps')!='none')


def run(tier, seed):
    return pipe.run_property("C01", tier, seed, ['super', 'noise', 'hall', 'lowsym', 'pseudo'], PROPS,
                             {"rule": 'supercell, noise, per-setting and pseudo-symmetric cases (the latter judged by C01 alone: whatever subgroup is reported, every operation must preserve the metric and map atoms onto atoms); a case is non-trivial when a dataset was returned with >= 2 operations and the recorded re-description is not the identity (re-based, shifted or supercell input); distinct = distinct input cells'},
                             nontrivial, stages=["s4"],
                             trusted=["premise validation of the generator (the generated crystal has exactly the generating group, symmetry gap >= 0.2 A) is a brute-force search in Rust, independent of moyo",
                                      "f64 rounding inside moyo is not modelled: the oracle judges the returned values in exact rational arithmetic",
                                      "the oracle's float code only orders candidate sites; every verdict is an exact test (Proofs/OracleSite.lean)"])


def replay(path):
    return pipe.replay("C01", path)
