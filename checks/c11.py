"""C11 — magnetic operations are symmetries of the magnetic structure and form a group: decided by the Lean
oracle `MagOracle.checkC11` on generated magnetic crystals (see checks/magpipe.py)."""
from checks import magpipe

PROPS = [("Moyo.Props.C11", "Moyo/Props/C11.lean"), ("Moyo.Props.C11Stages", "Moyo/Props/C11Stages.lean")]

TRUSTED = [
    "premise validation of the generator (the magnetic symmetry group of the generated structure is exactly the generating group: position gap 0.2 A, moment gap 0.05, i.e. >= 50 x the tolerances used) is a brute-force search over (R,t,theta) in Rust, independent of moyo's search code",
    "f64 rounding inside moyo is not modelled: the oracle judges the returned operations, symprec and mag_symprec in exact rational arithmetic on the exact dyadic values of the input",
    "the oracle's float code only orders candidate sites; every verdict is an exact test (Proofs/OracleSite.lean, Proofs/MagSite.lean)",
    "the generating group is read from the regenerated magnetic Hall table through the Lean parser model (Model/Hall.lean), tied to the Rust parser by the exhaustive correspondence of C17 on all 1651 symbols",
]


def nontrivial(p, line):
    return bool(p["outcome"] == "ok" and int(magpipe.seg(line, "nops") or 0) >= 2 and magpipe.seg(line, "tsteps") != "none")


def run(tier, seed):
    return magpipe.run_property(
        "C11", tier, seed, PROPS,
        "G-mag cases (see plan); a case is non-trivial when a dataset was returned with >= 2 magnetic operations for a re-described input (re-based, shifted, rotated, permuted, supercell, reversed or zero moments); distinct = distinct input magnetic cells + parameters",
        nontrivial, trusted=TRUSTED, stages=["s8m", "s9m", "s4m", "s10m"])


def replay(path):
    return magpipe.replay("C11", path)
