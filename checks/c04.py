"""C04 — identification does not depend on how the crystal is described (metamorphic pairs).

The real code runs on a base description A and on a random word of re-descriptions B of the same
crystal (unimodular re-basing, origin shift, rigid rotation, permutation, added lattice vectors,
uniform scaling with symprec, supercell, mirror image).  The invariants are extracted from both
datasets by the Lean driver (`summary` in Moyo/Model/Oracle.lean, exact table lookups) and compared
through the generator's recorded site map.  Covariance of the specification is proved in
Moyo/Props/C04.lean.
"""
import ast
import re
from checks import pipe
import vlib

PROPS = [("Moyo.Props.C04", "Moyo/Props/C04.lean")]
PAIRS = [(76, 78), (91, 95), (92, 96), (144, 145), (151, 153), (152, 154), (169, 170), (171, 172), (178, 179), (180, 181), (212, 213)]
PARTNER = {}
for a, b in PAIRS:
    PARTNER[a] = b
    PARTNER[b] = a


def parse_summary(s):
    parts = [x.strip() for x in s.split(" ; ")]
    number, hall, nops = [int(x) for x in parts[0].split()]
    ntrans, pearson = parts[1].split(" ", 1)
    return {"number": number, "hall": hall, "nops": nops, "ntrans": int(ntrans), "pearson": pearson,
            "orbits": ast.literal_eval(parts[2]), "mults": ast.literal_eval(parts[3]),
            "keys": [k.strip() for k in parts[4].strip("[]").split(",")]}


def pairs(per_mode):
    fails = []
    if "meta" not in per_mode:
        return fails
    reqs, ans = per_mode["meta"]
    tables = vlib.run_model(["settings spglib", "settings standard"])
    hallof = {"spglib": [int(x) for x in tables[0].split()], "standard": [int(x) for x in tables[1].split()]}
    base = {}
    for line, a in zip(reqs, ans):
        p = pipe.parse_answer(a)
        if p is None:
            continue
        m = re.match(r"(h\d+k\d+)-(A|B)$", p["tag"])
        if m and m.group(2) == "A":
            base[m.group(1)] = (p, line)
    for line, a in zip(reqs, ans):
        p = pipe.parse_answer(a)
        if p is None:
            continue
        m = re.match(r"(h\d+k\d+)-B$", p["tag"])
        if not m or m.group(1) not in base:
            continue
        pa, la = base[m.group(1)]

        def bad(msg):
            fails.append(("meta", line, f"C04: {p['tag']} [{pipe.seg(line, 'tsteps')}]: {msg}"))
        if pa["outcome"] != "ok" or p["outcome"] != "ok":
            if pa["outcome"] != p["outcome"]:
                bad(f"outcome {p['outcome']} but the base description gives {pa['outcome']}")
            continue
        A, B = parse_summary(pa["summary"]), parse_summary(p["summary"])
        mirrored = pipe.seg(line, "tmirror") == "1"
        expnum = PARTNER.get(A["number"], A["number"]) if mirrored else A["number"]
        if B["number"] != expnum:
            bad(f"number {B['number']}, expected {expnum} (base {A['number']}, mirrored={mirrored})")
            continue
        setting = pipe.seg(line, "setting")
        exphall = A["hall"] if expnum == A["number"] else hallof[setting][expnum - 1]
        if B["hall"] != exphall:
            bad(f"Hall number {B['hall']}, expected {exphall}")
        if B["pearson"] != A["pearson"]:
            bad(f"Pearson symbol {B['pearson']} vs {A['pearson']}")
        # Operations per primitive cell: the reported operations are, by C01/C02, only the elements of the group that
        # preserve the *input* lattice, so for a supercell that is not invariant under the whole point group the quotient is
        # legitimately smaller; the clause is compared only when no supercell step is involved.
        if "supercell" not in (pipe.seg(line, "tsteps") or "") and B["nops"] * A["ntrans"] != A["nops"] * B["ntrans"]:
            bad(f"operations per primitive cell {B['nops']}/{B['ntrans']} vs {A['nops']}/{A['ntrans']}")
        origin = [int(x) for x in pipe.seg(line, "torigin").split()]
        if len(origin) != len(B["orbits"]):
            bad("site map length mismatch")
            continue
        fwd, bwd = {}, {}
        for i, o in enumerate(origin):
            lb, la_ = B["orbits"][i], A["orbits"][o]
            if fwd.setdefault(lb, la_) != la_ or bwd.setdefault(la_, lb) != lb:
                bad(f"orbit partition differs at atom {i} (image of base atom {o})")
                break
            if B["mults"][i] * A["nops"] * B["ntrans"] != A["mults"][o] * B["nops"] * A["ntrans"] and B["hall"] == A["hall"] and B["mults"][i] != A["mults"][o]:
                bad(f"Wyckoff multiplicity of atom {i}: {B['mults'][i]} vs {A['mults'][o]}")
                break
            if B["mults"][i] != A["mults"][o]:
                bad(f"Wyckoff multiplicity of atom {i}: {B['mults'][i]} vs {A['mults'][o]}")
                break
            if B["keys"][i] != A["keys"][o]:
                bad(f"site-symmetry symbol of atom {i}: {B['keys'][i]} vs {A['keys'][o]} (orientation-free)")
                break
    return fails


def nontrivial(p, line):
    return p["outcome"] == "ok" and p["tag"].endswith("-B")


def distorted_counts(per_mode):
    """Evidence: how many pairs are distorted crystals and how many of those reach the band between symprec and 2 symprec
    of the pivot-anchored residual (where only the doubled rough tolerance of the search keeps an operation)."""
    reqs, _ = per_mode.get("meta", ([], []))
    b = [l for l in reqs if (pipe.seg(l, "tsteps") or "").find("distort") >= 0 and "-B ;" in l[:40]]
    scan = [l for l in reqs if "facescan" in (pipe.seg(l, "tsteps") or "")]
    import re as _re
    nscan = sum(int(_re.search(r"facescan(\d+)", pipe.seg(l, "tsteps")).group(1)) for l in scan)
    return {"face_scan_pairs": len(scan), "face_scan_placements_evaluated": nscan, "distorted_pairs": len(b), "distorted_pairs_in_rough_band": sum(1 for l in b if "distort-rough" in pipe.seg(l, "tsteps"))}


def run(tier, seed):
    def extra(per_mode):
        info.update(distorted_counts(per_mode))
        return pairs(per_mode)
    info = dict()
    info.update({"rule": "170 (quick) / 1590 (thorough, every Hall setting x 3) pairs: base crystal A and a random word of 1-5 re-descriptions B "
                                      "(re-basing with entries up to 6, origin shift, rigid rotation, permutation, added lattice vectors, scaling 1e-2..1e3 with symprec, "
                                      "supercell of index 2..4, mirror image); plus 90 (quick) / 530 (thorough) pairs of *distorted* crystals (half of the atoms displaced by 0.25-0.45 symprec, "
                                      "premise validated by a brute-force residual profile: every generating operation fits within 0.8 symprec, pivot-anchored within 1.6 symprec, "
                                      "nothing else within 1.3 symprec) whose re-description always reorders the atoms; plus a face scan: 120 (quick) / 500 (thorough) distorted crystals with a "
                                      "pivot-anchored residual of 1.2-1.6 symprec, description B = origin moved so that one atom lies just inside / outside a cell face (all atoms x axes x 6 offsets "
                                      "evaluated natively, B = first placement whose answer differs, else a random one); compared: number (11 enantiomorphic pairs exchanged under mirror), Hall number, Pearson symbol, "
                                      "operations per primitive cell, orbit partition through the site map, Wyckoff multiplicity and orientation-free site-symmetry symbol per atom; "
                                      "non-trivial = the re-described member of a pair that returned a dataset",
                              "explanation": "level other: covariance of the specification is proved in Lean (Props/C04.lean: origin shift, added lattice vectors, rigid rotation, scaling, "
                                             "change of basis; mirror-partner table), the statement about the implementation's answers is metamorphic exploration with invariants "
                                             "extracted by the Lean driver"})
    return pipe.run_property("C04", tier, seed, ["meta"], PROPS, info,
                             nontrivial, extra=extra, level="other",
                             trusted=["the generator's site map and re-description record", "premise validation by brute-force symmetry search (Rust)"])


def replay(path):
    import json
    d = json.load(open(path))
    vlib.build_harness()
    vlib.lake_build(["moyo_model"])
    base_tag = d["tag"][:-1] + "A"
    lines = []
    for t in (base_tag, d["tag"]):
        r = vlib.harness(["pipe-one", d["mode"], d["tier"], t], seed=d["seed"])
        lines.append(r.stdout.strip())
    ans = vlib.run_model(lines)
    fails = pairs({"meta": (lines, ans)})
    for f in fails:
        print(f[2])
    if fails:
        print(f"VIOLATION property=C04 replay={path}")
        return 1
    print("no violation on the current tree")
    return 0
