"""C16 — space-group tables are mutually consistent (and the shared machinery of C17).

Proof: kernel-decided table theorems.  `tools/translate.py` + `tools/translate_c16.py` regenerate the
tables, the match-arm tables and the *searched certificates* from /repo's current tree; the chunk
modules `Moyo/Tables/{Hall,Arith}C*.lean` (C17: `MagC*`, `RangeC*`) decide the Boolean row checkers of
`Moyo/Tables/Spec.lean` for every row with `decide +kernel`; `Moyo/Props/C16.lean` lifts them to the
statements of the property (closure modulo the centring lattice, order, histogram, centring letter,
arithmetic class with unimodular conjugator, pairwise non-conjugacy of the 73 representatives,
conjugacy of the settings of a type, (g) partial, (h) re-exported from C03).

Tie to the code: the model of the Hall-symbol parser/generator is compared with the implementation on
*all* 530 + 1651 table strings (exact equality of generators, operation lists in order, primitive
operations, every table row) and the translated match-arm tables with `PointGroupRepresentative::*`,
`PointGroup::new` and `uni_number_range` (harness `tables-gen`, `c16-gen`).

When a theorem stops compiling or the correspondence breaks, every row is evaluated natively through the
driver (`c16row`, `c16arith`, `c17row`, `c17range`): a row with a failing clause is a failing input (the
replay names row and clauses).  If only the parser correspondence breaks, the clauses are re-evaluated on
the implementation's own operation lists (Python oracle below); nothing failing -> no-failing-input-found.
"""
import json
import os
import re
import subprocess
import sys
import time
from concurrent.futures import ThreadPoolExecutor

import vlib
from vlib import log

sys.path.insert(0, os.path.join(vlib.VERIF, "tools"))

TRANSLATE_C16 = os.path.join(vlib.VERIF, "tools", "translate_c16.py")
TABLES_DIR = os.path.join(vlib.LEAN, "Moyo", "Tables")

KINDS = {"C16": ["Hall", "Arith"], "C17": ["Mag", "Range"]}
TOP = {"C16": ("Moyo.Props.C16", "Moyo/Props/C16.lean"), "C17": ("Moyo.Props.C17", "Moyo/Props/C17.lean")}
# (i) of C16 belongs to the Wyckoff-position model: counted here when its Props module exists.
WYCKOFF_HOOK = ("Moyo.Props.C16Wyckoff", "Moyo/Props/C16Wyckoff.lean")
SHARED = [("Moyo.Tables.Misc", "Moyo/Tables/Misc.lean")]


def chunk_modules(kinds):
    mods = []
    for f in sorted(os.listdir(TABLES_DIR)):
        m = re.fullmatch(r"(%s)(C\d+|All)\.lean" % "|".join(kinds), f)
        if m:
            mods.append((f"Moyo.Tables.{f[:-5]}", f"Moyo/Tables/{f}"))
    return mods


def translate_c16(tables_only=False):
    with vlib.Lock("lake"):
        r = vlib.sh([sys.executable, TRANSLATE_C16] + (["--tables-only"] if tables_only else []), cwd=vlib.VERIF)
    notes = [l.split("NOTE ", 1)[1] for l in r.stdout.splitlines() if "NOTE " in l]
    return r.returncode == 0, (r.stdout + r.stderr)[-4000:], notes


def force_rebuild(mods):
    """Remove the compiled artefacts of the chunk modules so that lake re-checks them."""
    base = os.path.join(vlib.LEAN, ".lake", "build", "lib", "lean")
    for mod, _ in mods:
        stem = os.path.join(base, *mod.split("."))
        for ext in (".olean", ".ilean", ".trace", ".olean.hash", ".ilean.hash"):
            try:
                os.unlink(stem + ext)
            except OSError:
                pass


def obligations(pid, mods, top):
    """Build, source audit, one batched axiom audit through the top module."""
    failures, names_all, discharged = [], [], 0
    t = time.time()
    ok, out = vlib.lake_build([top[0]] + [m for m, _ in SHARED])
    build_s = time.time() - t
    if not ok:
        errs = [l for l in out.splitlines() if "error" in l][:30]
        failures.append("lake build failed: " + " | ".join(errs))
    audited = [top] + SHARED + mods
    for h in vlib.source_audit([p for _, p in audited]):
        failures.append("forbidden construct: " + h)
    for mod, rel in audited:
        names_all += vlib.theorem_names(rel)
    if ok:
        ax = vlib.axiom_audit(top[0], names_all)
        if any(v is None for v in ax.values()):
            # theorems of SHARED modules are not imported by every top module: audit them separately
            miss = [n for n, v in ax.items() if v is None]
            for mod, rel in SHARED:
                ax.update({k: v for k, v in vlib.axiom_audit(mod, [n for n in miss if n in vlib.theorem_names(rel)]).items()})
        for n in names_all:
            a = ax.get(n)
            if a is None:
                failures.append(f"theorem {n}: not found by #print axioms")
            elif not set(a) <= vlib.ALLOWED_AXIOMS:
                failures.append(f"theorem {n}: disallowed axioms {sorted(set(a) - vlib.ALLOWED_AXIOMS)}")
            else:
                discharged += 1
    return {"obligations": len(names_all), "discharged": discharged, "failures": failures, "names": names_all,
            "build_s": round(build_s, 1), "build_ok": ok, "build_out": out}


def leanchecker(mods):
    """Independent kernel re-check of compiled modules (`leanchecker` replays every declaration of a module into a
    fresh environment).  It is multi-threaded over the modules of one call, so only a few calls run concurrently."""
    names = [m for m, _ in mods]
    batches = [names[i:i + 12] for i in range(0, len(names), 12)]

    def one(b):
        try:
            r = vlib.sh(["lake", "env", "leanchecker"] + b, cwd=vlib.LEAN, timeout=3600)
            return r.returncode, (r.stdout + r.stderr)[-1200:]
        except subprocess.TimeoutExpired:
            return -1, "timeout"
    with vlib.Lock("lake"):
        with ThreadPoolExecutor(max(1, vlib.NCPU // 5)) as ex:
            res = list(ex.map(one, batches))
    bad = [f"rc={rc} modules={b[0]}..{b[-1]} {o}" for (rc, o), b in zip(res, batches) if rc != 0]
    return {"modules": len(names), "rc": 0 if not bad else 1, "output": bad[:3]}


# ------------------------------------------------------------------------------------------------
# rows through the native driver

def load_certs():
    import translate_c16 as C
    pg = C.translate_point_group()
    return C, pg, C.compute_certs(pg)


def row_requests(pid, C, c):
    reqs, labels = [], []
    if pid == "C16":
        for h in range(1, len(c["hallOps"]) + 1):
            i = h - 1
            reqs.append("c16row %d %d %d %d %d %d %d %d %d" % (
                h, c["hallOps"][i], c["hallPrim"][i], c["hallMul"][i], c["hallPar"][i], C.pack_ints(c["arithP"][i]),
                c["arithPerm"][i], C.pack_ints(c["settingConj"][i]), c["settingPerm"][i]))
            labels.append(("hall", h))
        for k in range(1, len(c["arithInv"]) + 1):
            reqs.append("c16arith %d %s" % (k, " ".join(map(str, c["arithInv"][k - 1]))))
            labels.append(("arithmetic class", k))
    else:
        for u in range(1, len(c["magOps"]) + 1):
            i = u - 1
            reqs.append("c17row %d %d %d %d %d %d %d %d" % (
                u, c["magOps"][i], c["magPrim"][i], c["magMul"][i], c["magPar"][i], C.pack_ints(c["magRefConj"][i]),
                c["magRefPerm"][i], c["magSet"][i]))
            labels.append(("uni", u))
        for n in range(1, c["nRanges"] + 1):
            reqs.append("c17range %d" % n)
            labels.append(("uni range of number", n))
    return reqs, labels


def describe_row(kind, n):
    """The table row as the translator read it (for the replay file)."""
    import translate_c16 as C
    hall, arith, settings, mt, mh = C.load_tables()
    try:
        if kind == "hall":
            return json.dumps(hall[n - 1])
        if kind == "arithmetic class":
            return json.dumps(arith[n - 1])
        if kind == "uni":
            return json.dumps({"hall_symbol": mh[n - 1], "type": mt[n - 1]})
        if kind == "uni range of number":
            return json.dumps([t for t in mt if t["number"] == n][:60])
    except IndexError:
        pass
    return "(row not present in the table)"


# ------------------------------------------------------------------------------------------------
# oracle on the implementation's own tables and operation lists (Python, unverified; a *search* for a
# failing row when a theorem or the correspondence breaks, and the only oracle in pre-screening mode
# VERIF_REPO, where the shared Lean tables must not be regenerated)

SCREEN = bool(os.environ.get("VERIF_REPO"))


def impl_tables(reqs, exps):
    """The tables as the running code reports them (harness `tables-gen` / `c16-gen` lines)."""
    hall, arith, mt, mh, settings, ops, arithrep, ranges = {}, {}, {}, {}, {}, {}, {}, {}
    for q, e in zip(reqs, exps):
        t = q.split(" ")
        if t[0] == "hallentry" and "|" in e:
            f = e.split("|")
            a = f[0].split()
            hall[int(t[1])] = {"hall": int(a[0]), "number": int(a[1]), "arith": int(a[2]), "setting": f[1], "symbol": f[2],
                               "centering": f[5]}
        elif t[0] == "arithentry" and "|" in e:
            f = e.split("|")
            g = f[2].split()
            arith[int(t[1])] = {"arith": int(f[0]), "geo": g[0], "bravais": g[1]}
        elif t[0] == "magentry" and "|" in e:
            f = e.split("|")
            a, b, c = f[0].split(), f[2].split(), f[5].split()
            mh[int(t[1])] = {"symbol": f[1], "uni": int(a[0])}
            mt[int(t[1])] = {"uni": int(b[0]), "bns": f[3], "number": int(c[0]), "ct": int(c[1])}
        elif t[0] == "settings":
            settings[t[1]] = [int(x) for x in e.split()]
        elif t[0] in ("hall", "mhall"):
            ops[(t[0], q[len(t[0]) + 1:])] = e
        elif t[0] == "arithrep":
            arithrep[int(t[1])] = e
        elif t[0] == "unirange":
            ranges[int(t[1])] = e
    return {"hall": hall, "arith": arith, "mt": mt, "mh": mh, "settings": settings, "ops": ops, "arithrep": arithrep,
            "ranges": ranges}


def closure_rots(C, gens):
    seen, queue = {C.I3}, [C.I3]
    while queue:
        a = queue.pop()
        for g in gens:
            b = C.mm(a, g)
            if b not in seen:
                if len(seen) > 200:
                    return sorted(seen)
                seen.add(b)
                queue.append(b)
    return sorted(seen)


def norm_prim(o):
    return [(r, tuple(x % 12 for x in t), tr) for r, t, tr in o["pops"]]


def impl_oracle(pid, C, pg, T):
    """All clauses of the property on the implementation's data; returns [(row label, [clauses], detail)]."""
    out = []
    slot = {(a, b): s for a, b, s in pg["rotTypes"]}

    def sym_ops(kind, sym):
        e = T["ops"].get((kind, sym))
        return C.model_symbol(e) if e else None

    def hall_ops(h):
        e = T["hall"].get(h)
        return sym_ops("hall", e["symbol"]) if e else None
    reps = {}
    for k, e in T["arithrep"].items():
        parts = e.split(" ; ")
        if len(parts) == 2:
            gens = [tuple(int(x) for x in g.split()) for g in parts[1].split(" | ") if g.strip()]
            reps[k] = (gens, closure_rots(C, gens))
    if pid == "C16":
        invs = {k: C.inv_vector(v[1], pg["rotTypes"]) for k, v in reps.items()}
        for a in invs:
            for b in invs:
                if a < b and invs[a] == invs[b]:
                    out.append((("arithmetic class", a), ["invariants"], f"representatives of classes {a} and {b} have equal invariant vectors"))
        first = {}
        for h in sorted(T["hall"]):
            first.setdefault(T["hall"][h]["number"], h)
        for h in sorted(T["hall"]):
            e = T["hall"][h]
            o = hall_ops(h)
            if o is None:
                out.append((("hall", h), ["a:parse"], str(T["ops"].get(("hall", e["symbol"])))[:200]))
                continue
            fails = []
            ops, pops = o["ops"], norm_prim(o)
            if len(ops) > 1 and C.closure_cert(o["centering"], o["gens"], ops) == (0, 0):
                fails.append("a:closed")
            a = T["arith"].get(e["arith"])
            gi = pg["geoNames"].index(a["geo"]) if a and a["geo"] in pg["geoNames"] else None
            if gi is None:
                out.append((("hall", h), ["arithmetic-number"], json.dumps(e)))
                continue
            if len(ops) != sum(pg["geoHist"][gi]) or len({x[0] for x in ops}) != len(ops):
                fails.append("b:order")
            if [sum(1 for x in ops if slot.get(C.rtype(x[0])) == s) for s in range(10)] != pg["geoHist"][gi]:
                fails.append("c:histogram")
            if o["centering"] != e["centering"]:
                fails.append("d:centering")
            rp = reps.get(e["arith"])
            if rp is None or next(C.linear_conjugators([x[0] for x in pops], rp[0], rp[1], limit=1), None) is None:
                fails.append("e:arithmetic")
            f = hall_ops(first[e["number"]])
            if f is None or C.affine_conjugator(pops, norm_prim(f), f["pgens"]) is None:
                fails.append("f:setting")
            sp = T["settings"].get("spglib", [])
            if not (1 <= e["number"] <= len(sp)) or sp[e["number"] - 1] != first[e["number"]]:
                fails.append("h:spglib-is-smallest")
            if fails:
                out.append((("hall", h), fails, json.dumps(e)))
    else:
        std = T["settings"].get("standard", [])
        sets = {}
        for u in sorted(T["mh"]):
            mh, t = T["mh"][u], T["mt"][u]
            o = sym_ops("mhall", mh["symbol"])
            if o is None:
                out.append((("uni", u), ["parse"], str(T["ops"].get(("mhall", mh["symbol"])))[:200]))
                continue
            fails = []
            ops, pops = o["ops"], norm_prim(o)
            sets[u] = tuple(sorted(C.op_code(x) for x in pops))
            if len(ops) > 1 and C.closure_cert(o["centering"], o["gens"], ops) == (0, 0):
                fails.append("closed")
            n_un = sum(1 for x in ops if not x[2])
            anti = [x for x in ops if x[2] and x[0] == C.I3]
            if n_un == len(ops):
                ct = 1
            elif 2 * n_un != len(ops) or len(anti) > 1:
                ct = 0
            elif not anti:
                ct = 3
            else:
                ct = 2 if C.eqv_mod(o["centering"], (C.I3, anti[0][1], False), (C.I3, (0, 0, 0), False)) else 4
            if ct != t["ct"]:
                fails.append("construct-type")
            f = hall_ops(std[t["number"] - 1]) if 1 <= t["number"] <= len(std) else None
            ref = [(x[0], x[1], False) for x in pops] if t["ct"] == 3 else [x for x in pops if not x[2]]
            if f is None or f["centering"] != o["centering"] or len({x[0] for x in ref}) != len(ref) or \
                    C.affine_conjugator(ref, norm_prim(f), f["pgens"]) is None:
                fails.append("reference")
            if mh["uni"] != u or t["uni"] != u or not t["bns"].startswith(str(t["number"]) + "."):
                fails.append("numbering")
            if fails:
                out.append((("uni", u), fails, json.dumps({"hall_symbol": mh, "type": t})))
        # ranges: the implementation's uni_number_range against the number column
        numbers = sorted({t["number"] for t in T["mt"].values()})
        for n in range(1, 231):
            us = [u for u in sorted(T["mt"]) if T["mt"][u]["number"] == n]
            want = f"{us[0]} {us[-1]}" if us and us == list(range(us[0], us[-1] + 1)) else "non-contiguous"
            fails = []
            if T["ranges"].get(n) != want:
                fails.append("range")
            if sum(1 for u in us if T["mt"][u]["ct"] == 1) != 1 or sum(1 for u in us if T["mt"][u]["ct"] == 2) != 1:
                fails.append("unique-type-1/2")
            cs = [sets[u] for u in us if u in sets]
            if len(set(cs)) != len(cs):
                fails.append("distinct-operation-sets")
            if fails:
                out.append((("uni range of number", n), fails, f"uni_number_range({n}) = {T['ranges'].get(n)}, rows with number {n}: {want}"))
        if len(numbers) != 230 or any(T["ranges"].get(n) != "none" for n in (-2, -1, 0, 231, 232, 233)):
            out.append((("uni range of number", 0), ["range-count"], f"{len(numbers)} distinct numbers"))
    return out


# ------------------------------------------------------------------------------------------------

def identify_rows(tier, seed):
    """C17, last clause ("each is identified as itself and as no other"): the tabulated primitive operations of every UNI
    number, in their own setting and (a seed-dependent third in quick, all in thorough) re-based by a random unimodular matrix
    and origin shift, through the real `MagneticSpaceGroup::new` (cases of checks/stages_magid.py, `mag-id-gen`): the returned
    UNI number must be the row's.  Judged on the implementation's answer alone."""
    from checks import stages_magid, pipe
    key = pipe.tree_key()
    cdir = os.path.join(vlib.WORK, "magcache", key)
    os.makedirs(cdir, exist_ok=True)
    cases = os.path.join(cdir, f"magid_{tier}_{seed}.cases")
    with vlib.Lock(f"magid_{tier}_{seed}"):
        if not os.path.exists(cases):
            stages_magid.generate(tier, seed, cases)
    reqs, exps = vlib.read_cases(cases)
    n, re_n, bad = 0, 0, []
    for q, e in zip(reqs, exps):
        m = re.match(r"s5m t(\d+)(-re\d+)? ;", q)
        if not m:
            continue
        n += 1
        re_n += 1 if m.group(2) else 0
        u = int(m.group(1))
        em = re.match(r"\s*ok ; uni (\d+) ;", e)
        if not em or int(em.group(1)) != u:
            bad.append((u, q.split(" ")[1], e.strip()[:200], q))
    return n, re_n, bad


def run_tables(pid, tier, seed):
    run = vlib.Run(pid, tier, seed, "proof")
    cov = run.coverage
    t0 = time.time()
    top = TOP[pid]
    cov.update({"obligations": 0, "discharged": 0, "checker_cmd": f"cd /verif/lean && lake build {top[0]} (chunk modules by `decide +kernel`), "
                "#print axioms on every theorem incl. the per-chunk ones",
                "trusted_base": vlib.TRUSTED_COMMON + [
                    "tools/translate.py and tools/translate_c16.py (tables and match-arm tables read from the Rust sources; validated on every run against "
                    "the rows reported by the running code: hall_symbol_entry, magnetic_hall_symbol_entry, get_magnetic_space_group_type, "
                    "arithmetic_crystal_class_entry, Setting::hall_numbers, PointGroupRepresentative::from_*, PointGroup::new, uni_number_range)",
                    "`decide +kernel`: the kernel's GMP acceleration of Nat literals",
                    "the searched certificates (Generated/C16Certs.lean, C17Certs.lean) are NOT trusted: each is re-checked by a chunk theorem",
                    "H-parser: the hand-written model of hall_symbol.rs agrees with the implementation on every table string (checked exhaustively on this run: "
                    "generators, operation lists in order, primitive operations), not on all strings"]})
    ok, err = vlib.build_harness()
    if not ok:
        run.violation("harness_build.txt", "harness/moyo failed to build with hooks on:\n" + err, no_input=True)
        return run.finish()
    broken = []
    okt, terr = vlib.translate()
    if not okt:
        broken.append("tools/translate.py failed: " + terr[-1500:])
    okt1, terr1, _ = (True, "", []) if SCREEN else translate_c16(tables_only=True)
    if not okt1:
        broken.append("tools/translate_c16.py (match-arm tables) failed: " + terr1[-1500:])
    okm, out = vlib.lake_build(["moyo_model"])
    if not okm:
        broken.append("moyo_model failed to build: " + out[-1500:])
    notes = []
    if okm and okt and okt1 and not SCREEN:
        okt2, terr2, notes = translate_c16()
        if not okt2:
            broken.append("tools/translate_c16.py (certificates) failed: " + terr2[-1500:])
    mods = chunk_modules(KINDS[pid]) if os.path.isdir(TABLES_DIR) else []
    extra = [WYCKOFF_HOOK] if pid == "C16" and os.path.exists(os.path.join(vlib.LEAN, WYCKOFF_HOOK[1])) else []
    if tier == "thorough" and not broken:
        force_rebuild([m for m in mods if not m[0].endswith("All")])
    ob = obligations(pid, mods, top)
    cov["obligations"], cov["discharged"] = ob["obligations"], ob["discharged"]
    cov["theorems"] = [n for n in ob["names"] if not re.search(r"_c\d+$", n)]
    cov["chunk_theorems"] = len([n for n in ob["names"] if re.search(r"_c\d+$", n)])
    cov["lake_build_s"] = ob["build_s"]
    if extra:
        obw = vlib.proof_obligations(extra)
        cov["wyckoff_clause_i"] = {"obligations": obw["obligations"], "discharged": obw["discharged"], "failures": obw["failures"][:5]}
        cov["obligations"] += obw["obligations"]
        cov["discharged"] += obw["discharged"]
        if obw["failures"]:
            broken.append("clause (i), Wyckoff table theorems (Props/C16Wyckoff.lean) no longer check:\n  " + "\n  ".join(obw["failures"][:10]))
    else:
        cov["wyckoff_clause_i"] = "Moyo/Props/C16Wyckoff.lean not present: clause (i) is not counted here" if pid == "C16" else None
    if ob["failures"]:
        broken.append("proof obligations that no longer check:\n  " + "\n  ".join(ob["failures"][:40]))
    if tier == "thorough" and not ob["failures"]:
        lc = leanchecker([m for m in mods if not m[0].endswith("All")] + [top])
        cov["leanchecker"] = lc
        if lc["rc"] != 0:
            broken.append("leanchecker rejects compiled theorem modules: " + " ".join(lc["output"]))
    for n in notes:
        broken.append("certificate search: " + n)

    # ---- exhaustive correspondence: parser on all table strings, table rows, match-arm tables
    C = pg = certs = None
    try:
        if SCREEN:
            import translate_c16 as C
            pg = C.translate_point_group()
            cov["screening_mode"] = "VERIF_REPO is set: the shared Lean tables are not regenerated; rows are judged by the Python oracle on the implementation's data"
        else:
            C, pg, certs = load_certs()
    except SystemExit:
        broken.append("certificates could not be recomputed (translator failed)")
    cases = os.path.join(vlib.WORK, f"{pid.lower()}_tables_{seed}.cases")
    r1 = vlib.harness(["tables-gen", cases], seed=seed)
    cases2 = os.path.join(vlib.WORK, f"{pid.lower()}_pg_{seed}.cases")
    r2 = vlib.harness(["c16-gen", cases2], seed=seed)
    if r1.returncode != 0 or r2.returncode != 0:
        run.violation("harness_run.txt", "tables-gen / c16-gen failed:\n" + (r1.stderr + r2.stderr)[-3000:], no_input=True)
        return run.finish()
    reqs, exps = vlib.read_cases(cases)
    reqs2, exps2 = vlib.read_cases(cases2)
    if pid == "C16":
        keep = [i for i, q in enumerate(reqs) if not q.startswith(("mhall", "magentry"))]
        keep2 = [i for i, q in enumerate(reqs2) if not q.startswith("unirange")]
    else:
        keep = [i for i, q in enumerate(reqs) if q.startswith(("mhall", "magentry", "hallentry", "settings"))]
        keep2 = [i for i, q in enumerate(reqs2) if q.startswith("unirange")]
    reqs = [reqs[i] for i in keep] + [reqs2[i] for i in keep2]
    exps = [exps[i] for i in keep] + [exps2[i] for i in keep2]
    outs = vlib.run_model(reqs) if okm else ["MODEL-UNAVAILABLE"] * len(reqs)
    mism = [i for i in range(len(reqs)) if outs[i] != exps[i]]
    cov["evaluations"] = len(reqs)
    cov["model_impl_disagreements"] = len(mism)
    cov["exhaustive"] = True
    cov["rule"] = ("every string of the Hall / magnetic Hall table through the parser and generator of model and implementation (exact equality of "
                   "centring, generators, ordered operation list, primitive generators and operations), every row of the Hall, arithmetic, magnetic and "
                   "setting tables, the representative groups of the 32 + 73 classes, PointGroup::new on all 530 settings, uni_number_range on -2..233; "
                   "a case counts as non-trivial when the group has more than one operation or the request is a table row")
    cov["distinct_nontrivial"] = len({q for q, e in zip(reqs, exps) if not (q.startswith(("hall ", "mhall ")) and e.count("|") < 8)})

    # ---- every row through the native row checkers (same Bool functions as the theorems)
    failing = []
    if okm and certs is not None:
        rreqs, labels = row_requests(pid, C, certs)
        verd = vlib.run_model(rreqs)
        cov["rows_checked"] = len(rreqs)
        bad = [(labels[i], verd[i], rreqs[i]) for i in range(len(rreqs)) if verd[i] != "ok"]
        cov["rows_failing"] = len(bad)
        for (kind, n), v, rq in bad:
            failing.append((kind, n, v, rq))
        good = [i for i in range(len(rreqs)) if verd[i] == "ok"]
        cov["samples"] = [{"row": f"{labels[i][0]} {labels[i][1]}", "table": describe_row(*labels[i])[:300], "verdict": verd[i]}
                          for i in (good[:1] + good[len(good) // 2:len(good) // 2 + 1] + good[-1:])]
    else:
        cov["rows_checked"] = 0
    # ---- something broke (or pre-screening): judge every row on the implementation's own tables and operation lists
    impl_fail = []
    if (mism or broken or SCREEN) and C is not None and pg is not None:
        allr, alle = vlib.read_cases(cases)
        r2, e2 = vlib.read_cases(cases2)
        impl_fail = impl_oracle(pid, C, pg, impl_tables(allr + r2, alle + e2))
        cov["implementation_rows_failing"] = len(impl_fail)
    cov["wall_tables_s"] = round(time.time() - t0, 1)

    # ---- clause (i): when something broke, evaluate the Wyckoff row checker natively for every Hall number
    if pid == "C16" and broken and extra:
        wreq = [f"wyckcheck {h}" for h in range(1, 531)]
        wans = vlib.run_model(wreq)
        for h, a in zip(range(1, 531), wans):
            if a.strip() != "ok":
                failing.append(("wyckoff-hall", h, a[:400], f"wyckcheck {h}"))
        cov["wyckoff_hall_numbers_failing"] = len([f for f in failing if f[0] == "wyckoff-hall"])

    # ---- C17: every tabulated group is identified as itself by the real identification (own and re-based settings)
    ident_bad = []
    if pid == "C17":
        try:
            nid, nre, ident_bad = identify_rows(tier, seed)
            cov["identified_as_itself_rows"] = nid
            cov["identified_as_itself_rebased_rows"] = nre
            cov["identified_as_itself_failures"] = len(ident_bad)
        except RuntimeError as ex:
            broken.append("mag-id-gen failed: " + str(ex)[-1500:])

    # ---- decide
    if failing:
        kind, n, v, rq = failing[0]
        text = [f"{kind} {n}: {v}", "table row: " + describe_row(kind, n), "request: " + rq,
                "(the row checker is the Bool function the table theorems decide; replay re-evaluates it natively)", "",
                f"all failing rows ({len(failing)}):"] + [f"  {k} {m}: {vv}" for k, m, vv, _ in failing[:100]]
        if broken:
            text += ["", "also:"] + broken
        run.violation("failing_row.txt", "\n".join(text), key=f"row:{kind.replace(' ', '-')}:{n}")
    elif impl_fail:
        (kind, n), fl, detail = impl_fail[0]
        text = [f"{kind} {n}: fails: {', '.join(fl)}   (judged on the implementation's own tables and operation lists)",
                "table row: " + detail, "", f"all failing rows ({len(impl_fail)}):"] + \
               [f"  {k} {m}: {', '.join(f)}" for (k, m), f, _ in impl_fail[:100]]
        if broken:
            text += ["", "also:"] + broken
        run.violation("failing_row_impl.txt", "\n".join(text), key=f"row:{kind.replace(' ', '-')}:{n}")
    elif ident_bad:
        u, tag, ans, q = ident_bad[0]
        text = [f"uni {u}: not identified as itself: MagneticSpaceGroup::new on the tabulated primitive operations ({tag}: own setting, or -re: re-based by a "
                f"unimodular matrix and origin shift) answers: {ans}", "request (operations with exact floats): " + q[:3000], "",
                f"all rows not identified as themselves ({len(ident_bad)}):"] + [f"  uni {a} ({b}): {c[:100]}" for a, b, c, _ in ident_bad[:100]]
        run.violation("not_identified_as_itself.txt", "\n".join(text), key=f"ident:{u}")
    elif mism or broken:
        lines = list(broken)
        if mism:
            lines.append(f"model/implementation correspondence broken on {len(mism)} of {len(reqs)} cases; first:")
            for i in mism[:10]:
                lines.append(f"  request: {reqs[i]}\n    impl : {exps[i][:400]}\n    model: {outs[i][:400]}")
            lines.append("every table row still satisfies all clauses (natively on the model's lists, and on the implementation's own tables and lists)")
        run.violation("unchecked.txt", "\n".join(lines), no_input=True)
    return run.finish()


def replay_impl(pid, path, txt):
    """Replay of a row judged on the implementation's data."""
    import translate_c16 as C
    pg = C.translate_point_group()
    cases = os.path.join(vlib.WORK, f"{pid.lower()}_replay.cases")
    cases2 = os.path.join(vlib.WORK, f"{pid.lower()}_replay_pg.cases")
    vlib.harness(["tables-gen", cases])
    vlib.harness(["c16-gen", cases2])
    a, b = vlib.read_cases(cases)
    c, d = vlib.read_cases(cases2)
    res = impl_oracle(pid, C, pg, impl_tables(a + c, b + d))
    m = re.match(r"(hall|arithmetic class|uni range of number|uni) (\d+):", txt)
    want = (m.group(1), int(m.group(2))) if m else None
    rc = 0
    for lab, fl, detail in res:
        if want is None or lab == want:
            print(f"{lab[0]} {lab[1]}: fails: {', '.join(fl)}")
            print("table row:", detail)
            rc = 1
    if rc == 0:
        print("row passes on the implementation's data")
    else:
        print(f"VIOLATION property={pid} replay={path}")
    return rc


def replay_tables(pid, path):
    txt = open(path).read()
    vlib.build_harness()
    if "not identified as itself" in txt:
        seed = int(os.environ.get("VERIF_SEED", "0") or 0)
        rc = 0
        for tier in ("quick", "thorough"):
            _, _, bad = identify_rows(tier, seed)
            for u, tag, ans, _ in bad[:20]:
                print(f"uni {u} ({tag}) not identified as itself: {ans[:150]}")
                rc = 1
            if rc:
                break
        print(f"VIOLATION property={pid} replay={path}" if rc else "every row is identified as itself on the current tree")
        return rc
    if SCREEN or "judged on the implementation's own tables" in txt:
        return replay_impl(pid, path, txt)
    vlib.translate()
    translate_c16(tables_only=True)
    vlib.lake_build(["moyo_model"])
    translate_c16()
    C, pg, certs = load_certs()
    rreqs, labels = row_requests(pid, C, certs)
    verd = vlib.run_model(rreqs)
    rc = 0
    m = re.match(r"(hall|arithmetic class|uni range of number|uni) (\d+):", txt)
    want = (m.group(1), int(m.group(2))) if m else None
    for lab, v, rq in zip(labels, verd, rreqs):
        if (want is None and v != "ok") or lab == want:
            print(f"{lab[0]} {lab[1]}: {v}")
            print("table row:", describe_row(*lab))
            if v != "ok":
                rc = 1
    if want is None and rc == 0 and "correspondence broken" in txt:
        print("no failing row; re-run the check for the correspondence")
    if rc:
        print(f"VIOLATION property={pid} replay={path}")
    return rc


def run(tier, seed):
    return run_tables("C16", tier, seed)


def replay(path):
    return replay_tables("C16", path)
