"""Stage correspondence for S9, the glue of `MoyoDataset::new` (moyo/src/lib.rs), and the dataflow check.

An `s9` line (harness/src/stages.rs, end of `dump_stages`) carries
  request : the outputs of the *separately called* stages (PrimitiveCell, PrimitiveSymmetrySearch, SpaceGroup,
            StandardizedCell) that lib.rs reads, with exact floats;
  expected: what the real `MoyoDataset::new(cell, symprec, angle_tolerance, setting)` returned for the same input
            (format of `pipeline::dataset_segments`), or `skip retry <n>` when the real pipeline needed tolerance
            retries (then its stage inputs are not the dumped ones; the case is counted, not compared).
The Lean model (Moyo/Model/StageGlue.lean, driver command `s9`) assembles every dataset field from the request in exact
rational arithmetic.  Agreement therefore checks two things at once: the model of the glue code, and that the
composition of the separately called stages IS the pipeline (dataflow, DESIGN 2.3).

Comparison: integers / strings / permutations exact; floats to 1e-9 (relative to max(1, |x|)), literally -- the origin
shifts are NOT compared modulo 1 because lib.rs does not wrap them.  Only the translations of `operations` (stage S4:
`% 1.0` of an f64 sum against the exact remainder) are compared modulo 1, as in the S4 comparison.
"""
from fractions import Fraction

import vlib

TOL = Fraction(1, 10 ** 9)

EXACT = ("number", "hallnum", "nops", "orbits", "wyck", "sitesym", "stdn", "stdnum", "pearson", "primn", "primnum", "mapping")
FLOATS = ("stdlat", "stdpos", "stdlinear", "stdshift", "stdrot", "primlat", "primpos", "primlinear", "primshift", "osymprec")


def segs(line):
    d = {}
    for p in line.split(" ; "):
        t = p.split()
        if t:
            d[t[0]] = t[1:]
    return d


def cmp_floats(name, e, o):
    if len(e) != len(o):
        return f"{name}: length {len(o)} vs {len(e)}"
    for k, (a, b) in enumerate(zip(e, o)):
        x, y = vlib.parse_num(a), vlib.parse_num(b)
        if abs(x - y) > TOL * max(Fraction(1), abs(x), abs(y)):
            return f"{name}[{k}]: model {float(y)!r} vs implementation {float(x)!r}"
    return None


def compare(kind, exp, out, stats):
    stats["s9_skipped_retry"] += 0   # always reported, also when no case needed a retry
    if exp.startswith("skip retry"):
        stats["s9_skipped_retry"] += 1
        return None
    if not out.startswith("out "):
        return f"model could not answer: {out[:200]}"
    stats["s9_compared"] += 1
    e, o = segs(exp), segs(out)
    if e.get("out") != o.get("out"):
        return f"outcome: stages+glue model `{out[:120]}` vs real pipeline `{exp[:120]}` (dataflow: the first attempt of the real pipeline did not behave like the separately called stages)"
    if e["out"] == ["err"]:
        stats["s9_err"] += 1
        return None if e.get("errname") == o.get("errname") else f"error kind: model {o.get('errname')} vs implementation {e.get('errname')}"
    if e["out"] == ["panic"]:
        stats["s9_panic"] += 1
        return None
    for name in EXACT:
        if e.get(name) != o.get(name):
            return f"{name}: model {' '.join(o.get(name, ['<missing>']))[:100]} vs implementation {' '.join(e.get(name, ['<missing>']))[:100]}"
    m = vlib.ops_equal(e.get("ops", []), o.get("ops", []), rel=1e-9, abs_=1e-9, mod1=True)
    if m:
        return "operations: " + m
    for name in FLOATS:
        if name not in e or name not in o:
            return f"{name}: missing"
        m = cmp_floats(name, e[name], o[name])
        if m:
            return m
    ea, oa = e.get("oangtol", []), o.get("oangtol", [])
    if ea[:1] != oa[:1]:
        return f"angle_tolerance: model {oa} vs implementation {ea}"
    if ea[:1] == ["radian"]:
        m = cmp_floats("oangtol", ea[1:], oa[1:])
        if m:
            return m
    if int(e["primn"][0]) != int(e["stdn"][0]):
        stats["s9_centred"] += 1
    if len(set(e["mapping"])) < len(e["mapping"]):
        stats["s9_nonprimitive_input"] += 1
    return None
