"""Shared machinery for /verif/check.py: builds, model driver, axiom audit, evidence, verdicts."""
import fcntl
import json
import os
import re
import subprocess
import sys
import time
from concurrent.futures import ThreadPoolExecutor
from fractions import Fraction

VERIF = os.path.dirname(os.path.abspath(__file__))
LEAN = os.path.join(VERIF, "lean")
# Environment overrides are used only to pre-screen seeded changes in a scratch worktree without touching /repo
# (tools/mutscreen.py); the registered commands never set them.
HARNESS = os.environ.get("VERIF_HARNESS", os.path.join(VERIF, "harness"))
CACHE = os.path.join(VERIF, ".cache")
WORK = os.environ.get("VERIF_WORK", os.path.join(CACHE, "work"))
TARGET = os.environ.get("VERIF_TARGET", os.path.join(CACHE, "target"))
HARNESS_BIN = os.path.join(TARGET, "debug", "moyo_harness")
MODEL_BIN = os.path.join(LEAN, ".lake", "build", "bin", "moyo_model")
REPO = os.environ.get("VERIF_REPO", "/repo")
NCPU = os.cpu_count() or 4
ALLOWED_AXIOMS = {"propext", "Classical.choice", "Quot.sound"}

ENV = dict(os.environ)
ENV.update({"CARGO_NET_OFFLINE": "true", "CARGO_TARGET_DIR": TARGET})


def log(*a):
    print(*a, file=sys.stderr, flush=True)


class Lock:
    def __init__(self, name, shared=False):
        os.makedirs(CACHE, exist_ok=True)
        self.path = os.path.join(CACHE, name + ".lock")
        self.shared = shared

    def __enter__(self):
        self.f = open(self.path, "a")
        fcntl.flock(self.f, fcntl.LOCK_SH if self.shared else fcntl.LOCK_EX)
        return self

    def __exit__(self, *a):
        fcntl.flock(self.f, fcntl.LOCK_UN)
        self.f.close()


def sh(cmd, cwd=None, timeout=None, env=None, check=False, input=None):
    r = subprocess.run(cmd, cwd=cwd, env=env or ENV, capture_output=True, text=True, timeout=timeout,
                       shell=isinstance(cmd, str), input=input)
    if check and r.returncode != 0:
        raise RuntimeError(f"command failed: {cmd}\n{r.stdout[-3000:]}\n{r.stderr[-3000:]}")
    return r


# ------------------------------------------------------------------------------------------------
# builds

def build_harness():
    """Rebuild the harness (and therefore moyo with the verif feature) from /repo's current tree."""
    with Lock("cargo"):
        t = time.time()
        r = sh(["cargo", "build"], cwd=HARNESS)
        if r.returncode != 0:
            return False, r.stderr[-6000:]
        log(f"[build] harness ok in {time.time()-t:.1f}s")
        return True, ""


def translate():
    """Regenerate Moyo/Generated/*.lean from /repo (only rewrites files whose content changed)."""
    tr = os.path.join(VERIF, "tools", "translate.py")
    if not os.path.exists(tr) or os.environ.get("VERIF_REPO"):
        # pre-screening of a scratch worktree must not rewrite the shared Generated/ files
        return True, ""
    with Lock("lake"):
        r = sh([sys.executable, tr], cwd=VERIF)
    return r.returncode == 0, (r.stdout + r.stderr)[-6000:]


def lake_build(targets):
    """Build lake targets; returns (ok, output)."""
    with Lock("lake"):
        t = time.time()
        r = sh(["lake", "build"] + list(targets), cwd=LEAN)
        out = r.stdout + r.stderr
        log(f"[build] lake {' '.join(targets)} rc={r.returncode} in {time.time()-t:.1f}s")
        return r.returncode == 0, out


def theorem_names(relpath):
    """Names of the theorems declared in a Props file (with their namespace)."""
    src = open(os.path.join(LEAN, relpath)).read()
    # strip comments
    src = re.sub(r"/-.*?-/", "", src, flags=re.S)
    src = re.sub(r"--.*", "", src)
    names = []
    ns = []
    for line in src.splitlines():
        m = re.match(r"\s*namespace\s+(\S+)", line)
        if m:
            ns.append(m.group(1))
            continue
        m = re.match(r"\s*end\s+(\S+)", line)
        if m and ns and ns[-1] == m.group(1):
            ns.pop()
            continue
        m = re.match(r"\s*(?:@\[[^\]]*\]\s*)?(?:private\s+|protected\s+)?theorem\s+(\S+)", line)
        if m:
            names.append(".".join(ns + [m.group(1)]))
    return names


FORBIDDEN = re.compile(r"\bsorry\b|\badmit\b|^\s*axiom\s|native_decide|bv_decide|implemented_by|\bunsafe\s|maxHeartbeats\s+0", re.M)


def source_audit(relpaths):
    """grep the given Lean sources (comments stripped) for forbidden constructs."""
    hits = []
    for rp in relpaths:
        src = open(os.path.join(LEAN, rp)).read()
        src2 = re.sub(r"/-.*?-/", "", src, flags=re.S)
        src2 = re.sub(r"--.*", "", src2)
        for m in FORBIDDEN.finditer(src2):
            hits.append(f"{rp}: {m.group(0).strip()}")
    return hits


def axiom_audit(module, names):
    """#print axioms for each theorem; returns {name: [axioms]} (None if the name failed)."""
    if not names:
        return {}
    os.makedirs(WORK, exist_ok=True)
    path = os.path.join(WORK, f"audit_{module.replace('.', '_')}_{os.getpid()}.lean")
    with open(path, "w") as f:
        f.write(f"import {module}\n")
        for n in names:
            f.write(f"#print axioms {n}\n")
    r = sh(["lake", "env", "lean", path], cwd=LEAN)
    out = r.stdout + r.stderr
    os.unlink(path)
    res = {n: None for n in names}
    for m in re.finditer(r"'([^']+)' depends on axioms: \[([^\]]*)\]", out, flags=re.S):
        res[m.group(1)] = [a.strip() for a in m.group(2).replace("\n", " ").split(",") if a.strip()]
    for m in re.finditer(r"'([^']+)' does not depend on any axioms", out):
        res[m.group(1)] = []
    return res


def proof_obligations(props_modules):
    """Build the property's theorem modules, audit them.
    props_modules: list of (module name, relative path).  Returns dict with obligations, discharged,
    failures (list of strings), names."""
    failures = []
    all_names = []
    discharged = 0
    missing = [p for _, p in props_modules if not os.path.exists(os.path.join(LEAN, p))]
    if missing:
        return {"obligations": 0, "discharged": 0, "failures": ["missing theorem file " + p for p in missing], "names": []}
    ok, out = lake_build([m for m, _ in props_modules])
    if not ok:
        errs = [l for l in out.splitlines() if "error" in l][:20]
        failures.append("lake build failed: " + " | ".join(errs))
    hits = source_audit([p for _, p in props_modules])
    for h in hits:
        failures.append("forbidden construct: " + h)
    for mod, rel in props_modules:
        names = theorem_names(rel)
        all_names += names
        if not ok:
            continue
        ax = axiom_audit(mod, names)
        for n in names:
            a = ax.get(n)
            if a is None:
                failures.append(f"theorem {n}: not found by #print axioms")
            elif not set(a) <= ALLOWED_AXIOMS:
                failures.append(f"theorem {n}: disallowed axioms {sorted(set(a) - ALLOWED_AXIOMS)}")
            else:
                discharged += 1
    return {"obligations": len(all_names), "discharged": discharged, "failures": failures, "names": all_names}


# ------------------------------------------------------------------------------------------------
# model driver

def run_model(requests, nproc=None):
    """Send request lines to moyo_model (split over processes); returns the answer lines."""
    nproc = nproc or NCPU
    n = len(requests)
    if n == 0:
        return []
    nproc = max(1, min(nproc, (n + 199) // 200))
    # round-robin split so that expensive neighbouring cases spread over the processes
    chunks = [requests[i::nproc] for i in range(nproc)]

    def one(chunk):
        r = subprocess.run([MODEL_BIN], input="\n".join(chunk) + "\n", capture_output=True, text=True)
        lines = r.stdout.split("\n")
        if lines and lines[-1] == "":
            lines.pop()
        if len(lines) != len(chunk):
            lines = lines + ["MODEL-CRASH " + r.stderr[-200:].replace("\n", " ")] * (len(chunk) - len(lines))
        return lines

    # shared lock: a concurrent `lake build` (exclusive) must not relink the driver while it is answering
    with Lock("lake", shared=True):
        with ThreadPoolExecutor(nproc) as ex:
            outs = list(ex.map(one, chunks))
    res = [None] * n
    for i, o in enumerate(outs):
        res[i::nproc] = o
    return res


def read_cases(path):
    reqs, exps = [], []
    with open(path) as f:
        for line in f:
            line = line.rstrip("\n")
            if " ||| " in line:
                a, b = line.split(" ||| ", 1)
            else:
                a, b = line, ""
            reqs.append(a)
            exps.append(b)
    return reqs, exps


def harness(args, timeout=3600, seed=0):
    env = dict(ENV)
    env["VERIF_SEED"] = str(seed)
    r = subprocess.run([HARNESS_BIN] + args, capture_output=True, text=True, timeout=timeout, env=env)
    return r


def harness_eval(requests, name, item_timeout=10.0, mem_gb=4):
    """Evaluate request lines against the implementation in isolated child processes.
    Returns the list of expected strings; a request on which the implementation stalls for more than
    `item_timeout` seconds or dies (abort, OOM under `ulimit -v`) gets `HANG`/`CRASH(...)`."""
    import resource
    os.makedirs(WORK, exist_ok=True)
    inf = os.path.join(WORK, name + ".req")
    outf = os.path.join(WORK, name + ".out")
    with open(inf, "w") as f:
        f.write("\n".join(requests) + "\n")
    if os.path.exists(outf):
        os.unlink(outf)
    results = [None] * len(requests)

    def limits():
        resource.setrlimit(resource.RLIMIT_AS, (mem_gb << 30, mem_gb << 30))

    def read_out():
        started = -1
        if not os.path.exists(outf):
            return started
        with open(outf, errors="replace") as f:
            for line in f:
                line = line.rstrip("\n")
                if " ||| " not in line:
                    continue
                i, r = line.split(" ||| ", 1)
                try:
                    i = int(i)
                except ValueError:
                    continue
                if r == "START":
                    started = max(started, i)
                elif 0 <= i < len(results):
                    results[i] = r
        return started

    start = 0
    while start < len(requests):
        p = subprocess.Popen([HARNESS_BIN, "eval", inf, outf, str(start)], preexec_fn=limits, env=ENV,
                             stdout=subprocess.DEVNULL, stderr=subprocess.PIPE)
        last_done, last_change = -1, time.time()
        verdict = None
        while True:
            rc = p.poll()
            started = read_out()
            done = max([i for i in range(start, len(results)) if results[i] is not None], default=start - 1)
            if done != last_done:
                last_done, last_change = done, time.time()
            if rc is not None:
                if rc != 0:
                    verdict = f"CRASH(rc={rc})"
                break
            if time.time() - last_change > item_timeout:
                p.kill()
                p.wait()
                verdict = "HANG"
                break
            time.sleep(0.05)
        started = read_out()
        if verdict is None:
            break
        stuck = started if started >= 0 and results[started] is None else None
        if stuck is None:
            # died between items; resume after the last completed one
            nxt = max([i for i in range(len(results)) if results[i] is not None], default=start - 1) + 1
            if nxt <= start:
                results[start] = verdict
                nxt = start + 1
            start = nxt
        else:
            results[stuck] = verdict
            start = stuck + 1
    return [r if r is not None else "NOT-EVALUATED" for r in results]


def parse_num(tok):
    """Parse a model/harness numeric token exactly: int, p/q, or M@E."""
    if "@" in tok:
        m, e = tok.split("@")
        m, e = int(m), int(e)
        return Fraction(m) * (Fraction(2) ** e)
    return Fraction(tok)


def close(a, b, rel=1e-9, abs_=1e-12):
    """|a-b| <= abs_ + rel*max(|a|,|b|) on exact rationals."""
    d = abs(a - b)
    return d <= Fraction(abs_) + Fraction(rel) * max(abs(a), abs(b))


def ops_equal(exp_tokens, out_tokens, rel=1e-10, abs_=1e-10, mod1=True):
    """Compare two operation lists given as flat token lists (12 tokens per operation: 9 integer rotation entries,
    3 translation components).  Rotations must agree exactly; translations within tolerance, modulo 1 when `mod1`
    (an exact model and an f64 implementation may land on opposite sides of the wrap-around).  Returns None or a message."""
    if len(exp_tokens) != len(out_tokens) or len(exp_tokens) % 12 != 0:
        return f"length {len(out_tokens)} vs {len(exp_tokens)}"
    for k in range(0, len(exp_tokens), 12):
        if exp_tokens[k:k + 9] != out_tokens[k:k + 9]:
            return f"operation {k // 12}: rotation {out_tokens[k:k+9]} vs {exp_tokens[k:k+9]}"
        for a, b in zip(exp_tokens[k + 9:k + 12], out_tokens[k + 9:k + 12]):
            if a == b:
                continue
            x, y = parse_num(a), parse_num(b)
            d = x - y
            if mod1:
                d = d - round(d)
            if abs(d) > Fraction(abs_) + Fraction(rel) * max(abs(x), abs(y)):
                return f"operation {k // 12}: translation {float(y)} vs {float(x)}"
    return None


# ------------------------------------------------------------------------------------------------
# known findings

def load_known():
    path = os.path.join(VERIF, "known_findings.txt")
    findings = []
    if os.path.exists(path):
        for line in open(path):
            line = line.strip()
            if line.startswith("finding:"):
                m = re.match(r"finding:\s+property=(\S+)\s+key=(\S+)\s+(.*)", line)
                if m:
                    findings.append({"property": m.group(1), "key": m.group(2), "what": m.group(3)})
    return findings


# ------------------------------------------------------------------------------------------------
# verdicts and evidence

class Run:
    """Accumulates the outcome of one check run."""

    def __init__(self, pid, tier, seed, level):
        self.pid, self.tier, self.seed, self.level = pid, tier, seed, level
        self.t0 = time.time()
        self.coverage = {}
        self.assumptions = []
        self.violations = []      # list of (replay_path, no_input_found: bool)
        self.known_hit = []
        self.known = [k for k in load_known() if k["property"] == pid]
        d = os.path.join(VERIF, "replays", pid)
        if os.path.isdir(d):
            for f in os.listdir(d):
                try:
                    os.unlink(os.path.join(d, f))
                except OSError:
                    pass

    def replay_path(self, name):
        d = os.path.join(WORK if os.environ.get("VERIF_REPO") else VERIF, "replays", self.pid)
        os.makedirs(d, exist_ok=True)
        return os.path.join(d, name)

    def violation(self, name, content, key=None, no_input=False):
        """Record a violation (unless `key` matches a listed known finding)."""
        if key is not None:
            for k in self.known:
                if k["key"] == key:
                    if key not in [x["key"] for x in self.known_hit]:
                        self.known_hit.append(k)
                    return False
        p = self.replay_path(name)
        with open(p, "w") as f:
            f.write(content if isinstance(content, str) else json.dumps(content, indent=1))
        self.violations.append((p, no_input))
        return True

    def finish(self):
        wall = time.time() - self.t0
        self.coverage.setdefault("known_findings_hit", [k["key"] for k in self.known_hit])
        ev = {
            "property_id": self.pid, "tier": self.tier, "seed": self.seed, "level": self.level,
            "coverage": self.coverage, "assumptions": self.assumptions, "wall_s": round(wall, 2),
            "violations": len(self.violations),
        }
        # pre-screening runs (VERIF_REPO set) must not overwrite the evidence of /repo
        evdir = os.path.join(WORK, "evidence") if os.environ.get("VERIF_REPO") else os.path.join(VERIF, "evidence")
        os.makedirs(evdir, exist_ok=True)
        with open(os.path.join(evdir, f"{self.pid}.json"), "w") as f:
            json.dump(ev, f, indent=1, default=str)
        for k in self.known_hit:
            print(f"KNOWN-FINDING: property={self.pid} {k['key']} {k['what']}")
        seen = set()
        for p, no_input in self.violations:
            if p in seen:
                continue
            seen.add(p)
            print(f"VIOLATION property={self.pid} replay={p}" + (" no-failing-input-found" if no_input else ""))
        print(f"[{self.pid}] tier={self.tier} seed={self.seed} wall={wall:.1f}s violations={len(seen)} "
              f"coverage={{{', '.join(f'{k}={v}' for k, v in self.coverage.items() if isinstance(v, (int, float, bool)))}}}")
        sys.stdout.flush()
        return 1 if self.violations else 0


TRUSTED_COMMON = [
    "Lean 4.33.0 kernel; axioms allowed in property theorems: propext, Classical.choice, Quot.sound (audited with #print axioms on every run)",
    "Lean compiler/runtime for executing the model and the oracles in the correspondence (not for the theorems)",
    "the harness (Rust, calls moyo in-process) and check.py/vlib.py (differential-testing infrastructure)",
    "the model is hand-written: tied to /repo by the correspondence on generated inputs only (exhaustive where stated)",
]
